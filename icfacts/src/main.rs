//! icfacts: rustc_private fact extractor for the IronCalc static checks.
//!
//! Run as RUSTC_WORKSPACE_WRAPPER under `cargo +nightly check`. For the crates named in
//! ICFACTS_CRATES (comma separated) it dumps, after analysis, one JSON-lines file
//! `$ICFACTS_OUT/<crate>.jsonl` with ADT definitions, impls, function signatures and the MIR
//! (optimized_mir at mir-opt-level 0) of every local body, with callees resolved through
//! `Instance::try_resolve`. All other crates are compiled unchanged.
#![feature(rustc_private)]
#![allow(rustc::internal)]

extern crate rustc_abi;
extern crate rustc_driver;
extern crate rustc_hir;
extern crate rustc_interface;
extern crate rustc_middle;
extern crate rustc_span;

use rustc_driver::{Callbacks, Compilation};
use rustc_hir::def::DefKind;
use rustc_hir::def_id::{DefId, LocalDefId};
use rustc_middle::mir::*;
use rustc_middle::ty::print::{with_crate_prefix, with_no_trimmed_paths};
use rustc_middle::ty::{self, Instance, Ty, TyCtxt, TypingEnv};
use rustc_span::Span;
use std::collections::BTreeMap;
use std::fmt::Write as _;

fn js(s: &str) -> String {
    let mut o = String::with_capacity(s.len() + 2);
    o.push('"');
    for c in s.chars() {
        match c {
            '"' => o.push_str("\\\""),
            '\\' => o.push_str("\\\\"),
            '\n' => o.push_str("\\n"),
            '\r' => o.push_str("\\r"),
            '\t' => o.push_str("\\t"),
            c if (c as u32) < 0x20 => {
                let _ = write!(o, "\\u{:04x}", c as u32);
            }
            c => o.push(c),
        }
    }
    o.push('"');
    o
}

struct Cx<'tcx> {
    tcx: TyCtxt<'tcx>,
    foreign_adts: BTreeMap<String, DefId>,
    krate: String,
    calls: std::collections::BTreeSet<String>,
}

/// `crate::` (printed by with_crate_prefix for local items) -> `<crate name>::`
fn fix_crate(s: String, krate: &str) -> String {
    if !s.contains("crate::") {
        return s;
    }
    let b = s.as_bytes();
    let mut o = String::with_capacity(s.len() + 16);
    let mut i = 0;
    while i < b.len() {
        if s[i..].starts_with("crate::")
            && (i == 0 || !(b[i - 1].is_ascii_alphanumeric() || b[i - 1] == b'_'))
        {
            o.push_str(krate);
            o.push_str("::");
            i += 7;
        } else {
            let ch = s[i..].chars().next().unwrap();
            o.push(ch);
            i += ch.len_utf8();
        }
    }
    o
}

impl<'tcx> Cx<'tcx> {
    fn path(&self, d: DefId) -> String {
        fix_crate(with_crate_prefix!(with_no_trimmed_paths!(self.tcx.def_path_str(d))), &self.krate)
    }
    fn tys(&self, t: Ty<'tcx>) -> String {
        fix_crate(with_crate_prefix!(with_no_trimmed_paths!(t.to_string())), &self.krate)
    }
    fn loc(&self, sp: Span) -> (String, usize, usize, String) {
        let sm = self.tcx.sess.source_map();
        let mut macs: Vec<String> = Vec::new();
        if sp.from_expansion() {
            for e in sp.macro_backtrace() {
                if let rustc_span::hygiene::ExpnKind::Macro(_, name) = e.kind {
                    macs.push(name.to_string());
                } else {
                    macs.push(format!("{:?}", e.kind));
                }
            }
        }
        let cs = sp.source_callsite();
        let lo = sm.lookup_char_pos(cs.lo());
        let hi = sm.lookup_char_pos(cs.hi());
        let fname = match &lo.file.name {
            rustc_span::FileName::Real(r) => match r.local_path() {
                Some(p) => p.to_string_lossy().to_string(),
                None => format!("{:?}", lo.file.name),
            },
            o => format!("{:?}", o),
        };
        (fname, lo.line, hi.line, macs.join(">"))
    }
    fn span_json(&self, sp: Span) -> String {
        let (f, l, _h, m) = self.loc(sp);
        if m.is_empty() {
            format!("\"line\":{},\"file\":{}", l, js(&f))
        } else {
            format!("\"line\":{},\"file\":{},\"mac\":{}", l, js(&f), js(&m))
        }
    }

    fn note_adt(&mut self, t: Ty<'tcx>) -> Option<String> {
        if let ty::Adt(def, _) = t.kind() {
            let p = self.path(def.did());
            if !def.did().is_local() {
                self.foreign_adts.insert(p.clone(), def.did());
            }
            Some(p)
        } else {
            None
        }
    }

    fn place(&mut self, body: &Body<'tcx>, p: &Place<'tcx>) -> String {
        let tcx = self.tcx;
        let mut s = format!("{{\"l\":{}", p.local.as_usize());
        if !p.projection.is_empty() {
            s.push_str(",\"p\":[");
            let mut pty = rustc_middle::mir::PlaceTy::from_ty(body.local_decls[p.local].ty);
            for (i, elem) in p.projection.iter().enumerate() {
                if i > 0 {
                    s.push(',');
                }
                match elem {
                    ProjectionElem::Deref => s.push_str("[\"*\"]"),
                    ProjectionElem::Field(f, _) => {
                        let mut fname = String::from("null");
                        let mut cont = String::from("null");
                        let mut var = String::from("null");
                        match pty.ty.kind() {
                            ty::Adt(def, _) => {
                                let vidx = pty.variant_index.unwrap_or(rustc_abi::FIRST_VARIANT);
                                if def.is_enum() || def.is_struct() || def.is_union() {
                                    let v = def.variant(vidx);
                                    if let Some(fd) = v.fields.get(f) {
                                        fname = js(fd.name.as_str());
                                    }
                                    if def.is_enum() {
                                        var = js(v.name.as_str());
                                    }
                                }
                                cont = js(&self.path(def.did()));
                            }
                            ty::Closure(d, _) => {
                                cont = js(&format!("closure:{}", self.path(*d)));
                            }
                            ty::Tuple(_) => {
                                cont = js("tuple");
                            }
                            _ => {}
                        }
                        let _ = write!(s, "[\"f\",{},{},{},{}]", f.as_usize(), fname, cont, var);
                    }
                    ProjectionElem::Index(l) => {
                        let _ = write!(s, "[\"i\",{}]", l.as_usize());
                    }
                    ProjectionElem::ConstantIndex { offset, min_length, from_end } => {
                        let _ = write!(s, "[\"ci\",{},{},{}]", offset, min_length, from_end);
                    }
                    ProjectionElem::Subslice { from, to, from_end } => {
                        let _ = write!(s, "[\"sub\",{},{},{}]", from, to, from_end);
                    }
                    ProjectionElem::Downcast(name, vidx) => {
                        let n = match name {
                            Some(n) => n.to_string(),
                            None => match pty.ty.kind() {
                                ty::Adt(def, _) => def.variant(vidx).name.to_string(),
                                _ => format!("{}", vidx.as_usize()),
                            },
                        };
                        let _ = write!(s, "[\"dc\",{},{}]", js(&n), vidx.as_usize());
                    }
                    ProjectionElem::OpaqueCast(_) => s.push_str("[\"oc\"]"),
                    ProjectionElem::UnwrapUnsafeBinder(_) => s.push_str("[\"ub\"]"),
                }
                pty = pty.projection_ty(tcx, elem);
            }
            s.push(']');
        }
        s.push('}');
        s
    }

    fn const_json(&mut self, body: &Body<'tcx>, c: &ConstOperand<'tcx>, owner: DefId) -> String {
        let tcx = self.tcx;
        let ty = c.const_.ty();
        let mut s = String::from("{\"k\":");
        // function items used as values
        if let ty::FnDef(did, args) = ty.kind() {
            let env = TypingEnv::post_analysis(tcx, owner);
            let mut r = self.path(*did);
            if let Ok(Some(inst)) = Instance::try_resolve(tcx, env, *did, args) {
                r = self.path(inst.def_id());
            }
            let _ = write!(s, "{{\"fn\":{},\"r\":{}}}}}", js(&self.path(*did)), js(&r));
            self.calls.insert(format!("ref:{}", r));
            return s;
        }
        let disp = fix_crate(with_crate_prefix!(with_no_trimmed_paths!(format!("{}", c.const_))), &self.krate);
        let _ = write!(s, "{{\"d\":{},\"ty\":{}", js(&disp), js(&self.tys(ty)));
        match c.const_ {
            Const::Unevaluated(uv, _) => {
                if let Some(p) = uv.promoted {
                    let _ = write!(s, ",\"promoted\":{}", p.as_usize());
                } else {
                    let _ = write!(s, ",\"cdef\":{}", js(&self.path(uv.def)));
                    let env = TypingEnv::post_analysis(tcx, owner);
                    if let Ok(val) = c.const_.eval(tcx, env, c.span) {
                        let v = Const::Val(val, ty);
                        let d2 = fix_crate(with_crate_prefix!(with_no_trimmed_paths!(format!("{}", v))), &self.krate);
                        let _ = write!(s, ",\"v\":{}", js(&d2));
                        self.const_bytes(&mut s, val, ty);
                    }
                }
            }
            Const::Val(val, ty) => {
                self.const_bytes(&mut s, val, ty);
            }
            Const::Ty(..) => {}
        }
        let _ = body;
        s.push_str("}}");
        s
    }

    fn const_bytes(&mut self, s: &mut String, val: ConstValue, ty: Ty<'tcx>) {
        let tcx = self.tcx;
        // &str / &[u8] slices
        if let ty::Ref(_, inner, _) = ty.kind() {
            match inner.kind() {
                ty::Str => {
                    if let Some(b) = val.try_get_slice_bytes_for_diagnostics(tcx) {
                        let _ = write!(s, ",\"s\":{}", js(&String::from_utf8_lossy(b)));
                    }
                }
                ty::Slice(e) if *e == tcx.types.u8 => {
                    if let Some(b) = val.try_get_slice_bytes_for_diagnostics(tcx) {
                        let hex: String = b.iter().map(|x| format!("{:02x}", x)).collect();
                        let _ = write!(s, ",\"b\":{}", js(&hex));
                    }
                }
                ty::Array(e, n) if *e == tcx.types.u8 => {
                    if let (ConstValue::Scalar(rustc_middle::mir::interpret::Scalar::Ptr(ptr, _)), Some(n)) =
                        (val, n.try_to_target_usize(tcx))
                    {
                        let (prov, off) = ptr.into_raw_parts();
                        if let Some(rustc_middle::mir::interpret::GlobalAlloc::Memory(a)) =
                            tcx.try_get_global_alloc(prov.alloc_id())
                        {
                            let a = a.inner();
                            let start = off.bytes() as usize;
                            let end = start + n as usize;
                            if end <= a.len() {
                                let b = a.inspect_with_uninit_and_ptr_outside_interpreter(start..end);
                                let hex: String = b.iter().map(|x| format!("{:02x}", x)).collect();
                                let _ = write!(s, ",\"b\":{}", js(&hex));
                            }
                        }
                    }
                }
                _ => {}
            }
        }
    }

    fn operand(&mut self, body: &Body<'tcx>, o: &Operand<'tcx>, owner: DefId) -> String {
        match o {
            Operand::Copy(p) => format!("{{\"c\":{}}}", self.place(body, p)),
            Operand::Move(p) => format!("{{\"m\":{}}}", self.place(body, p)),
            Operand::Constant(c) => self.const_json(body, c, owner),
            #[allow(unreachable_patterns)]
            _ => String::from("{\"k\":{\"d\":\"?\"}}"),
        }
    }

    fn rvalue(&mut self, body: &Body<'tcx>, rv: &Rvalue<'tcx>, owner: DefId) -> String {
        let tcx = self.tcx;
        match rv {
            Rvalue::Use(o, _) => format!("{{\"k\":\"use\",\"o\":{}}}", self.operand(body, o, owner)),
            Rvalue::CopyForDeref(p) => {
                format!("{{\"k\":\"use\",\"o\":{{\"c\":{}}}}}", self.place(body, p))
            }
            Rvalue::Repeat(o, _) => format!("{{\"k\":\"repeat\",\"o\":{}}}", self.operand(body, o, owner)),
            Rvalue::Ref(_, bk, p) => {
                let m = matches!(bk, BorrowKind::Mut { .. });
                format!("{{\"k\":\"ref\",\"mut\":{},\"p\":{}}}", m, self.place(body, p))
            }
            Rvalue::RawPtr(k, p) => {
                let m = matches!(k, RawPtrKind::Mut);
                format!("{{\"k\":\"rawptr\",\"mut\":{},\"p\":{}}}", m, self.place(body, p))
            }
            Rvalue::ThreadLocalRef(d) => format!("{{\"k\":\"tls\",\"d\":{}}}", js(&self.path(*d))),
            Rvalue::Cast(ck, o, t) => format!(
                "{{\"k\":\"cast\",\"ck\":{},\"o\":{},\"ty\":{}}}",
                js(&format!("{:?}", ck)),
                self.operand(body, o, owner),
                js(&self.tys(*t))
            ),
            Rvalue::BinaryOp(op, ab) => {
                let (a, b) = &**ab;
                let ta = a.ty(&body.local_decls, tcx);
                format!(
                    "{{\"k\":\"bin\",\"op\":{},\"a\":{},\"b\":{},\"ty\":{}}}",
                    js(&format!("{:?}", op)),
                    self.operand(body, a, owner),
                    self.operand(body, b, owner),
                    js(&self.tys(ta))
                )
            }
            Rvalue::UnaryOp(op, a) => {
                let ta = a.ty(&body.local_decls, tcx);
                format!(
                    "{{\"k\":\"un\",\"op\":{},\"a\":{},\"ty\":{}}}",
                    js(&format!("{:?}", op)),
                    self.operand(body, a, owner),
                    js(&self.tys(ta))
                )
            }
            Rvalue::Discriminant(p) => {
                let t = p.ty(&body.local_decls, tcx).ty;
                let adt = self.note_adt(t);
                format!(
                    "{{\"k\":\"discr\",\"p\":{},\"adt\":{}}}",
                    self.place(body, p),
                    adt.map(|a| js(&a)).unwrap_or_else(|| "null".into())
                )
            }
            Rvalue::Aggregate(kind, ops) => {
                let mut s = String::from("{\"k\":\"agg\"");
                match &**kind {
                    AggregateKind::Array(t) => {
                        let _ = write!(s, ",\"agg\":\"array\",\"ty\":{}", js(&self.tys(*t)));
                    }
                    AggregateKind::Tuple => s.push_str(",\"agg\":\"tuple\""),
                    AggregateKind::Adt(did, vidx, _, _, _) => {
                        let def = tcx.adt_def(*did);
                        let v = def.variant(*vidx);
                        let names: Vec<String> = v.fields.iter().map(|f| js(f.name.as_str())).collect();
                        let _ = write!(
                            s,
                            ",\"agg\":\"adt\",\"adt\":{},\"variant\":{},\"fields\":[{}]",
                            js(&self.path(*did)),
                            js(v.name.as_str()),
                            names.join(",")
                        );
                    }
                    AggregateKind::Closure(did, _) => {
                        self.calls.insert(format!("closure:{}", self.path(*did)));
                        let _ = write!(s, ",\"agg\":\"closure\",\"def\":{}", js(&self.path(*did)));
                    }
                    AggregateKind::Coroutine(did, _) | AggregateKind::CoroutineClosure(did, _) => {
                        let _ = write!(s, ",\"agg\":\"coroutine\",\"def\":{}", js(&self.path(*did)));
                    }
                    AggregateKind::RawPtr(..) => s.push_str(",\"agg\":\"rawptr\""),
                }
                s.push_str(",\"ops\":[");
                for (i, o) in ops.iter().enumerate() {
                    if i > 0 {
                        s.push(',');
                    }
                    s.push_str(&self.operand(body, o, owner));
                }
                s.push_str("]}");
                s
            }
            Rvalue::WrapUnsafeBinder(o, _) => {
                format!("{{\"k\":\"use\",\"o\":{}}}", self.operand(body, o, owner))
            }
        }
    }

    fn callee(&mut self, body: &Body<'tcx>, func: &Operand<'tcx>, owner: DefId) -> String {
        let tcx = self.tcx;
        let fty = func.ty(&body.local_decls, tcx);
        match fty.kind() {
            ty::FnDef(did, args) => {
                let env = TypingEnv::post_analysis(tcx, owner);
                let d = self.path(*did);
                let argstr: Vec<String> = args
                    .iter()
                    .filter_map(|a| a.as_type().map(|t| js(&self.tys(t))))
                    .collect();
                let mut s = format!("{{\"d\":{},\"targs\":[{}]", js(&d), argstr.join(","));
                match Instance::try_resolve(tcx, env, *did, args) {
                    Ok(Some(inst)) => {
                        let rd = inst.def_id();
                        self.calls.insert(self.path(rd));
                        let ik = match inst.def {
                            ty::InstanceKind::Item(_) => "item",
                            ty::InstanceKind::Virtual(..) => "virtual",
                            ty::InstanceKind::ClosureOnceShim { .. } => "closure_once",
                            ty::InstanceKind::FnPtrShim(..) => "fnptr_shim",
                            ty::InstanceKind::Intrinsic(_) => "intrinsic",
                            ty::InstanceKind::DropGlue(..) => "drop_glue",
                            ty::InstanceKind::CloneShim(..) => "clone_shim",
                            ty::InstanceKind::ReifyShim(..) => "reify",
                            _ => "other",
                        };
                        let _ = write!(
                            s,
                            ",\"r\":{},\"ik\":\"{}\",\"local\":{}",
                            js(&self.path(rd)),
                            ik,
                            rd.is_local()
                        );
                        // for closure_once the closure body is the self type's def
                        if let ty::InstanceKind::ClosureOnceShim { .. } = inst.def {
                            if let Some(t) = args.iter().filter_map(|a| a.as_type()).next() {
                                if let ty::Closure(cd, _) = t.kind() {
                                    self.calls.insert(self.path(*cd));
                                    let _ = write!(s, ",\"closure\":{}", js(&self.path(*cd)));
                                }
                            }
                        }
                    }
                    _ => {
                        self.calls.insert(format!("unresolved:{}", d));
                        let _ = write!(s, ",\"r\":null,\"ik\":\"unresolved\",\"local\":false");
                    }
                }
                // trait of the declared callee, if a trait method
                if let Some(tr) = tcx.trait_of_assoc(*did) {
                    let _ = write!(s, ",\"trait\":{}", js(&self.path(tr)));
                }
                s.push('}');
                s
            }
            ty::FnPtr(..) => format!("{{\"d\":null,\"ik\":\"fnptr\",\"op\":{}}}", self.operand(body, func, owner)),
            _ => format!("{{\"d\":null,\"ik\":\"other\",\"ty\":{}}}", js(&self.tys(fty))),
        }
    }

    fn body_json(&mut self, body: &Body<'tcx>, owner: DefId) -> String {
        let tcx = self.tcx;
        let mut s = String::new();
        s.push_str("\"nargs\":");
        let _ = write!(s, "{}", body.arg_count);
        s.push_str(",\"locals\":[");
        for (i, d) in body.local_decls.iter().enumerate() {
            if i > 0 {
                s.push(',');
            }
            s.push_str(&js(&self.tys(d.ty)));
        }
        s.push_str("],\"dbg\":[");
        let mut first = true;
        for v in body.var_debug_info.iter() {
            if let VarDebugInfoContents::Place(p) = &v.value {
                if !first {
                    s.push(',');
                }
                first = false;
                let _ = write!(
                    s,
                    "{{\"n\":{},\"p\":{},\"arg\":{}}}",
                    js(v.name.as_str()),
                    self.place(body, p),
                    v.argument_index.map(|a| a as i64).unwrap_or(-1)
                );
            }
        }
        s.push_str("],\"blocks\":[");
        for (bi, bb) in body.basic_blocks.iter().enumerate() {
            if bi > 0 {
                s.push(',');
            }
            s.push_str("{\"s\":[");
            let mut first = true;
            for st in bb.statements.iter() {
                let j = match &st.kind {
                    StatementKind::Assign(b) => {
                        let (p, rv) = &**b;
                        Some(format!(
                            "{{\"p\":{},\"rv\":{},{}}}",
                            self.place(body, p),
                            self.rvalue(body, rv, owner),
                            self.span_json(st.source_info.span)
                        ))
                    }
                    StatementKind::SetDiscriminant { place, variant_index } => {
                        let t = place.ty(&body.local_decls, tcx).ty;
                        let vn = match t.kind() {
                            ty::Adt(def, _) => def.variant(*variant_index).name.to_string(),
                            _ => format!("{}", variant_index.as_usize()),
                        };
                        Some(format!(
                            "{{\"p\":{},\"rv\":{{\"k\":\"setdiscr\",\"variant\":{}}},{}}}",
                            self.place(body, place),
                            js(&vn),
                            self.span_json(st.source_info.span)
                        ))
                    }
                    _ => None,
                };
                if let Some(j) = j {
                    if !first {
                        s.push(',');
                    }
                    first = false;
                    s.push_str(&j);
                }
            }
            s.push_str("],\"t\":");
            let term = bb.terminator();
            let sp = self.span_json(term.source_info.span);
            let cleanup = bb.is_cleanup;
            let t = match &term.kind {
                TerminatorKind::Goto { target } => format!("{{\"k\":\"goto\",\"to\":{}", target.as_usize()),
                TerminatorKind::SwitchInt { discr, targets } => {
                    let dty = discr.ty(&body.local_decls, tcx);
                    let mut t = format!(
                        "{{\"k\":\"switch\",\"o\":{},\"ty\":{},\"targets\":[",
                        self.operand(body, discr, owner),
                        js(&self.tys(dty))
                    );
                    for (i, (v, b)) in targets.iter().enumerate() {
                        if i > 0 {
                            t.push(',');
                        }
                        let _ = write!(t, "[{},{}]", js(&v.to_string()), b.as_usize());
                    }
                    let _ = write!(t, "],\"otherwise\":{}", targets.otherwise().as_usize());
                    t
                }
                TerminatorKind::UnwindResume => String::from("{\"k\":\"resume\""),
                TerminatorKind::UnwindTerminate(_) => String::from("{\"k\":\"abort\""),
                TerminatorKind::Return => String::from("{\"k\":\"return\""),
                TerminatorKind::Unreachable => String::from("{\"k\":\"unreachable\""),
                TerminatorKind::Drop { place, target, unwind, .. } => {
                    let uw = match unwind {
                        UnwindAction::Cleanup(b) => b.as_usize() as i64,
                        _ => -1,
                    };
                    format!(
                        "{{\"k\":\"drop\",\"p\":{},\"to\":{},\"uw\":{}",
                        self.place(body, place),
                        target.as_usize(),
                        uw
                    )
                }
                TerminatorKind::Call { func, args, destination, target, unwind, fn_span, .. } => {
                    let uw = match unwind {
                        UnwindAction::Cleanup(b) => b.as_usize() as i64,
                        _ => -1,
                    };
                    let mut t = format!("{{\"k\":\"call\",\"fn\":{},\"args\":[", self.callee(body, func, owner));
                    for (i, a) in args.iter().enumerate() {
                        if i > 0 {
                            t.push(',');
                        }
                        t.push_str(&self.operand(body, &a.node, owner));
                    }
                    let (_, fl, _, _) = self.loc(*fn_span);
                    let _ = write!(
                        t,
                        "],\"dest\":{},\"to\":{},\"uw\":{},\"fline\":{}",
                        self.place(body, destination),
                        target.map(|b| b.as_usize() as i64).unwrap_or(-1),
                        uw,
                        fl
                    );
                    t
                }
                TerminatorKind::TailCall { func, args, .. } => {
                    let mut t = format!("{{\"k\":\"tailcall\",\"fn\":{},\"args\":[", self.callee(body, func, owner));
                    for (i, a) in args.iter().enumerate() {
                        if i > 0 {
                            t.push(',');
                        }
                        t.push_str(&self.operand(body, &a.node, owner));
                    }
                    t.push(']');
                    t
                }
                TerminatorKind::Assert { cond, expected, msg, target, unwind } => {
                    let uw = match unwind {
                        UnwindAction::Cleanup(b) => b.as_usize() as i64,
                        _ => -1,
                    };
                    let (kind, ops): (String, Vec<&Operand<'tcx>>) = match &**msg {
                        AssertKind::BoundsCheck { len, index } => ("BoundsCheck".into(), vec![len, index]),
                        AssertKind::Overflow(op, a, b) => (format!("Overflow({:?})", op), vec![a, b]),
                        AssertKind::OverflowNeg(a) => ("OverflowNeg".into(), vec![a]),
                        AssertKind::DivisionByZero(a) => ("DivisionByZero".into(), vec![a]),
                        AssertKind::RemainderByZero(a) => ("RemainderByZero".into(), vec![a]),
                        AssertKind::MisalignedPointerDereference { .. } => ("Misaligned".into(), vec![]),
                        AssertKind::NullPointerDereference => ("NullPtr".into(), vec![]),
                        AssertKind::InvalidEnumConstruction(_) => ("InvalidEnum".into(), vec![]),
                        _ => ("Other".into(), vec![]),
                    };
                    let mut t = format!(
                        "{{\"k\":\"assert\",\"kind\":{},\"cond\":{},\"expected\":{},\"ops\":[",
                        js(&kind),
                        self.operand(body, cond, owner),
                        expected
                    );
                    for (i, o) in ops.iter().enumerate() {
                        if i > 0 {
                            t.push(',');
                        }
                        t.push_str(&self.operand(body, o, owner));
                    }
                    let _ = write!(t, "],\"to\":{},\"uw\":{}", target.as_usize(), uw);
                    t
                }
                TerminatorKind::FalseEdge { real_target, .. } => {
                    format!("{{\"k\":\"goto\",\"to\":{}", real_target.as_usize())
                }
                TerminatorKind::FalseUnwind { real_target, .. } => {
                    format!("{{\"k\":\"goto\",\"to\":{}", real_target.as_usize())
                }
                _ => String::from("{\"k\":\"other\""),
            };
            s.push_str(&t);
            if cleanup {
                s.push_str(",\"cleanup\":true");
            }
            s.push(',');
            s.push_str(&sp);
            s.push_str("}}");
        }
        s.push(']');
        s
    }
}

struct Extract {
    out: String,
}

impl Callbacks for Extract {
    fn after_analysis<'tcx>(&mut self, _c: &rustc_interface::interface::Compiler, tcx: TyCtxt<'tcx>) -> Compilation {
        let krate = tcx.crate_name(rustc_hir::def_id::LOCAL_CRATE).to_string();
        let mut cx = Cx { tcx, foreign_adts: BTreeMap::new(), krate: krate.clone(), calls: Default::default() };
        let mut out = String::new();
        let mut callrecs = String::new();
        let mut nbodies = 0usize;
        let mut nadts = 0usize;

        // ---- ADTs, impls
        for ldid in tcx.hir_crate_items(()).definitions() {
            let did = ldid.to_def_id();
            match tcx.def_kind(did) {
                DefKind::Struct | DefKind::Enum | DefKind::Union => {
                    out.push_str(&adt_json(&mut cx, did, true));
                    out.push('\n');
                    nadts += 1;
                }
                DefKind::Impl { of_trait } => {
                    let selfty = tcx.type_of(did).instantiate_identity().skip_norm_wip();
                    let mut s = format!("{{\"kind\":\"impl\",\"self\":{}", js(&cx.tys(selfty)));
                    if let ty::Adt(def, _) = selfty.kind() {
                        let _ = write!(s, ",\"self_adt\":{}", js(&cx.path(def.did())));
                    }
                    if of_trait {
                        let tr = tcx.impl_trait_ref(did).instantiate_identity().skip_norm_wip();
                        let _ = write!(s, ",\"trait\":{}", js(&cx.path(tr.def_id)));
                    }
                    let derived = tcx.is_automatically_derived(did);
                    let _ = write!(s, ",\"derived\":{},{}}}", derived, cx.span_json(tcx.def_span(did)));
                    out.push_str(&s);
                    out.push('\n');
                }
                _ => {}
            }
        }

        // ---- bodies
        let owners: Vec<LocalDefId> = tcx.hir_body_owners().collect();
        for ldid in owners {
            let did = ldid.to_def_id();
            let dk = tcx.def_kind(did);
            let (body, bkind): (&Body<'tcx>, &str) = match dk {
                DefKind::Fn | DefKind::AssocFn => (tcx.optimized_mir(did), "fn"),
                DefKind::Closure => (tcx.optimized_mir(did), "closure"),
                DefKind::Const { .. } | DefKind::AssocConst { .. } | DefKind::Static { .. } | DefKind::InlineConst | DefKind::AnonConst => {
                    (tcx.mir_for_ctfe(did), "const")
                }
                _ => continue,
            };
            let (file, lo, hi, _m) = cx.loc(tcx.def_span(did));
            let (_f2, _lo2, hi2, _m2) = cx.loc(body.span);
            let mut s = format!(
                "{{\"kind\":\"body\",\"path\":{},\"name\":{},\"bkind\":\"{}\",\"file\":{},\"line\":{},\"end\":{}",
                js(&cx.path(did)),
                js(&tcx.opt_item_name(did).map(|n| n.to_string()).unwrap_or_default()),
                bkind,
                js(&file),
                lo,
                hi.max(hi2)
            );
            if matches!(dk, DefKind::Fn | DefKind::AssocFn) {
                let vis = tcx.visibility(did);
                let v = if vis.is_public() { "pub".to_string() } else { format!("{:?}", vis) };
                let _ = write!(s, ",\"vis\":{}", js(&v));
                let sig = tcx.fn_sig(did).instantiate_identity().skip_norm_wip().skip_binder();
                let ins: Vec<String> = sig.inputs().iter().map(|t| js(&cx.tys(*t))).collect();
                let _ = write!(s, ",\"inputs\":[{}],\"output\":{}", ins.join(","), js(&cx.tys(sig.output())));
            }
            if let Some(parent) = tcx.opt_parent(did) {
                match tcx.def_kind(parent) {
                    DefKind::Impl { of_trait } => {
                        let selfty = tcx.type_of(parent).instantiate_identity().skip_norm_wip();
                        let _ = write!(s, ",\"impl_self\":{}", js(&cx.tys(selfty)));
                        if let ty::Adt(def, _) = selfty.kind() {
                            let _ = write!(s, ",\"impl_adt\":{}", js(&cx.path(def.did())));
                        }
                        if of_trait {
                            let tr = tcx.impl_trait_ref(parent).instantiate_identity().skip_norm_wip();
                            let _ = write!(s, ",\"impl_trait\":{}", js(&cx.path(tr.def_id)));
                        }
                    }
                    _ => {
                        let _ = write!(s, ",\"parent\":{}", js(&cx.path(parent)));
                    }
                }
            }
            // enclosing fn for closures
            if dk == DefKind::Closure {
                let root = tcx.typeck_root_def_id(did);
                let _ = write!(s, ",\"root\":{}", js(&cx.path(root)));
            }
            s.push(',');
            cx.calls.clear();
            s.push_str(&cx.body_json(body, did));
            s.push('}');
            out.push_str(&s);
            out.push('\n');
            nbodies += 1;
            {
                let cs: Vec<String> = cx.calls.iter().map(|c| js(c)).collect();
                let _ = writeln!(callrecs, "{{\"kind\":\"calls\",\"path\":{},\"calls\":[{}]}}", js(&cx.path(did)), cs.join(","));
            }
            // promoted constants of fn/closure bodies
            if bkind != "const" {
                let proms = tcx.promoted_mir(did);
                for (pi, pb) in proms.iter_enumerated() {
                    let mut s = format!(
                        "{{\"kind\":\"body\",\"path\":{},\"name\":\"\",\"bkind\":\"promoted\",\"file\":{},\"line\":{},\"end\":{},",
                        js(&format!("{}::{{promoted#{}}}", cx.path(did), pi.as_usize())),
                        js(&file),
                        lo,
                        hi
                    );
                    s.push_str(&cx.body_json(pb, did));
                    s.push('}');
                    out.push_str(&s);
                    out.push('\n');
                }
            }
        }
        // ---- foreign ADTs whose discriminants were read
        let fa: Vec<DefId> = cx.foreign_adts.values().cloned().collect();
        for did in fa {
            out.push_str(&adt_json(&mut cx, did, false));
            out.push('\n');
        }
        let _ = writeln!(
            out,
            "{{\"kind\":\"summary\",\"crate\":{},\"bodies\":{},\"adts\":{}}}",
            js(&krate),
            nbodies,
            nadts
        );
        out.push_str(&callrecs);
        let path = format!("{}/{}.jsonl", self.out, krate);
        std::fs::write(&path, out).expect("icfacts: cannot write fact file");
        Compilation::Continue
    }
}

fn adt_json<'tcx>(cx: &mut Cx<'tcx>, did: DefId, local: bool) -> String {
    let tcx = cx.tcx;
    let def = tcx.adt_def(did);
    let kind = if def.is_enum() {
        "enum"
    } else if def.is_union() {
        "union"
    } else {
        "struct"
    };
    let mut s = format!(
        "{{\"kind\":\"adt\",\"path\":{},\"adt_kind\":\"{}\",\"local\":{}",
        js(&cx.path(did)),
        kind,
        local
    );
    if local {
        s.push(',');
        s.push_str(&cx.span_json(tcx.def_span(did)));
        let vis = tcx.visibility(did);
        let _ = write!(s, ",\"vis\":{}", js(&if vis.is_public() { "pub".to_string() } else { format!("{:?}", vis) }));
    }
    s.push_str(",\"variants\":[");
    for (i, (vidx, v)) in def.variants().iter_enumerated().enumerate() {
        if i > 0 {
            s.push(',');
        }
        let discr = if def.is_enum() {
            def.discriminant_for_variant(tcx, vidx).val.to_string()
        } else {
            "0".to_string()
        };
        let _ = write!(s, "{{\"name\":{},\"discr\":{},\"fields\":[", js(v.name.as_str()), js(&discr));
        for (j, f) in v.fields.iter().enumerate() {
            if j > 0 {
                s.push(',');
            }
            let fty = tcx.type_of(f.did).instantiate_identity().skip_norm_wip();
            let fv = if f.vis.is_public() { "pub".to_string() } else { "priv".to_string() };
            let _ = write!(s, "{{\"name\":{},\"ty\":{},\"vis\":\"{}\"", js(f.name.as_str()), js(&cx.tys(fty)), fv);
            // ADTs mentioned in the field type (for closure computations)
            let mut adts: Vec<String> = Vec::new();
            for t in fty.walk() {
                if let Some(t) = t.as_type() {
                    if let ty::Adt(d, _) = t.kind() {
                        adts.push(js(&cx.path(d.did())));
                    }
                }
            }
            let _ = write!(s, ",\"adts\":[{}]", adts.join(","));
            if local {
                let mut at: Vec<String> = Vec::new();
                #[allow(deprecated)]
                for a in tcx.get_all_attrs(f.did) {
                    if let rustc_hir::Attribute::Unparsed(item) = a {
                        if let Ok(snip) = tcx.sess.source_map().span_to_snippet(item.span) {
                            at.push(js(&snip));
                        }
                    }
                }
                let _ = write!(s, ",\"attrs\":[{}]", at.join(","));
            }
            s.push('}');
        }
        s.push_str("]}");
    }
    s.push_str("]}");
    s
}

struct Plain;
impl Callbacks for Plain {}

fn main() {
    let mut args: Vec<String> = std::env::args().collect();
    // RUSTC_WORKSPACE_WRAPPER: argv[1] is the path to the real rustc
    if args.len() > 1 && (args[1].ends_with("rustc") || args[1].contains("/rustc")) {
        args.remove(1);
    }
    let mut crate_name = String::new();
    for i in 0..args.len() {
        if args[i] == "--crate-name" && i + 1 < args.len() {
            crate_name = args[i + 1].clone();
        }
    }
    let wanted = std::env::var("ICFACTS_CRATES").unwrap_or_else(|_| "ironcalc_base,ironcalc".into());
    let out = std::env::var("ICFACTS_OUT").unwrap_or_default();
    let is_target = !out.is_empty()
        && wanted.split(',').any(|w| w == crate_name)
        && !args.iter().any(|a| a == "--test")
        && std::env::var("CARGO_PRIMARY_PACKAGE").is_ok();
    if is_target {
        let mut cb = Extract { out };
        rustc_driver::run_compiler(&args, &mut cb);
    } else {
        let mut cb = Plain;
        rustc_driver::run_compiler(&args, &mut cb);
    }
}
