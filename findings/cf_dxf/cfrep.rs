// Demonstration for the EFFECT-PARITY findings (C03): the conditional-formatting diffs carry a `dxf_id`, an index into the
// primary's `styles.dxfs`; the operation creates the dxf there, the replay arm only inserts the rule.
use ironcalc_base::{cf_types::{CfRuleInput, ValueOperator}, types::{Color, Dxf, Fill}, UserModel};
fn rule(color: &str) -> CfRuleInput {
    let fmt = Dxf { fill: Some(Fill { color: Color::from_rgb(color).unwrap() }), ..Default::default() };
    CfRuleInput::CellIs { operator: ValueOperator::GreaterThan, formula: "1".to_string(), formula2: None, format: fmt, stop_if_true: false }
}
fn main() {
    let a0 = UserModel::new_empty("m", "en", "UTC", "en").unwrap();
    let bytes = a0.to_bytes();
    let mut a = UserModel::from_bytes(&bytes, "en").unwrap();
    let mut b = UserModel::from_bytes(&bytes, "en").unwrap();
    a.set_user_input(0, 1, 1, "5").unwrap();
    a.add_conditional_formatting(0, "A1:A10", rule("#FF0000")).unwrap();
    let q = a.flush_send_queue();
    println!("add: apply_external_diffs -> {:?}", b.apply_external_diffs(&q));
    println!("add: primary dxf {:?}", a.get_dxf_for_conditional_formatting(0, 0));
    println!("add: replica dxf {:?}", b.get_dxf_for_conditional_formatting(0, 0));
    a.update_conditional_formatting(0, 0, "A1:A10", rule("#00FF00")).unwrap();
    let q = a.flush_send_queue();
    println!("update: apply_external_diffs -> {:?}", b.apply_external_diffs(&q));
    println!("update: primary dxf {:?}", a.get_dxf_for_conditional_formatting(0, 0));
    println!("update: replica dxf {:?}", b.get_dxf_for_conditional_formatting(0, 0));
}
