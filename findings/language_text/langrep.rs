// Demonstration for the CANON-RECORD findings (C02, C03): Diff::SetCellValue / SetArrayValue carry text in the display
// language of the model that recorded them; the display language is per-user view state, so a replica (C03) or the
// same model after set_language (C02) replays the text under another language and gets another cell.
use ironcalc_base::{expressions::types::Area, types::Link, UserModel};
type Op = fn(&mut UserModel) -> (i32, i32);
fn base() -> Vec<u8> {
    let mut a = UserModel::new_empty("m", "en", "UTC", "en").unwrap();
    a.set_user_input(0, 1, 1, "1").unwrap();
    a.set_user_input(0, 2, 1, "2").unwrap();
    a.to_bytes()
}
fn cell(m: &UserModel, rc: (i32, i32)) -> String {
    format!("{}|{:?}", m.get_formatted_cell_value(0, rc.0, rc.1).unwrap(), m.get_cell_type(0, rc.0, rc.1).unwrap())
}
fn run(tag: &str, op: Op) {
    let bytes = base();
    // C03: primary shows Spanish, replica shows English
    let mut a = UserModel::from_bytes(&bytes, "es").unwrap();
    let mut b = UserModel::from_bytes(&bytes, "en").unwrap();
    let rc = op(&mut a);
    let q = a.flush_send_queue();
    b.apply_external_diffs(&q).unwrap();
    let (pa, pb) = (cell(&a, rc), cell(&b, rc));
    // C02: one model; do, undo, switch display language, redo
    let mut c = UserModel::from_bytes(&bytes, "es").unwrap();
    let rc = op(&mut c);
    let before = cell(&c, rc);
    c.undo().unwrap();
    c.set_language("en").unwrap();
    c.redo().unwrap();
    let after = cell(&c, rc);
    println!("{tag:28} C03 primary {pa:22} replica {pb:22} {} | C02 before-undo {before:22} after-redo {after:22} {}",
        if pa == pb { "same" } else { "DIVERGED" }, if before == after { "same" } else { "DIFFERENT" });
}
fn main() {
    run("set_user_input", |m| { m.set_user_input(0, 1, 3, "=SUMA(A1,A2)").unwrap(); (1, 3) });
    run("set_user_array_formula", |m| { m.set_user_array_formula(0, 1, 3, 1, 1, "=SUMA(A1:A2)").unwrap(); (1, 3) });
    run("set_cell_link(label)", |m| {
        m.set_cell_link(0, 1, 3, Link::External { target: "https://example.com".to_string(), tooltip: None }, Some("VERDADERO")).unwrap(); (1, 3) });
    run("auto_fill_rows", |m| {
        m.set_user_input(0, 1, 2, "=SUMA(A1,10)").unwrap();
        m.auto_fill_rows(&Area { sheet: 0, row: 1, column: 2, width: 1, height: 1 }, 2).unwrap(); (2, 2) });
    run("auto_fill_columns", |m| {
        m.set_user_input(0, 1, 2, "=SUMA(A1,10)").unwrap();
        m.auto_fill_columns(&Area { sheet: 0, row: 1, column: 2, width: 1, height: 1 }, 3).unwrap(); (1, 3) });
    run("paste_csv_string", |m| {
        m.set_selected_cell(5, 1).unwrap();
        m.paste_csv_string(&Area { sheet: 0, row: 5, column: 1, width: 1, height: 1 }, "=SUMA(A1,A2)").unwrap(); (5, 1) });
    fn paste(m: &mut UserModel, cut: bool) {
        m.set_user_input(0, 1, 2, "=SUMA(A1,10)").unwrap();
        m.set_user_input(0, 1, 3, "=SUMA(B1,100)").unwrap();
        m.set_selected_cell(1, 2).unwrap();
        let cb = m.copy_to_clipboard().unwrap();
        let data: serde_json::Value = serde_json::to_value(&cb).unwrap();
        let cd = serde_json::from_value(data["data"].clone()).unwrap();
        m.set_selected_cell(4, 4).unwrap();
        m.paste_from_clipboard(0, (1, 2, 1, 2), &cd, cut).unwrap();
    }
    run("paste_from_clipboard copy", |m| { paste(m, false); (4, 4) });
    run("paste_from_clipboard cut", |m| { paste(m, true); (4, 4) });
    run("paste cut: dependent cell", |m| { paste(m, true); (1, 3) });
}
