"""Zone (difference-bound) abstract interpretation over the dumped MIR of one body.

Abstract state: a set of constraints  x - y <= c  over integer-valued *terms* of the body:
  `_n`            an integer local
  `m:<place>`     an integer read through a place made of derefs and fields only (`(*_1).position`, `_16.0`)
  `len:<place>`   the length of the slice / Vec / String / str stored at <place>
  `0`             the constant zero
Every term is killed ("havoc") by anything that may change it:
  * assignment to its base local, or to an overlapping place with the same base;
  * a write (in this body or in anything a callee reaches, by the type-based effect summaries of effects.Program)
    to the (ADT, field) pair its place ends in -- alias-safe because it is keyed by type, not by access path;
  * a call that receives a `&mut` borrow overlapping the place;
  * `&mut` borrows that are stored rather than passed straight to a call make the borrowed root untracked for the body.
Guards refine the state on the edges of bool switches (comparison computed in the same block), integer switches,
and the success edges of MIR asserts.  Loop heads are widened after two rounds.

Arithmetic is over mathematical integers: `x + c` is assumed not to wrap.  In debug builds that is enforced by the
overflow asserts; in release builds an unsigned add wraps only past usize::MAX, which indices bounded by an allocation
length cannot reach.  Subtraction on unsigned types is *not* assumed safe: it is one of the checked site classes.
"""
from mir import const_int, op_place, place_proj

ZERO = "0"
UNSIGNED = ("usize", "u8", "u16", "u32", "u64", "u128")
SIGNED = ("isize", "i8", "i16", "i32", "i64", "i128")
WIDTH = {"u8": 8, "u16": 16, "u32": 32, "u64": 64, "usize": 64, "u128": 128, "i8": 8, "i16": 16, "i32": 32, "i64": 64, "isize": 64, "i128": 128}


class Zone:
    __slots__ = ("row", "col", "bottom")

    def __init__(self):
        self.row = {}
        self.col = {}
        self.bottom = False

    def copy(self):
        z = Zone()
        z.row = {x: dict(r) for x, r in self.row.items()}
        z.col = {y: dict(c) for y, c in self.col.items()}
        z.bottom = self.bottom
        return z

    def get(self, x, y):
        if x == y:
            return 0
        return self.row.get(x, {}).get(y)

    def _set(self, x, y, c):
        self.row.setdefault(x, {})[y] = c
        self.col.setdefault(y, {})[x] = c

    def add(self, x, y, c):
        """x - y <= c, with incremental closure."""
        if self.bottom:
            return
        if x == y:
            if c < 0:
                self.bottom = True
            return
        old = self.row.get(x, {}).get(y)
        if old is not None and old <= c:
            return
        back = self.row.get(y, {}).get(x)
        if back is not None and back + c < 0:
            self.bottom = True
            return
        xs = list(self.col.get(x, {}).items()) + [(x, 0)]
        ys = list(self.row.get(y, {}).items()) + [(y, 0)]
        for i, a in xs:
            for j, b in ys:
                n = a + c + b
                if i == j:
                    if n < 0:
                        self.bottom = True
                        return
                    continue
                o = self.row.get(i, {}).get(j)
                if o is None or n < o:
                    self._set(i, j, n)

    def forget(self, x):
        r = self.row.pop(x, None)
        if r:
            for y in r:
                c = self.col.get(y)
                if c is not None:
                    c.pop(x, None)
        c = self.col.pop(x, None)
        if c:
            for y in c:
                r = self.row.get(y)
                if r is not None:
                    r.pop(x, None)

    def relax_upper(self, x):
        """x may have grown: drop every upper bound on x, keep its lower bounds"""
        r = self.row.pop(x, None)
        if r:
            for y in r:
                c = self.col.get(y)
                if c is not None:
                    c.pop(x, None)

    def assign(self, x, y, c):
        """x := y + c"""
        if self.bottom:
            return
        if x == y:
            if c == 0:
                return
            r = self.row.get(x, {})
            for j in list(r):
                self._set(x, j, r[j] + c)
            cc = self.col.get(x, {})
            for i in list(cc):
                self._set(i, x, cc[i] - c)
            return
        self.forget(x)
        self.add(x, y, c)
        self.add(y, x, -c)

    def vars(self):
        return set(self.row) | set(self.col)

    def entails(self, x, y, c):
        if self.bottom:
            return True
        v = self.get(x, y)
        return v is not None and v <= c

    def leq(self, other):
        """self is at least as strong as other (every constraint of other holds in self)."""
        if self.bottom:
            return True
        if other.bottom:
            return False
        for x, r in other.row.items():
            mine = self.row.get(x, {})
            for y, c in r.items():
                v = mine.get(y)
                if v is None or v > c:
                    return False
        return True

    def close(self):
        vs = list(self.vars())
        for k in vs:
            rk = self.row.get(k, {})
            ck = self.col.get(k, {})
            if not rk or not ck:
                continue
            for i, a in list(ck.items()):
                for j, b in list(rk.items()):
                    n = a + b
                    if i == j:
                        if n < 0:
                            self.bottom = True
                            return
                        continue
                    o = self.row.get(i, {}).get(j)
                    if o is None or n < o:
                        self._set(i, j, n)


def join(a, b):
    if a.bottom:
        return b.copy()
    if b.bottom:
        return a.copy()
    z = Zone()
    for x, r in a.row.items():
        br = b.row.get(x)
        if not br:
            continue
        for y, c in r.items():
            d = br.get(y)
            if d is not None:
                z._set(x, y, max(c, d))
    return z


def widen(old, new):
    if old.bottom:
        return new.copy()
    if new.bottom:
        return old.copy()
    z = Zone()
    for x, r in old.row.items():
        nr = new.row.get(x)
        if not nr:
            continue
        for y, c in r.items():
            d = nr.get(y)
            if d is not None and d <= c:
                z._set(x, y, c)
    return z


# std methods that take `&mut self` of a Vec / slice / String but never change its length
NON_RESIZING = ("index_mut", "get_mut", "iter_mut", "as_mut_slice", "as_mut", "last_mut", "first_mut", "sort", "sort_by",
                "sort_by_key", "sort_unstable", "sort_unstable_by", "reverse", "swap", "fill", "deref_mut", "get_unchecked_mut")
LEN_FNS = ("len",)
# documented value ranges of chrono accessors (chrono::Datelike / Timelike / Weekday)
FOREIGN_RANGES = {"month": (1, 12), "month0": (0, 11), "day": (1, 31), "day0": (0, 30), "ordinal": (1, 366), "hour": (0, 23),
                  "minute": (0, 59), "second": (0, 59), "number_from_monday": (1, 7), "number_from_sunday": (1, 7),
                  "num_days_from_monday": (0, 6), "num_days_from_sunday": (0, 6)}
DEREF_FNS = ("deref", "as_str", "as_slice", "as_ref", "borrow", "deref_mut", "as_bytes", "as_mut_slice", "as_mut_str", "as_mut")


class Analysis:
    """Runs the fixpoint for one body; afterwards `state_at_term[bi]` is the state just before block bi's terminator."""

    def __init__(self, body, program, facts, len_alias=None, max_rounds=60, engine=None, invariants=None, assume=None, entry_rel=None):
        self.entry_rel = entry_rel or []      # [(arg local | None, arg local | None, c)]: x - y <= c at entry (None = 0); from a caller's state
        self.assume = assume or {}      # argument local (or "upvar:<name>" of a closure) -> constant value assumed at entry (bounded instantiation)
        self.is_closure = bool(facts is not None and facts.heads.get(body.path, {}).get("bkind") == "closure")
        self.param_views = {}
        self.stepby_bounds = {}
        self.engine = engine
        self.inv = invariants or {}
        self.b = body
        self.P = program
        self.F = facts
        self.len_alias = len_alias or {}     # (adt, field) -> (adt, sibling field) : field always equals len(sibling)
        self.info = {}      # term name -> {"base": local, "s": raw place string, "pairs": set, "unsigned": bool}
        self.by_base = {}
        self.by_pair = {}
        self.untracked = set()   # base locals with stored &mut borrows
        self.math_terms = set()       # results of checked unsigned subtraction: mathematical, possibly negative
        self.closure_effects = set()   # effects of closures that captured `&mut` of a local-ADT struct
        self.mutborrow = {}      # temp local -> resolved place
        self.own_effects = program.effects(body.path) if program is not None else {}
        self._ndefs = {l: len(d) for l, d in body.defs().items()}
        self.param_views = self._param_byte_views()
        self._prepass()
        self.state_in = {}
        self.state_at_term = {}
        self.rounds = 0
        self._run(max_rounds)

    # ------------------------------------------------------------------ naming
    def _raw_str(self, p):
        s = "_%d" % p["l"]
        for e in place_proj(p):
            if e[0] == "*":
                s = "(*%s)" % s
            elif e[0] == "f":
                s += "." + (e[2] if e[2] is not None else str(e[1]))
            elif e[0] == "dc":
                s += "@%s" % e[1]
            else:
                return None
        return s

    def _stable_base(self, l):
        return (1 <= l <= self.b.nargs and self._ndefs.get(l, 0) == 0) or self._ndefs.get(l, 0) == 1

    def _resolve(self, p):
        """Rebase a place on the root of single-definition reference temps when that root cannot be reassigned."""
        b = self.b
        if not place_proj(p):
            return p
        l = p["l"]
        if 1 <= l <= b.nargs or b.local_name(l):
            return p
        rp = b.resolve_place(p)
        if rp is p or rp["l"] == l:
            return p
        # every local on the chain is a single-def temp by construction of resolve_place; the root must be stable too
        if self._stable_base(rp["l"]):
            return rp
        return p

    def _field_ty(self, pair):
        a = self.F.adts.get(pair[0]) if self.F is not None else None
        if not a:
            return None
        for v in a.get("variants", []):
            for f in v.get("fields", []):
                if f.get("name") == pair[1]:
                    return f.get("ty")
        return None

    def _register(self, name, base, s, pairs, unsigned, place=None):
        if name in self.info and unsigned and not self.info[name]["unsigned"] and name not in self.math_terms:
            self.info[name]["unsigned"] = True
        if name not in self.info:
            self.info[name] = {"base": base, "s": s, "pairs": pairs, "unsigned": unsigned, "place": place}
            self.by_base.setdefault(base, set()).add(name)
            for pr in pairs:
                self.by_pair.setdefault(pr, set()).add(name)
        return name

    def _last_pair(self, p):
        proj = place_proj(p)
        seen_deref = False
        last = None
        for e in proj:
            if e[0] == "*":
                seen_deref = True
            elif e[0] == "f" and e[3] and e[3] != "tuple" and not str(e[3]).startswith("closure:"):
                last = (e[3], e[2] if e[2] is not None else str(e[1]))
        return last if seen_deref or last is not None else None

    def _place_ty_unsigned(self, p):
        proj = place_proj(p)
        if not proj:
            return self.b.locals[p["l"]] in UNSIGNED
        e = proj[-1]
        if e[0] == "f" and len(e) > 5:
            return e[5] in UNSIGNED
        return False

    def term_of_place(self, p, ty=None):
        if p["l"] in self.untracked:
            return None
        proj = place_proj(p)
        if not proj:
            l = p["l"]
            return self._register("_%d" % l, l, "_%d" % l, set(), self.b.locals[l] in UNSIGNED)
        rp = self._resolve(p)
        if rp["l"] in self.untracked:
            return None
        s = self._raw_str(rp)
        if s is None:
            return None
        pair = self._last_pair(rp)
        has_deref = any(e[0] == "*" for e in place_proj(rp))
        if has_deref and pair is None:
            # `*x` for x: &usize is frozen while borrowed; through `&mut` / raw pointers it is not tracked
            if not _is_shared_ref(self.b.locals[rp["l"]]) and not (rp["l"] == 1 and self.is_closure):
                # (the environment of a closure is reachable only through its own `_1` while its body runs)
                return None
        pairs = {pair} if pair else set()
        unsigned = (ty in UNSIGNED) if ty else False
        if pair is not None and not unsigned:
            unsigned = self._field_ty(pair) in UNSIGNED
        if pair in self.len_alias and pair not in self.own_effects and self.len_alias[pair] not in self.own_effects:
            sib = self.len_alias[pair]
            s2 = s[: -len(pair[1])] + sib[1]
            pl2 = {"l": rp["l"], "p": list(place_proj(rp))[:-1] + [["f", -1, sib[1], sib[0], None]]}
            return self._register("len:" + s2, rp["l"], s2, {pair, sib}, True, pl2)
        return self._register("m:" + s, rp["l"], s, pairs, unsigned, rp)

    def container_of(self, o):
        """Place of the slice/Vec/String/str whose reference is the operand o."""
        b = self.b
        cur = o
        for _ in range(8):
            p = op_place(cur)
            if p is None:
                return None
            if place_proj(p):
                # operand is itself a place holding a reference (`(*self).text` of type &str): the container is its deref
                return {"l": p["l"], "p": list(place_proj(p)) + [["*"]]}
            l = p["l"]
            if 1 <= l <= b.nargs and l in self.param_views:
                # a `&[u8]` parameter that every caller fills with `<the &str parameter>.as_bytes()`: a view of that parameter
                cur = {"c": {"l": self.param_views[l]}}
                continue
            named = (1 <= l <= b.nargs) or b.local_name(l)
            if named and not (1 <= l <= b.nargs) and self._ndefs.get(l, 0) == 1:
                # `let bytes = s.as_bytes();`: a view of s with the same length, alive only while s is borrowed
                rv0 = b.def_rvalue(l)
                if rv0 is not None and rv0["k"] == "call" and (b.callee_q(rv0["t"]) or "").rsplit("::", 1)[-1] in DEREF_FNS and rv0["t"]["args"]:
                    cur = rv0["t"]["args"][0]
                    continue
            if not named and self._ndefs.get(l, 0) == 1:
                rv = b.def_rvalue(l)
                if rv is not None:
                    if rv["k"] in ("ref", "rawptr"):
                        pp = rv["p"]
                        pj = place_proj(pp)
                        # `&(*t)` with t = <Vec as Deref>::deref(&v) / as_str(..): the container is v
                        if len(pj) == 1 and pj[0][0] == "*" and self._ndefs.get(pp["l"], 0) == 1 and not b.local_name(pp["l"]) and not (1 <= pp["l"] <= b.nargs):
                            r2 = b.def_rvalue(pp["l"])
                            if r2 is not None and r2["k"] == "call":
                                q2 = (b.callee_q(r2["t"]) or "").rsplit("::", 1)[-1]
                                if q2 in DEREF_FNS and r2["t"]["args"]:
                                    cur = r2["t"]["args"][0]
                                    continue
                        if len(pj) == 1 and pj[0][0] == "*" and pp["l"] in self.param_views:
                            return {"l": self.param_views[pp["l"]], "p": [["*"]]}      # `&*bytes` of a byte-view parameter
                        return pp
                    if rv["k"] in ("use", "cast"):
                        cur = rv["o"]
                        continue
                    if rv["k"] == "call":
                        q = (b.callee_q(rv["t"]) or "").rsplit("::", 1)[-1]
                        if q in DEREF_FNS and rv["t"]["args"]:
                            cur = rv["t"]["args"][0]
                            continue
                        return None
            ty = b.locals[l]
            if ty.startswith("&") or ty.startswith("*"):
                return {"l": l, "p": [["*"]]}
            return {"l": l}
        return None

    def len_term(self, o):
        c = self.container_of(o)
        if c is None:
            return None
        return self.len_term_of_place(c)

    def len_term_of_place(self, c, depth=0):
        # a `Vec` reached through auto-deref: (*(&v)) etc. are already folded by _resolve
        rp = self._resolve(c)
        pj = place_proj(rp)
        # `*bytes` where `let bytes = s.as_bytes()` / `&*v`: same length as the viewed container
        if depth < 4 and len(pj) == 1 and pj[0][0] == "*" and not (1 <= rp["l"] <= self.b.nargs) and self._ndefs.get(rp["l"], 0) == 1:
            rv0 = self.b.def_rvalue(rp["l"])
            if rv0 is not None and rv0["k"] == "call" and (self.b.callee_q(rv0["t"]) or "").rsplit("::", 1)[-1] in DEREF_FNS and rv0["t"]["args"]:
                c2 = self.container_of(rv0["t"]["args"][0])
                if c2 is not None:
                    return self.len_term_of_place(c2, depth + 1)
        # strip a trailing deref of a by-value String/Vec deref chain: `*(&v)` == v
        if rp["l"] in self.untracked:
            return None
        s = self._raw_str(rp)
        if s is None:
            return None
        pair = self._last_pair(rp)
        return self._register("len:" + s, rp["l"], s, {pair} if pair else set(), True, rp)

    # ------------------------------------------------------------------ pre-pass: &mut borrows
    def _prepass(self):
        b = self.b
        borrow = {}
        for bi, blk in enumerate(b.blocks):
            if blk["t"].get("cleanup"):
                continue
            for s in blk["s"]:
                rv = s["rv"]
                if rv["k"] in ("ref", "rawptr") and rv.get("mut") and not place_proj(s["p"]):
                    borrow[s["p"]["l"]] = rv["p"]
        # resolve reborrow chains
        changed = True
        res = {}
        for t, p in borrow.items():
            res[t] = p
        for _ in range(6):
            for t, p in list(res.items()):
                proj = place_proj(p)
                if proj and proj[0][0] == "*" and p["l"] in res and p["l"] != t:
                    inner = res[p["l"]]
                    res[t] = {"l": inner["l"], "p": list(place_proj(inner)) + list(proj[1:])}
        # uses of borrow temps: call args are fine, reborrows are fine, copies propagate; anything else escapes
        alias = dict(res)
        escaped = set()
        for _ in range(4):
            for bi, blk in enumerate(b.blocks):
                if blk["t"].get("cleanup"):
                    continue
                for s in blk["s"]:
                    rv = s["rv"]
                    ops = []
                    if rv["k"] in ("use", "cast"):
                        q = op_place(rv["o"])
                        if q is not None and not place_proj(q) and q["l"] in alias:
                            if not place_proj(s["p"]) and not b.local_name(s["p"]["l"]):
                                alias.setdefault(s["p"]["l"], alias[q["l"]])
                            else:
                                escaped.add(q["l"])
                    elif rv["k"] == "agg":
                        for o in rv["ops"]:
                            q = op_place(o)
                            if q is not None and not place_proj(q) and q["l"] in alias:
                                tgt = alias[q["l"]]
                                if rv.get("agg") == "closure" and rv.get("def") in self.F.heads and self._closure_ok(tgt):
                                    # the closure may run at any later call: its type-based effects are applied at every call
                                    self.closure_effects |= set(self.P.effects(rv["def"]))
                                else:
                                    escaped.add(q["l"])
                    elif rv["k"] in ("ref", "rawptr"):
                        pass
        for t in escaped:
            root = alias[t]["l"]
            self.untracked.add(root)
        # named locals holding &mut borrows of other locals (`let v = &mut w;`)
        for t, p in alias.items():
            if b.local_name(t) and t > b.nargs:
                self.untracked.add(p["l"])
        self.mutborrow = alias
        self.pos_sums = self._find_position_sums()
        self.stepby_bounds = self._find_stepby_bounds()

    def _find_stepby_bounds(self):
        """{id(statement): (lo operand, hi operand, local)} for the statements that bind the value of
        `for x in (lo..hi).step_by(k)`: StepBy over a Range yields values of the range only.  The bounds must be constants,
        parameters or variables assigned once (so that they still hold their value inside the loop)."""
        b = self.b
        out = {}
        steps = [(bi, t) for bi, t in b.calls() if (b.callee_q(t) or "").endswith("::step_by") and len(t["args"]) == 2 and not place_proj(t["dest"])]
        if not steps:
            return out

        def stable(o):
            if o.get("k") is not None:
                return True
            pl = op_place(o)
            if pl is None or place_proj(pl):
                return False
            l = pl["l"]
            for _ in range(6):
                if 1 <= l <= b.nargs:
                    return len(b.defs().get(l, [])) == 0
                ds = b.defs().get(l, [])
                if len(ds) != 1 or ds[0][1] == "t":
                    return len(ds) == 1 and bool(b.local_name(l))
                rv = b.blocks[ds[0][0]]["s"][ds[0][1]]["rv"]
                if rv["k"] in ("use", "cast") and rv["o"].get("k") is not None:
                    return True
                q = op_place(rv["o"]) if rv["k"] in ("use", "cast") else None
                if q is None or place_proj(q):
                    return bool(b.local_name(l))
                l = q["l"]
            return False
        for bs, ts in steps:
            r0 = op_place(ts["args"][0])
            if r0 is None or place_proj(r0):
                continue
            rv = b.def_rvalue(r0["l"])
            if rv is None or rv["k"] != "agg" or "ops::Range" not in str(rv.get("adt", "")) or "Inclusive" in str(rv.get("adt", "")):
                continue
            f = dict(zip(rv.get("fields") or [], rv["ops"]))
            lo, hi = f.get("start"), f.get("end")
            if lo is None or hi is None or not stable(lo) or not stable(hi):
                continue

            def rooted(o):
                # the parameter / variable an operand is a copy of (the temporary itself is dead once it was moved into the range)
                if o.get("k") is not None:
                    return o
                l = op_place(o)["l"]
                for _ in range(6):
                    if 1 <= l <= b.nargs or b.local_name(l):
                        break
                    ds = b.defs().get(l, [])
                    if len(ds) != 1 or ds[0][1] == "t":
                        break
                    rvx = b.blocks[ds[0][0]]["s"][ds[0][1]]["rv"]
                    if rvx["k"] in ("use", "cast") and rvx["o"].get("k") is not None:
                        return rvx["o"]
                    q = op_place(rvx["o"]) if rvx["k"] in ("use", "cast") else None
                    if q is None or place_proj(q):
                        break
                    l = q["l"]
                return {"c": {"l": l}}
            lo, hi = rooted(lo), rooted(hi)
            # iterator locals: the StepBy value and what it is moved into
            its = {ts["dest"]["l"]}
            for _ in range(4):
                for bi, t in b.calls():
                    if (b.callee_q(t) or "").endswith("::into_iter") and t["args"] and not place_proj(t["dest"]):
                        a0 = op_place(t["args"][0])
                        if a0 is not None and not place_proj(a0) and a0["l"] in its:
                            its.add(t["dest"]["l"])
                for bi, si, st in b.stmts():
                    if st["rv"]["k"] == "use" and not place_proj(st["p"]):
                        q = op_place(st["rv"]["o"])
                        if q is not None and not place_proj(q) and q["l"] in its:
                            its.add(st["p"]["l"])
            # next(&mut it) -> Option<usize>; its payload bindings
            opts = set()
            for bi, t in b.calls():
                if (b.callee_q(t) or "").endswith("::next") and t["args"] and not place_proj(t["dest"]):
                    a0 = op_place(t["args"][0])
                    if a0 is None or place_proj(a0):
                        continue
                    rv0 = b.def_rvalue(a0["l"])
                    tgt = self.mutborrow.get(a0["l"])       # `&mut *(&mut it)` chains are resolved by the pre-pass
                    if (rv0 is not None and rv0["k"] == "ref" and not place_proj(rv0["p"]) and rv0["p"]["l"] in its) or \
                            (tgt is not None and not place_proj(tgt) and tgt["l"] in its):
                        opts.add(t["dest"]["l"])
            for bi, si, st in b.stmts():
                if st["rv"]["k"] == "use" and not place_proj(st["p"]):
                    src = op_place(st["rv"]["o"])
                    if src is not None and src["l"] in opts and any(e[0] == "dc" for e in place_proj(src)):
                        out[id(st)] = (lo, hi, st["p"]["l"])
        return out

    def _param_byte_views(self):
        """{bytes parameter: str parameter} for a private function all of whose call sites pass `x.as_bytes()` for the former
        and `x` for the latter (a helper that receives a string together with its byte view)."""
        b, F, P = self.b, self.F, self.P
        out = {}
        h = F.heads.get(b.path, {}) if F is not None else {}
        if P is None or h.get("vis") in ("pub",) or h.get("bkind") != "fn":
            return out
        cand = [l for l in range(1, b.nargs + 1) if b.locals[l].replace(" ", "") in ("&[u8]",)]
        strs = [l for l in range(1, b.nargs + 1) if b.locals[l] in ("&str", "&std::string::String")]
        if not cand or not strs:
            return out
        callers = P.callers_of([b.path])
        if not callers:
            return out

        def root(cb, o):
            pl = op_place(o)
            for _ in range(8):
                if pl is None or place_proj(pl):
                    return None
                l = pl["l"]
                if cb.local_name(l) or 1 <= l <= cb.nargs:
                    return l
                ds = cb.defs().get(l, [])
                if len(ds) != 1:
                    return None
                if ds[0][1] == "t":
                    t = cb.blocks[ds[0][0]]["t"]
                    q = (cb.callee_q(t) or "").rsplit("::", 1)[-1]
                    if q in DEREF_FNS and t["args"]:
                        pl = op_place(t["args"][0])
                        continue
                    return None
                rv = cb.blocks[ds[0][0]]["s"][ds[0][1]]["rv"]
                if rv["k"] in ("use", "cast"):
                    pl = op_place(rv["o"])
                elif rv["k"] == "ref":
                    pl = {"l": rv["p"]["l"], "p": [e for e in place_proj(rv["p"]) if e[0] != "*"]}
                else:
                    return None
            return None

        def via_as_bytes(cb, o):
            pl = op_place(o)
            for _ in range(6):
                if pl is None or place_proj(pl):
                    return None
                l = pl["l"]
                ds = cb.defs().get(l, [])
                if len(ds) != 1:
                    return None
                if ds[0][1] == "t":
                    t = cb.blocks[ds[0][0]]["t"]
                    if (cb.callee_q(t) or "").rsplit("::", 1)[-1] == "as_bytes" and t["args"]:
                        return root(cb, t["args"][0])
                    return None
                rv = cb.blocks[ds[0][0]]["s"][ds[0][1]]["rv"]
                if rv["k"] in ("use", "cast"):
                    pl = op_place(rv["o"])
                elif rv["k"] == "ref" and all(e[0] == "*" for e in place_proj(rv["p"])):
                    pl = {"l": rv["p"]["l"]}        # a reborrow `&*bytes`
                else:
                    return None
            return None
        for lb in cand:
            for ls in strs:
                ok = True
                n = 0
                for c in callers:
                    if not F.has(c):
                        ok = False
                        break
                    cb = F.body(c)
                    for bi, t in cb.calls():
                        if cb.callee(t) != b.path:
                            continue
                        n += 1
                        if len(t["args"]) < max(lb, ls):
                            ok = False
                            break
                        rb, rs_ = via_as_bytes(cb, t["args"][lb - 1]), root(cb, t["args"][ls - 1])
                        if rb is None or rs_ is None or rb != rs_:
                            ok = False
                            break
                    if not ok:
                        break
                if ok and n:
                    out[lb] = ls
        return out

    def call_entry_relations(self, bi):
        """[(i, j, c)] over the callee's parameter locals (1-based; None = the constant 0): what the state before the call
        terminator of block bi entails about the integer arguments, pairwise and against 0."""
        t = self.b.blocks[bi]["t"]
        out = []
        for key, z0 in (self.states_at(bi) or []):
            z = z0.copy()
            z.close()
            lins = []
            for i, a in enumerate(t["args"], 1):
                ty = self._ty_of_operand(a)
                lins.append((i, self.lin(z, a, ty) if ty in WIDTH else None))
            rel = {}
            for i, la in lins:
                if la is None:
                    continue
                for j, lb in lins + [(None, (ZERO, 0))]:
                    if j == i or lb is None:
                        continue
                    d = z.get(la[0], lb[0])          # la0 - lb0 <= d
                    if d is not None:
                        rel[(i, j)] = d + la[1] - lb[1]
                    d2 = z.get(lb[0], la[0])
                    if d2 is not None:
                        rel[(j, i)] = d2 + lb[1] - la[1]
            out.append(rel)
        if not out:
            return []
        # keep what every partition entails (weakest bound)
        keys = set(out[0])
        for r in out[1:]:
            keys &= set(r)
        return [(i, j, max(r[(i, j)] for r in out)) for (i, j) in sorted(keys, key=str)]

    def ctx_relations(self, z0, t):
        """[(key, key, c)] over the callee's parameters -- key = i (integer argument i), ("len", i) (length of the slice /
        string / Vec argument i refers to) or None (0) -- that the state z0 before the call entails."""
        z = z0.copy()
        z.close()
        terms = []
        for i, a in enumerate(t["args"], 1):
            ty = self._ty_of_operand(a)
            if ty in WIDTH:
                la = self.lin(z, a, ty)
                if la is not None:
                    terms.append((i, la))
            else:
                lt = self.len_term(a)
                if lt:
                    terms.append((("len", i), (lt, 0)))
        terms.append((None, (ZERO, 0)))
        out = []
        for ka, la in terms:
            for kb, lb in terms:
                if ka == kb:
                    continue
                d = z.get(la[0], lb[0])
                if d is not None:
                    out.append((ka, kb, d + la[1] - lb[1]))
        return out

    def _find_position_sums(self):
        """{id(rvalue): operand of the container}: additions `k + p` where p is the payload of
        `<container>.iter().skip(k).position(..)` (or `.iter().position(..)`, then k is absent and the entry is keyed on
        the payload copy instead) and k still holds the value it had when it was handed to skip().  Iterator::position
        returns an index into what is left after the skip, so k + p < len(container).  Decided statically by single
        definitions and reaching definitions, so nothing has to be invalidated in the abstract state."""
        from mir import reaching_defs, defs_reaching
        b = self.b
        out = {}
        pos_calls = [(bi, t) for bi, t in b.calls() if (b.callee_q(t) or "").endswith("::position") and "Iterator" in (b.callee_q(t) or "") and t["args"]]
        if not pos_calls:
            return out
        IN = None

        def single_call_def(l):
            ds = b.defs().get(l, [])
            if len(ds) != 1 or ds[0][1] != "t":
                return None
            return ds[0][0], b.blocks[ds[0][0]]["t"]

        def root_local(o, depth=0):
            # follow single-definition plain copies of unnamed temps back to the variable they copy
            pl = op_place(o)
            if pl is None or place_proj(pl):
                return None
            l = pl["l"]
            for _ in range(6):
                if b.local_name(l) or 1 <= l <= b.nargs:
                    return l
                ds = b.defs().get(l, [])
                if len(ds) != 1 or ds[0][1] == "t":
                    return l
                rv = b.blocks[ds[0][0]]["s"][ds[0][1]]["rv"]
                if rv["k"] != "use":
                    return l
                q = op_place(rv["o"])
                if q is None or place_proj(q):
                    return l
                l = q["l"]
            return l

        for bp, tp in pos_calls:
            if place_proj(tp["dest"]):
                continue
            # receiver: &mut <iterator local>
            a0 = op_place(tp["args"][0])
            if a0 is None or place_proj(a0):
                continue
            rv0 = b.def_rvalue(a0["l"])
            if rv0 is None or rv0["k"] != "ref" or place_proj(rv0["p"]):
                continue
            it = rv0["p"]["l"]
            d = single_call_def(it)
            if d is None:
                continue
            bs, ts = d
            qs = (b.callee_q(ts) or "")
            k_root, k_defs, container = None, None, None
            if qs.endswith("::skip") and len(ts["args"]) == 2:
                k_root = root_local(ts["args"][1])
                if k_root is None:
                    continue
                if IN is None:
                    IN = reaching_defs(b)
                k_defs = defs_reaching(b, IN, bs, "t", k_root)
                inner = op_place(ts["args"][0])
                if inner is None or place_proj(inner):
                    continue
                d2 = single_call_def(inner["l"])
                if d2 is None:
                    continue
                bs, ts = d2
                qs = (b.callee_q(ts) or "")
            if not (qs.endswith("::iter") and ts["args"]):
                continue
            container = ts["args"][0]
            # payload bindings of the returned Option
            o = tp["dest"]["l"]
            payload = set()
            for bi, si, st in b.stmts():
                if st["rv"]["k"] == "use" and not place_proj(st["p"]):
                    src = op_place(st["rv"]["o"])
                    if src is not None and src["l"] == o and any(e[0] == "dc" for e in place_proj(src)):
                        payload.add(st["p"]["l"])
            if not payload:
                continue
            for bi, si, st in b.stmts():
                rv = st["rv"]
                if rv["k"] != "bin" or rv["op"].replace("WithOverflow", "").replace("Unchecked", "") != "Add":
                    continue
                ra, rb = root_local(rv["a"]), root_local(rv["b"])
                if ra is None or rb is None:
                    continue
                pr, other = (ra, rb) if ra in payload else ((rb, ra) if rb in payload else (None, None))
                if pr is None:
                    continue
                # the payload binding itself must be the one definition of that local
                if len(b.defs().get(pr, [])) != 1:
                    continue
                if k_root is None:
                    continue
                if other != k_root:
                    continue
                if IN is None:
                    IN = reaching_defs(b)
                if defs_reaching(b, IN, bi, si, k_root) != k_defs:
                    continue
                out[id(rv)] = container
        return out

    def _closure_ok(self, tgt):
        """The captured place is a whole local-ADT struct behind a reference, or a field path inside one: everything
        the closure can change through it is named by (ADT, field) pairs."""
        proj = place_proj(tgt)
        if not proj or proj[0][0] != "*":
            return False
        if not self._is_local_adt_ty(self.b.locals[tgt["l"]]):
            return False
        return all(e[0] in ("*", "f") for e in proj)

    # ------------------------------------------------------------------ havoc
    def _touch(self, z, name):
        if name != ZERO and self.info.get(name, {}).get("unsigned"):
            if z.get(ZERO, name) is None or z.get(ZERO, name) > 0:
                z.add(ZERO, name, 0)

    def havoc_base(self, z, l):
        for n in self.by_base.get(l, ()):
            z.forget(n)

    def havoc_overlap(self, z, l, s, keep_len=False):
        for n in self.by_base.get(l, ()):
            t = self.info[n]["s"]
            if t.startswith(s) or s.startswith(t):
                if keep_len and n.startswith("len:") and t == s:
                    continue
                z.forget(n)

    def havoc_pair(self, z, pair):
        for n in self.by_pair.get(pair, ()):
            z.forget(n)

    def havoc_all_memory(self, z):
        for n, i in self.info.items():
            if "(*" in i["s"]:
                z.forget(n)

    def havoc_write(self, z, p):
        """Something is stored to place p."""
        proj = place_proj(p)
        if not proj:
            self.havoc_base(z, p["l"])
            return
        rp = self._resolve(p)
        s = self._raw_str(rp)
        if s is None:
            # index projection etc.: cut the string at the first unsupported element
            cut = {"l": rp["l"], "p": []}
            for e in place_proj(rp):
                if e[0] in ("*", "f", "dc"):
                    cut["p"].append(e)
                else:
                    break
            s = self._raw_str(cut)
        self.havoc_overlap(z, rp["l"], s)
        if any(e[0] == "*" for e in place_proj(rp)):
            pair = self._last_pair(rp)
            if pair is not None:
                self.havoc_pair(z, pair)
            else:
                self.havoc_all_memory(z)

    # ------------------------------------------------------------------ expressions
    def lin(self, z, o, ty=None):
        """(term, c) for operand value term + c, or None."""
        c = const_int(o)
        if c is not None:
            return (ZERO, c)
        if o.get("k") is not None:
            return None
        p = op_place(o)
        if p is None:
            return None
        t = self.term_of_place(p, ty)
        if t is None:
            return None
        self._touch(z, t)
        return (t, 0)

    def _ty_of_operand(self, o):
        p = op_place(o)
        if p is not None and not place_proj(p):
            return self.b.locals[p["l"]]
        k = o.get("k")
        return k.get("ty") if k else None

    def define(self, z, name, val):
        """name := val where val is (term, c) | None."""
        if val is None or (val[0] != ZERO and val[0] not in self.info):
            z.forget(name)
        else:
            z.assign(name, val[0], val[1])
        self._touch(z, name)

    def eval_rvalue(self, z, rv, dest_ty):
        """Returns ("lin", (t,c)) | ("rel", [(x,y,c) constraints over the pseudo term '$r']) | None"""
        k = rv["k"]
        if k == "use":
            v = self.lin(z, rv["o"], dest_ty)
            return ("lin", v) if v else None
        if k == "cast":
            if "IntToInt" not in rv.get("ck", ""):
                return None
            src_ty = self._ty_of_operand(rv["o"])
            v = self.lin(z, rv["o"], src_ty)
            if v is None or src_ty not in WIDTH or dest_ty not in WIDTH:
                return None
            if src_ty in UNSIGNED and (WIDTH[dest_ty] > WIDTH[src_ty] or (dest_ty in UNSIGNED and WIDTH[dest_ty] >= WIDTH[src_ty])):
                return ("lin", v)
            if src_ty in SIGNED and dest_ty in SIGNED and WIDTH[dest_ty] >= WIDTH[src_ty]:
                return ("lin", v)
            if src_ty in SIGNED and dest_ty in UNSIGNED and WIDTH[dest_ty] >= WIDTH[src_ty]:
                # value-preserving only for non-negative sources
                if z.entails(ZERO, v[0], v[1]):
                    return ("lin", v)
                return None
            if src_ty in UNSIGNED and dest_ty in SIGNED and WIDTH[dest_ty] == WIDTH[src_ty]:
                # usize -> isize: preserved below isize::MAX; lengths and indices are
                return ("lin", v)
            return None
        if k == "un":
            if rv["op"] == "PtrMetadata":
                n = self._const_slice_len(rv["a"])
                if n is not None:
                    return ("lin", (ZERO, n))
                t = self.len_term(rv["a"])
                if t:
                    return ("lin", (t, 0))
            return None
        if k == "bin":
            op = rv["op"].replace("WithOverflow", "").replace("Unchecked", "")
            ty = rv.get("ty")
            a = self.lin(z, rv["a"], ty)
            c = self.lin(z, rv["b"], ty)
            uns = ty in UNSIGNED
            if op == "Add":
                if a and c:
                    if c[0] == ZERO:
                        return ("lin", (a[0], a[1] + c[1]))
                    if a[0] == ZERO:
                        return ("lin", (c[0], c[1] + a[1]))
                    rel = []
                    # r = a + c: r - a <= ub(c), a - r <= -lb(c) ...
                    ubc, lbc = z.get(c[0], ZERO), z.get(ZERO, c[0])
                    if ubc is not None:
                        rel.append(("$r", a[0], a[1] + ubc + c[1]))
                    if lbc is not None:
                        rel.append((a[0], "$r", -(a[1] - lbc + c[1])))
                    uba, lba = z.get(a[0], ZERO), z.get(ZERO, a[0])
                    if uba is not None:
                        rel.append(("$r", c[0], c[1] + uba + a[1]))
                    if lba is not None:
                        rel.append((c[0], "$r", -(c[1] - lba + a[1])))
                    cont = getattr(self, "pos_sums", {}).get(id(rv))
                    if cont is not None:
                        # k + p where p = <container>.iter().skip(k).position(..): an index of the container
                        L = self.len_term(cont)
                        if L:
                            rel.append(("$r", L, -1))
                    return ("rel", rel)
                return None
            if op == "Sub":
                if a and c and uns and "WithOverflow" not in rv["op"] and not z.entails(c[0], a[0], a[1] - c[1]):
                    return None     # wrapping / unchecked subtraction that may wrap
                if a and c:
                    if c[0] == ZERO:
                        return ("lin", (a[0], a[1] - c[1]))
                    rel = []
                    # r = a - c
                    ubc, lbc = z.get(c[0], ZERO), z.get(ZERO, c[0])   # c <= ubc ; -c <= lbc i.e. c >= -lbc
                    if lbc is not None:
                        # r <= a - min(c) = a + lbc
                        rel.append(("$r", a[0], a[1] - c[1] + lbc))
                    if ubc is not None:
                        rel.append((a[0], "$r", -(a[1] - c[1] - ubc)))
                    d1 = z.get(a[0], c[0])    # a - c <= d1
                    if d1 is not None:
                        rel.append(("$r", ZERO, d1 + a[1] - c[1]))
                    d2 = z.get(c[0], a[0])    # c - a <= d2  => r >= -d2
                    if d2 is not None:
                        rel.append((ZERO, "$r", d2 - a[1] + c[1]))
                    return ("rel", rel)
                return None
            if op == "Rem" and c:
                if c[0] == ZERO and c[1] > 0 and uns:
                    return ("rel", [("$r", ZERO, c[1] - 1), (ZERO, "$r", 0)])
                if uns and c[0] != ZERO:
                    return ("rel", [("$r", c[0], c[1] - 1)])
                return None
            if op == "Div" and a and c:
                if uns and c[0] == ZERO and c[1] >= 1:
                    return ("rel", [("$r", a[0], a[1])])
                return None
            if op == "Mul" and a and c and a[0] == ZERO and c[0] == ZERO:
                return ("lin", (ZERO, a[1] * c[1]))
            if op in ("BitAnd",) and uns and c and c[0] == ZERO and c[1] >= 0:
                return ("rel", [("$r", ZERO, c[1])])
            return None
        return None

    def apply_def(self, z, name, ev):
        if ev is None:
            z.forget(name)
            self._touch(z, name)
            return
        if ev[0] == "lin":
            self.define(z, name, ev[1])
            return
        # relational: constraints may mention `name` itself (x = x - y): evaluate into a fresh temp then rename
        tmp = "$r"
        z.forget(tmp)
        for (x, y, c) in ev[1]:
            z.add(x, y, c)
        z.forget(name)
        # rename $r -> name
        r = z.row.pop(tmp, {})
        cc = z.col.pop(tmp, {})
        for y, c in r.items():
            z.col.get(y, {}).pop(tmp, None)
        for x, c in cc.items():
            z.row.get(x, {}).pop(tmp, None)
        for y, c in r.items():
            if y != name:
                z._set(name, y, c)
        for x, c in cc.items():
            if x != name:
                z._set(x, name, c)
        self._touch(z, name)

    # ------------------------------------------------------------------ transfer
    def stmt(self, z, s):
        self._stmt_core(z, s)
        # the value a `(a..b).step_by(k)` loop binds lies in a..b
        sb = self.stepby_bounds.get(id(s)) if self.stepby_bounds else None
        if sb is not None and not z.bottom:
            lo, hi, l = sb
            name = "_%d" % l
            if name in self.info or True:
                nm = self._register(name, l, name, set(), self.b.locals[l] in UNSIGNED)
                a = self.lin(z, lo, "usize")
                c = self.lin(z, hi, "usize")
                self._touch(z, nm)
                if a is not None:
                    z.add(a[0], nm, -a[1])          # lo <= p
                if c is not None:
                    z.add(nm, c[0], c[1] - 1)       # p <= hi - 1

    def _stmt_core(self, z, s):
        if z.bottom:
            return
        p, rv = s["p"], s["rv"]
        proj = place_proj(p)
        k = rv["k"]
        if not proj:
            l = p["l"]
            ty = self.b.locals[l]
            if k == "bin" and "WithOverflow" in rv["op"]:
                ev = self.eval_rvalue(z, rv, rv.get("ty"))
                self.havoc_base(z, l)
                if l not in self.untracked:
                    # the mathematical result; for an unsigned Sub it may be negative until the overflow assert has passed
                    if "Sub" in rv["op"]:
                        self.math_terms.add("m:_%d.0" % l)
                    name = self._register("m:_%d.0" % l, l, "_%d.0" % l, set(), rv.get("ty") in UNSIGNED and "Sub" not in rv["op"])
                    self.apply_def(z, name, ev)
            elif k == "agg" and str(rv.get("adt", "")).startswith(("std::ops::Range", "core::ops::Range")) and rv.get("fields"):
                vals = [self.lin(z, o, "usize") for o in rv["ops"]]
                self.havoc_base(z, l)
                if l not in self.untracked:
                    for fn, v in zip(rv["fields"], vals):
                        name = self._register("m:_%d.%s" % (l, fn), l, "_%d.%s" % (l, fn), set(), True)
                        self.define(z, name, v)
            elif k == "agg" and rv.get("agg") in ("adt", "tuple") and rv.get("ops") and l not in self.untracked:
                # integer fields of a freshly built struct / enum variant / tuple
                adt = rv.get("adt") or "tuple"
                is_enum = adt in ("std::option::Option", "std::result::Result", "core::option::Option", "core::result::Result") or \
                    (self.F is not None and self.F.adts.get(adt, {}).get("adt_kind") == "enum")
                fields = rv.get("fields") or [str(i) for i in range(len(rv["ops"]))]
                vals = []
                for fn, o in zip(fields, rv["ops"]):
                    oty = self._ty_of_operand(o)
                    vals.append((fn, self.lin(z, o, oty) if oty in WIDTH else None, oty))
                self.havoc_base(z, l)
                vname = rv.get("variant")
                vidx = rv.get("vidx", 0)
                for i, (fn, v, oty) in enumerate(vals):
                    if v is None:
                        continue
                    if is_enum:
                        sfx = "@%s.%s" % (vname, fn)
                        pl = {"l": l, "p": [["dc", vname, vidx], ["f", i, fn, adt, vname]]}
                    else:
                        sfx = ".%s" % fn
                        pl = {"l": l, "p": [["f", i, fn, adt, None]]}
                    name = self._register("m:_%d%s" % (l, sfx), l, "_%d%s" % (l, sfx), set(), oty in UNSIGNED, pl)
                    self.define(z, name, v)
            elif ty in WIDTH:
                ev = self.eval_rvalue(z, rv, ty)
                self.havoc_base(z, l)
                if l not in self.untracked:
                    name = self._register("_%d" % l, l, "_%d" % l, set(), ty in UNSIGNED)
                    self.apply_def(z, name, ev)
            else:
                # a non-integer local is (re)defined: everything named through it dies; a struct copy/move carries
                # its integer fields along (Range values, tuples)
                src = None
                if k == "use":
                    sp = op_place(rv["o"])
                    if sp is not None:
                        src = sp
                carried = []
                carried_len = None
                if src is not None and src["l"] != l:
                    rs = self._resolve(src)
                    ss = self._raw_str(rs)
                    if ss is not None:
                        for n in list(self.by_base.get(rs["l"], ())):
                            i = self.info[n]
                            if n.startswith("m:") and i["s"].startswith((ss + ".", ss + "@")) and "(*" not in i["s"][len(ss):]:
                                if z.row.get(n) or z.col.get(n):
                                    carried.append((n, i["s"][len(ss):], i["unsigned"]))
                            elif n.startswith("len:") and i["s"] == ss and (z.row.get(n) or z.col.get(n)) and not place_proj(rs):
                                carried_len = n
                if carried_len is not None and l not in self.untracked:
                    z.forget("$cl")
                    z.assign("$cl", carried_len, 0)
                self.havoc_base(z, l)
                if carried_len is not None and l not in self.untracked:
                    nl = self.len_term_of_place({"l": l})
                    if nl:
                        z.assign(nl, "$cl", 0)
                    z.forget("$cl")
                if l not in self.untracked:
                    for n, suffix, uns in carried:
                        spl = self.info[n].get("place")
                        npl = None
                        if spl is not None and rs is not None:
                            npl = {"l": l, "p": list(place_proj(spl))[len(place_proj(rs)):]}
                        name = self._register("m:_%d%s" % (l, suffix), l, "_%d%s" % (l, suffix), set(), uns, npl)
                        z.assign(name, n, 0)
        else:
            tname = self.term_of_place(p)
            ev = None
            if tname is not None:
                pr = self._last_pair(self._resolve(p))
                ev = self.eval_rvalue(z, rv, self._field_ty(pr) if pr else None)
            self.havoc_write(z, p)
            if tname is not None:
                self.apply_def(z, tname, ev)
        # `&mut` borrow that may write (kept simple: the call that receives it does the havoc)
        # moved temporaries are dead (comparison operands are kept: the switch that ends the block refines through them)
        if k == "bin" and rv["op"] in ("Lt", "Le", "Gt", "Ge", "Eq", "Ne"):
            return
        for o in _rv_operands(rv):
            q = o.get("m")
            if q is not None and not place_proj(q) and not self.b.local_name(q["l"]) and q["l"] > self.b.nargs and q["l"] != p["l"]:
                self.havoc_base(z, q["l"])

    def _cmp_of(self, bi, o, depth=0):
        """(op, a, b) if the bool operand o is computed by a comparison in block bi whose operands are not
        reassigned afterwards in the block; with negations folded."""
        p = op_place(o)
        if p is None or place_proj(p) or depth > 3:
            return None
        l = p["l"]
        ss = self.b.blocks[bi]["s"]
        for si in range(len(ss) - 1, -1, -1):
            s = ss[si]
            if not place_proj(s["p"]) and s["p"]["l"] == l:
                rv = s["rv"]
                if rv["k"] == "bin" and rv["op"] in ("Lt", "Le", "Gt", "Ge", "Eq", "Ne"):
                    later = {x["p"]["l"] for x in ss[si + 1:] if not place_proj(x["p"])}
                    for oo in (rv["a"], rv["b"]):
                        q = op_place(oo)
                        if q is not None and q["l"] in later:
                            return None
                    return (rv["op"], rv["a"], rv["b"], rv.get("ty"))
                if rv["k"] == "un" and rv["op"] == "Not":
                    r = self._cmp_of_at(bi, si, rv["a"], depth + 1)
                    if r:
                        return ({"Lt": "Ge", "Le": "Gt", "Gt": "Le", "Ge": "Lt", "Eq": "Ne", "Ne": "Eq"}[r[0]],) + r[1:]
                    return None
                if rv["k"] == "use":
                    return self._cmp_of_at(bi, si, rv["o"], depth + 1)
                return None
        return None

    def _cmp_of_at(self, bi, upto, o, depth):
        p = op_place(o)
        if p is None or place_proj(p):
            return None
        l = p["l"]
        ss = self.b.blocks[bi]["s"]
        for si in range(upto - 1, -1, -1):
            s = ss[si]
            if not place_proj(s["p"]) and s["p"]["l"] == l:
                rv = s["rv"]
                if rv["k"] == "bin" and rv["op"] in ("Lt", "Le", "Gt", "Ge", "Eq", "Ne"):
                    later = {x["p"]["l"] for x in ss[si + 1:] if not place_proj(x["p"])}
                    for oo in (rv["a"], rv["b"]):
                        q = op_place(oo)
                        if q is not None and q["l"] in later:
                            return None
                    return (rv["op"], rv["a"], rv["b"], rv.get("ty"))
                return None
        return None

    def refine_cmp(self, z, op, a, b, ty):
        la, lb = self.lin(z, a, ty), self.lin(z, b, ty)
        if la is None or lb is None:
            return
        (x, cx), (y, cy) = la, lb
        # x + cx OP y + cy
        if op == "Lt":
            z.add(x, y, cy - cx - 1)
        elif op == "Le":
            z.add(x, y, cy - cx)
        elif op == "Gt":
            z.add(y, x, cx - cy - 1)
        elif op == "Ge":
            z.add(y, x, cx - cy)
        elif op == "Eq":
            z.add(x, y, cy - cx)
            z.add(y, x, cx - cy)
        elif op == "Ne":
            # x != y with x >= y known  => x > y   (typical: n != 0 on unsigned)
            if z.entails(y, x, cx - cy):
                z.add(y, x, cx - cy - 1)
            elif z.entails(x, y, cy - cx):
                z.add(x, y, cy - cx - 1)

    NEG = {"Lt": "Ge", "Le": "Gt", "Gt": "Le", "Ge": "Lt", "Eq": "Ne", "Ne": "Eq"}

    def edges(self, bi, z):
        """[(succ, state)] for the normal out-edges of block bi given the state before its terminator."""
        b = self.b
        t = b.blocks[bi]["t"]
        k = t["k"]
        if z.bottom:
            return []
        if k == "goto":
            return [(t["to"], z)]
        if k == "switch":
            out = []
            if t["ty"] == "bool":
                cmp_ = self._cmp_of(bi, t["o"])
                zero = [x for v, x in t["targets"] if v == "0"]
                f_t, t_t = (zero[0] if zero else None), t["otherwise"]
                for tgt, positive in ((t_t, True), (f_t, False)):
                    if tgt is None:
                        continue
                    zz = z.copy()
                    if cmp_:
                        self.refine_cmp(zz, cmp_[0] if positive else self.NEG[cmp_[0]], cmp_[1], cmp_[2], cmp_[3])
                    else:
                        self._refine_bool_call(zz, bi, t["o"], positive)
                    if not zz.bottom:
                        out.append((tgt, zz))
                return out
            v = self.lin(z, t["o"], t["ty"]) if t["ty"] in WIDTH else None
            for val, tgt in t["targets"]:
                zz = z.copy()
                if v is not None:
                    try:
                        n = int(val)
                        zz.add(v[0], ZERO, n - v[1])
                        zz.add(ZERO, v[0], v[1] - n)
                    except ValueError:
                        pass
                if not zz.bottom:
                    out.append((tgt, zz))
            if t.get("otherwise") is not None:
                zz = z.copy()
                if v is not None and t["ty"] in UNSIGNED:
                    # values 0..k-1 all listed => otherwise means >= k
                    vals = set()
                    for val, _ in t["targets"]:
                        try:
                            vals.add(int(val))
                        except ValueError:
                            pass
                    kk = 0
                    while kk in vals:
                        kk += 1
                    if kk:
                        zz.add(ZERO, v[0], v[1] - kk)
                if not zz.bottom:
                    out.append((t["otherwise"], zz))
            return out
        if k == "assert":
            zz = z.copy()
            kind = t["kind"]
            if kind == "BoundsCheck":
                ln, ix = self.lin(zz, t["ops"][0], "usize"), self.lin(zz, t["ops"][1], "usize")
                if ln and ix:
                    zz.add(ix[0], ln[0], ln[1] - ix[1] - 1)
            elif kind.startswith("Overflow(Sub)"):
                ty = self._ty_of_operand(t["ops"][0]) or self._ty_of_operand(t["ops"][1])
                if ty in UNSIGNED:
                    a, c = self.lin(zz, t["ops"][0], ty), self.lin(zz, t["ops"][1], ty)
                    if a and c:
                        zz.add(c[0], a[0], a[1] - c[1])
            elif kind in ("DivisionByZero", "RemainderByZero"):
                dv = divisor_of_assert(b, bi)
                if dv is not None:
                    ty = self._ty_of_operand(dv)
                    d = self.lin(zz, dv, ty)
                    if d and ty in UNSIGNED:
                        zz.add(ZERO, d[0], d[1] - 1)
            return [] if zz.bottom else [(t["to"], zz)]
        if k == "call":
            zz = z.copy()
            self.call(zz, bi, t)
            if t.get("to") is None or t["to"] < 0:
                return []
            return [] if zz.bottom else [(t["to"], zz)]
        if k == "drop":
            return [(t["to"], z)] if t.get("to") is not None and t["to"] >= 0 else []
        if k in ("return", "unreachable", "resume", "abort"):
            return []
        # other terminators (yield, inline asm, ...): conservative
        outs = [s for s in b.succs(bi, unwind=False)]
        return [(s, Zone()) for s in outs]

    def _refine_bool_call(self, z, bi, o, positive):
        """Refinements from bool-returning calls: `v.is_empty()`, `s.starts_with("lit")`,
        `x.first() == Some(..)` / `x.last() == Some(..)`; negations computed in the switch block are folded."""
        b = self.b
        p = op_place(o)
        if p is None or place_proj(p):
            return
        l = p["l"]
        ss = b.blocks[bi]["s"]
        # fold `Not` / copies defined in this block
        for _ in range(4):
            found = None
            for s in reversed(ss):
                if not place_proj(s["p"]) and s["p"]["l"] == l:
                    found = s["rv"]
                    break
            if found is None:
                break
            if found["k"] == "un" and found["op"] == "Not":
                positive = not positive
            elif found["k"] != "use":
                return
            q = op_place(found.get("a") or found.get("o"))
            if q is None or place_proj(q):
                return
            l = q["l"]
        preds = b.preds(bi)
        if len(preds) != 1:
            return
        pt = b.blocks[preds[0]]["t"]
        if pt["k"] != "call" or place_proj(pt["dest"]) or pt["dest"]["l"] != l:
            return
        # nothing in this block may invalidate the facts: only bool plumbing is allowed before the switch
        for s in ss:
            if place_proj(s["p"]) or self.b.locals[s["p"]["l"]] != "bool":
                return
        qn = (b.callee_q(pt) or "")
        q = qn.rsplit("::", 1)[-1]
        args = pt["args"]
        if q == "is_empty" and args:
            lt = self.len_term(args[0])
            if lt:
                self._touch(z, lt)
                if positive:
                    z.add(lt, ZERO, 0)
                else:
                    z.add(ZERO, lt, -1)
        elif q == "starts_with" and len(args) == 2 and positive and "str" in qn:
            lit = self._const_str_of(args[1])
            lt = self.len_term(args[0])
            if lit is not None and lt:
                n = len(lit.encode("utf-8"))
                self._touch(z, lt)
                z.add(ZERO, lt, -n)
                i = self.info[lt]
                pf = self._register("pfx:" + i["s"], i["base"], i["s"], set(i["pairs"]), True)
                z.assign(pf, ZERO, n)
        elif q == "contains" and len(args) == 2 and positive and ("RangeInclusive" in qn or "ops::Range" in qn):
            rng = self._const_range(args[0])
            xl = self._ref_local(args[1])
            if rng is not None and xl is not None and xl not in self.untracked and self.b.locals[xl] in WIDTH:
                name = self._register("_%d" % xl, xl, "_%d" % xl, set(), self.b.locals[xl] in UNSIGNED)
                lo, hi = rng
                z.add(ZERO, name, -lo)
                z.add(name, ZERO, hi)
        elif q in ("eq", "ne") and len(args) == 2 and self._is_option_operand(args[0]):
            if q == "ne":
                positive = not positive
            if not positive:
                return
            for x, y in ((args[0], args[1]), (args[1], args[0])):
                if self._is_some_const(y):
                    lt = self._first_last_of(x)
                    if lt:
                        self._touch(z, lt)
                        z.add(ZERO, lt, -1)

    def _const_slice_len(self, o):
        """length of a `const X: &[T] = &[..; N]` when operand o is (a copy of) that constant"""
        import re
        b = self.b
        cur = o
        for _ in range(4):
            k = cur.get("k")
            if k is not None:
                cdef = k.get("cdef")
                if not cdef or self.F is None or cdef not in self.F.heads:
                    return None
                cb = self.F.body(cdef)
                for blk in cb.blocks:
                    for st in blk["s"]:
                        if not place_proj(st["p"]) and st["p"]["l"] == 0 and st["rv"]["k"] == "cast":
                            q = op_place(st["rv"]["o"])
                            if q is not None and not place_proj(q):
                                m = re.search(r"; (\d+)\]$", cb.locals[q["l"]])
                                if m:
                                    return int(m.group(1))
                return None
            p = op_place(cur)
            if p is None or place_proj(p):
                return None
            rv = self._single_def_rv(p["l"])
            if rv is None or rv["k"] not in ("use", "cast"):
                return None
            cur = rv["o"]
        return None

    def _const_range(self, o):
        """(lo, hi) inclusive bounds when operand o is a reference to a promoted constant `a..=b` / `a..b`"""
        b = self.b
        cur = o
        for _ in range(5):
            k = cur.get("k")
            if k is not None:
                if k.get("promoted") is None or self.F is None:
                    return None
                pb = self.F.body("%s::{promoted#%d}" % (b.path, k["promoted"]))
                if pb is None:
                    return None
                for blk in pb.blocks:
                    for st in blk["s"]:
                        rv = st["rv"]
                        if rv["k"] == "agg" and "Range" in str(rv.get("adt", "")):
                            f = dict(zip(rv.get("fields") or [], rv["ops"]))
                            lo, hi = const_int(f.get("start", {})), const_int(f.get("end", {}))
                            if lo is None or hi is None:
                                return None
                            return (lo, hi) if "Inclusive" in rv["adt"] else (lo, hi - 1)
                    t = blk["t"]
                    if t["k"] == "call" and "RangeInclusive" in (pb.callee_q(t) or "") and (pb.callee_q(t) or "").endswith("::new") and len(t["args"]) == 2:
                        lo, hi = const_int(t["args"][0]), const_int(t["args"][1])
                        if lo is not None and hi is not None:
                            return (lo, hi)
                return None
            p = op_place(cur)
            if p is None:
                return None
            rv = self._single_def_rv(p["l"])
            if rv is None:
                return None
            if rv["k"] in ("use", "cast"):
                cur = rv["o"]
            elif rv["k"] == "ref":
                cur = {"c": {"l": rv["p"]["l"]}}
            else:
                return None
        return None

    def _is_option_operand(self, o):
        p = op_place(o)
        if p is None or place_proj(p):
            return False
        return "option::Option<" in self.b.locals[p["l"]][:40]

    def _const_str_of(self, o):
        from mir import const_str
        b = self.b
        cur = o
        for _ in range(6):
            sv = const_str(cur)
            if sv is not None:
                return sv
            p = op_place(cur)
            if p is None:
                return None
            l = p["l"]
            if self._ndefs.get(l, 0) != 1 or b.local_name(l):
                return None
            rv = b.def_rvalue(l)
            if rv is None:
                return None
            if rv["k"] in ("use", "cast"):
                cur = rv["o"]
            elif rv["k"] == "ref":
                pp = rv["p"]
                cur = {"c": {"l": pp["l"]}}
            else:
                return None
        return None

    def _single_def_rv(self, l):
        if self._ndefs.get(l, 0) != 1 or self.b.local_name(l) or 1 <= l <= self.b.nargs:
            return None
        return self.b.def_rvalue(l)

    def _is_some_const(self, o):
        """operand is `&Some(..)`: a reference to a local just built as Some, or to a promoted constant whose body builds Some."""
        b = self.b
        cur = o
        for _ in range(6):
            k = cur.get("k")
            if k is not None:
                if k.get("promoted") is not None and self.F is not None:
                    pb = self.F.body("%s::{promoted#%d}" % (b.path, k["promoted"]))
                    if pb is None:
                        return False
                    for blk in pb.blocks:
                        for s in blk["s"]:
                            if s["rv"]["k"] == "agg" and s["rv"].get("variant") == "Some":
                                return True
                return False
            p = op_place(cur)
            if p is None:
                return False
            rv = self._single_def_rv(p["l"])
            if rv is None:
                return False
            if rv["k"] in ("use", "cast"):
                cur = rv["o"]
            elif rv["k"] == "ref":
                pp = rv["p"]
                cur = {"c": {"l": pp["l"]}}
            elif rv["k"] == "agg":
                return rv.get("variant") == "Some"
            else:
                return False
        return False

    def _first_last_of(self, o):
        """len term of X when operand is (a reference to) the result of X.first() / X.last() / X.get(0) / X.chars().next()"""
        b = self.b
        cur = o
        for _ in range(6):
            p = op_place(cur)
            if p is None or place_proj(p):
                return None
            l = p["l"]
            if self._ndefs.get(l, 0) != 1 or 1 <= l <= b.nargs:
                return None
            rv = b.def_rvalue(l)
            if rv is None:
                return None
            if rv["k"] in ("use", "cast"):
                cur = rv["o"]
            elif rv["k"] == "ref":
                cur = {"c": {"l": rv["p"]["l"]}} if not place_proj(rv["p"]) else None
                if cur is None:
                    return None
            elif rv["k"] == "call":
                q = (b.callee_q(rv["t"]) or "").rsplit("::", 1)[-1]
                if q in ("first", "last", "first_mut", "last_mut") and rv["t"]["args"]:
                    return self.len_term(rv["t"]["args"][0])
                return None
            else:
                return None
        return None

    def call(self, z, bi, t):
        b = self.b
        q = b.callee_q(t) or ""
        last = q.rsplit("::", 1)[-1]
        callee = b.callee(t)
        local_callee = callee if callee in self.F.heads else None
        # pre-state facts used by summaries
        pre = {}
        if last in LEN_FNS and t["args"] and ("slice" in q or "vec::Vec" in q or "string::String" in q or "str" in q or "VecDeque" in q):
            pre["len"] = self.len_term(t["args"][0])
        args_lin = None
        if last in ("min", "max", "saturating_sub", "abs_diff", "clamp") and len(t["args"]) >= 2:
            ty = self.b.locals[t["dest"]["l"]] if not place_proj(t["dest"]) else None
            args_lin = [self.lin(z, a, ty) for a in t["args"]]
        has_mm = False
        if args_lin and all(args_lin[:2]) and not place_proj(t["dest"]):
            # relate the result to the arguments *before* the moved argument temporaries die
            (x, cx), (y, cy) = args_lin[0], args_lin[1]
            ty0 = self.b.locals[t["dest"]["l"]]
            nm = "$mm"
            z.forget(nm)
            if last == "min":
                lx, ly = z.get(ZERO, x), z.get(ZERO, y)
                z.add(nm, x, cx)
                z.add(nm, y, cy)
                if lx is not None and ly is not None:
                    z.add(ZERO, nm, -min(-lx + cx, -ly + cy))
                has_mm = True
            elif last == "max":
                ux, uy = z.get(x, ZERO), z.get(y, ZERO)
                z.add(x, nm, -cx)
                z.add(y, nm, -cy)
                if ux is not None and uy is not None:
                    z.add(nm, ZERO, max(ux + cx, uy + cy))
                has_mm = True
            elif last == "saturating_sub" and ty0 in UNSIGNED:
                if z.entails(ZERO, y, cy):
                    z.add(nm, x, cx)
                z.add(ZERO, nm, 0)
                has_mm = True
        from_elem_n = None
        if last == "from_elem" and len(t["args"]) == 2 and "vec" in q:
            from_elem_n = self.lin(z, t["args"][1], "usize")
            if from_elem_n is not None:
                z.forget("$fe")
                z.assign("$fe", from_elem_n[0], from_elem_n[1])
        find_len = None
        if last in ("find", "rfind") and ("str" in q) and t["args"]:
            find_len = self.len_term(t["args"][0])
        # `for i in a..b`: Range::into_iter is the identity, Range::next yields start <= i < end and only advances start
        if last == "into_iter" and len(t["args"]) == 1 and not place_proj(t["dest"]):
            ap = op_place(t["args"][0])
            if ap is not None and not place_proj(ap) and b.locals[ap["l"]].startswith(("std::ops::Range<", "core::ops::Range<")):
                vals = {}
                for f in ("start", "end"):
                    n = "m:_%d.%s" % (ap["l"], f)
                    if n in self.info:
                        vals[f] = n
                dl = t["dest"]["l"]
                self.havoc_base(z, dl)
                for f, n in vals.items():
                    nn = self._register("m:_%d.%s" % (dl, f), dl, "_%d.%s" % (dl, f), set(), True)
                    z.assign(nn, n, 0)
                self.havoc_base(z, ap["l"])
                return
        if last == "next" and len(t["args"]) == 1 and not place_proj(t["dest"]):
            ap = op_place(t["args"][0])
            if ap is not None and not place_proj(ap) and ap["l"] in self.mutborrow:
                tgt = self._resolve(self.mutborrow[ap["l"]])
                if not place_proj(tgt) and b.locals[tgt["l"]].startswith(("std::ops::Range<usize", "core::ops::Range<usize", "std::ops::Range<i32", "std::ops::Range<u32")) and tgt["l"] not in self.untracked:
                    st, en = "m:_%d.start" % tgt["l"], "m:_%d.end" % tgt["l"]
                    dl = t["dest"]["l"]
                    self.havoc_base(z, dl)
                    if st in self.info and en in self.info and dl not in self.untracked:
                        uns = "usize" in b.locals[tgt["l"]] or "u32" in b.locals[tgt["l"]]
                        pn = self._register("m:_%d@Some.0" % dl, dl, "_%d@Some.0" % dl, set(), uns,
                                            {"l": dl, "p": [["dc", "Some", 1], ["f", 0, "0", "std::option::Option", "Some"]]})
                        z.forget(pn)
                        z.add(st, pn, 0)
                        z.add(pn, en, -1)
                        self._touch(z, pn)
                        z.relax_upper(st)
                    return
        # Vec::push / VecDeque::push_back grow the length by exactly one
        if last in ("push", "push_back") and len(t["args"]) == 2 and ("vec::Vec" in q or "VecDeque" in q):
            ap = op_place(t["args"][0])
            if ap is not None and not place_proj(ap) and ap["l"] in self.mutborrow:
                tgt = self._resolve(self.mutborrow[ap["l"]])
                lt = self.len_term_of_place(tgt) if tgt["l"] not in self.untracked else None
                if lt is not None:
                    self._touch(z, lt)
                    z.assign(lt, lt, 1)
                    vp = op_place(t["args"][1])
                    if vp is not None and t["args"][1].get("m") is not None and not place_proj(vp) and not b.local_name(vp["l"]) and vp["l"] > b.nargs:
                        self.havoc_base(z, vp["l"])
                    if not place_proj(t["dest"]):
                        self.havoc_base(z, t["dest"]["l"])
                    return
        # effects
        if local_callee is not None:
            for pair in self.P.effects(local_callee):
                self.havoc_pair(z, pair)
        for pair in self.closure_effects:
            self.havoc_pair(z, pair)
        for a in t["args"]:
            p = op_place(a)
            if p is None:
                continue
            if not place_proj(p) and p["l"] in self.mutborrow:
                tgt = self._resolve(self.mutborrow[p["l"]])
                s = self._raw_str(tgt)
                whole_struct = local_callee is not None and self._is_local_adt_ref(tgt)
                if s is None:
                    cut = {"l": tgt["l"], "p": []}
                    for e in place_proj(tgt):
                        if e[0] in ("*", "f", "dc"):
                            cut["p"].append(e)
                        else:
                            break
                    s = self._raw_str(cut)
                if not whole_struct:
                    keep = local_callee is None and last in NON_RESIZING
                    self.havoc_overlap(z, tgt["l"], s, keep_len=keep)
                    if any(e[0] == "*" for e in place_proj(tgt)) and not keep:
                        pair = self._last_pair(tgt)
                        if pair is not None:
                            self.havoc_pair(z, pair)
                        elif local_callee is None:
                            self.havoc_all_memory(z)
            elif not place_proj(p):
                ty = b.locals[p["l"]]
                if ty.startswith("&mut") or (ty.startswith("&'") and " mut " in ty[:12]):
                    # a `&mut` held in a local (parameter) handed on
                    if local_callee is None or not self._is_local_adt_ty(ty):
                        self.havoc_overlap(z, p["l"], "(*_%d)" % p["l"])
                        if local_callee is None:
                            pass
            if a.get("m") is not None and not place_proj(p) and not b.local_name(p["l"]) and p["l"] > b.nargs:
                self.havoc_base(z, p["l"])
        # destination
        d = t["dest"]
        if place_proj(d):
            self.havoc_write(z, d)
            return
        l = d["l"]
        self.havoc_base(z, l)
        if l in self.untracked:
            return
        ty = b.locals[l]
        if ty in WIDTH:
            name = self._register("_%d" % l, l, "_%d" % l, set(), ty in UNSIGNED)
            self._touch(z, name)
            rng = FOREIGN_RANGES.get(last) if local_callee is None and ("chrono" in q) else None
            if rng:
                z.add(name, ZERO, rng[1])
                z.add(ZERO, name, -rng[0])
            if pre.get("len"):
                self._touch(z, pre["len"])
                z.assign(name, pre["len"], 0)
                self._touch(z, name)
            elif has_mm:
                z.assign(name, "$mm", 0)
                z.forget("$mm")
                self._touch(z, name)
        elif last in ("into_vec", "box_assume_init_into_vec_unsafe") and t["args"] and op_place(t["args"][0]) is not None and not place_proj(op_place(t["args"][0])):
            import re as _re
            m = _re.search(r"; (\d+)\]", b.locals[op_place(t["args"][0])["l"]])
            lt = self.len_term_of_place({"l": l})
            if m and lt:
                z.assign(lt, ZERO, int(m.group(1)))
        elif last == "new" and "vec::Vec" in q and not t["args"]:
            lt = self.len_term_of_place({"l": l})
            if lt:
                z.assign(lt, ZERO, 0)
        elif from_elem_n is not None:
            lt = self.len_term_of_place({"l": l})
            if lt:
                z.assign(lt, "$fe", 0)
                self._touch(z, lt)
            z.forget("$fe")
        elif find_len and "Option<usize>" in ty:
            name = self._register("m:_%d@Some.0" % l, l, "_%d@Some.0" % l, set(), True)
            self._touch(z, name)
            self._touch(z, find_len)
            z.add(name, find_len, -1)

    def _is_local_adt_ty(self, ty):
        from effects import _pointee_adt
        a = _pointee_adt(ty)
        return bool(a and a in self.F.adts and self.F.adts[a].get("local"))

    def _is_local_adt_ref(self, place):
        """place is `(*x)` with x a reference to a local ADT (the whole struct is lent to a local callee: its writes
        are covered by the callee's type-based effects)."""
        proj = place_proj(place)
        if len(proj) == 1 and proj[0][0] == "*":
            return self._is_local_adt_ty(self.b.locals[place["l"]])
        return False

    # ------------------------------------------------------------------ fixpoint
    # ------------------------------------------------------------------ partitions
    def _find_part_locals(self):
        """Locals whose (finite) value partitions the abstract state: user bool flags that only ever receive constants,
        the return place when the body returns Option/Result/bool, and destinations of calls with variant summaries."""
        b = self.b
        parts = set()
        out = b.rec.get("output", "") or ""
        if out == "bool" or out.startswith(("std::option::Option<", "std::result::Result<", "core::option::Option<", "core::result::Result<")):
            parts.add(0)
        from mir import const_bool
        cand = {}
        for bi, blk in enumerate(b.blocks):
            if blk["t"].get("cleanup"):
                continue
            for st in blk["s"]:
                pl = st["p"]
                if place_proj(pl):
                    continue
                l = pl["l"]
                if b.locals[l] != "bool" or not b.local_name(l) or l <= b.nargs:
                    continue
                ok = st["rv"]["k"] == "use" and const_bool(st["rv"]["o"]) is not None
                cand[l] = cand.get(l, True) and ok
            t = blk["t"]
            if t["k"] == "call" and not place_proj(t["dest"]):
                l = t["dest"]["l"]
                if l in cand:
                    cand[l] = False
                if self.engine is not None:
                    callee = b.callee(t)
                    if callee in self.F.heads and self.engine.has_variant_summary(callee):
                        parts.add(l)
        for l, ok in cand.items():
            if ok and l not in self.untracked:
                parts.add(l)
        # flags whose address is taken are not partitioned
        for bi, blk in enumerate(b.blocks):
            for st in blk["s"]:
                rv = st["rv"]
                if rv["k"] in ("ref", "rawptr") and rv.get("mut") and rv["p"]["l"] in parts and rv["p"]["l"] != 0:
                    parts.discard(rv["p"]["l"])
        return parts

    def _liveness(self, locs):
        """live-in sets (restricted to locs) per block"""
        b = self.b
        n = len(b.blocks)
        use = [set() for _ in range(n)]
        dfn = [set() for _ in range(n)]

        def ops_of_stmt(st):
            out = []
            for o in _rv_operands(st["rv"]):
                q = op_place(o)
                if q is not None:
                    out.append(q["l"])
            if st["rv"]["k"] in ("ref", "rawptr", "discr"):
                out.append(st["rv"]["p"]["l"])
            if place_proj(st["p"]):
                out.append(st["p"]["l"])
            return out
        for bi, blk in enumerate(b.blocks):
            for st in blk["s"]:
                for l in ops_of_stmt(st):
                    if l in locs and l not in dfn[bi]:
                        use[bi].add(l)
                if not place_proj(st["p"]) and st["p"]["l"] in locs:
                    dfn[bi].add(st["p"]["l"])
            t = blk["t"]
            tl = []
            for key in ("o", "cond"):
                if key in t:
                    q = op_place(t[key])
                    if q is not None:
                        tl.append(q["l"])
            for o in t.get("args", []) + t.get("ops", []):
                q = op_place(o)
                if q is not None:
                    tl.append(q["l"])
            for l in tl:
                if l in locs and l not in dfn[bi]:
                    use[bi].add(l)
            if t["k"] == "call" and not place_proj(t["dest"]) and t["dest"]["l"] in locs:
                dfn[bi].add(t["dest"]["l"])
            if t["k"] == "switch":
                src = self._switch_source(bi, t["o"])
                if src is not None and src[1] in locs and src[1] not in dfn[bi]:
                    use[bi].add(src[1])
            if t["k"] == "return" and 0 in locs and 0 not in dfn[bi]:
                use[bi].add(0)
        live = [set(u) for u in use]
        changed = True
        while changed:
            changed = False
            for bi in range(n - 1, -1, -1):
                out = set()
                for sx in b.succs(bi, unwind=False):
                    out |= live[sx]
                new = use[bi] | (out - dfn[bi])
                if new != live[bi]:
                    live[bi] = new
                    changed = True
        return live

    def _key_stmt(self, key, st):
        from mir import const_bool
        pl = st["p"]
        if place_proj(pl):
            return key
        l = pl["l"]
        if l not in self.parts:
            return key
        rv = st["rv"]
        val = None
        if rv["k"] == "use":
            cb = const_bool(rv["o"])
            if cb is not None:
                val = cb
            else:
                q = op_place(rv["o"])
                if q is not None and not place_proj(q) and q["l"] in key:
                    val = key[q["l"]]
        elif rv["k"] == "agg" and rv.get("variant") is not None and rv.get("agg") == "adt":
            val = rv["variant"]
        key = dict(key)
        if val is None:
            key.pop(l, None)
        else:
            key[l] = val
        return key

    def _switch_source(self, bi, o):
        """('local', l, negated) | ('discr', l) | ('eqsome', l, negated) for the operand of the switch ending block bi."""
        b = self.b
        p = op_place(o)
        if p is None or place_proj(p):
            return None
        l = p["l"]
        neg = False
        ss = b.blocks[bi]["s"]
        for _ in range(5):
            if l in self.parts:
                return ("local", l, neg)
            found = None
            for st in reversed(ss):
                if not place_proj(st["p"]) and st["p"]["l"] == l:
                    found = st["rv"]
                    break
            if found is None:
                break
            if found["k"] == "un" and found["op"] == "Not":
                neg = not neg
                q = op_place(found["a"])
            elif found["k"] == "use":
                q = op_place(found["o"])
            elif found["k"] == "discr":
                q = found["p"]
                if not place_proj(q) and q["l"] in self.parts:
                    return ("discr", q["l"])
                return None
            else:
                return None
            if q is None or place_proj(q):
                return None
            l = q["l"]
        # bool produced by `Option == Some(..)` in the single predecessor
        preds = b.preds(bi)
        if len(preds) == 1:
            pt = b.blocks[preds[0]]["t"]
            if pt["k"] == "call" and not place_proj(pt["dest"]) and pt["dest"]["l"] == l:
                qn = b.callee_q(pt) or ""
                last = qn.rsplit("::", 1)[-1]
                if last in ("eq", "ne") and len(pt["args"]) == 2 and self._is_option_operand(pt["args"][0]):
                    if last == "ne":
                        neg = not neg
                    for x, y in ((pt["args"][0], pt["args"][1]), (pt["args"][1], pt["args"][0])):
                        if self._is_some_const(y):
                            src = self._ref_local(x)
                            if src is not None and src in self.parts:
                                return ("eqsome", src, neg)
        return None

    def _ref_local(self, o):
        """local l when operand is `&l` (through single-def temps)"""
        cur = o
        for _ in range(5):
            p = op_place(cur)
            if p is None or place_proj(p):
                return None
            rv = self._single_def_rv(p["l"])
            if rv is None:
                return None
            if rv["k"] == "ref" and not place_proj(rv["p"]):
                return rv["p"]["l"]
            if rv["k"] == "ref" and len(place_proj(rv["p"])) == 1 and place_proj(rv["p"])[0][0] == "*":
                cur = {"c": {"l": rv["p"]["l"]}}      # reborrow `&(*t)`
                continue
            if rv["k"] in ("use", "cast"):
                cur = rv["o"]
                continue
            return None
        return None

    DISCR = {"0": {"Option": "None", "Result": "Ok"}, "1": {"Option": "Some", "Result": "Err"}}

    def _variant_of_discr(self, l, val):
        ty = self.b.locals[l]
        if "option::Option<" in ty[:30]:
            return self.DISCR.get(val, {}).get("Option")
        if "result::Result<" in ty[:30]:
            return self.DISCR.get(val, {}).get("Result")
        return None

    def pedges(self, bi, z, key):
        """[(succ, zone, key)]"""
        b = self.b
        t = b.blocks[bi]["t"]
        k = t["k"]
        if k == "switch":
            src = self._switch_source(bi, t["o"])
            base = self.edges(bi, z)
            if src is None:
                return [(tg, zz, key) for tg, zz in base]
            out = []
            if src[0] in ("local", "eqsome") and t["ty"] == "bool":
                zero = [x for v, x in t["targets"] if v == "0"]
                f_t, t_t = (zero[0] if zero else None), t["otherwise"]
                l, neg = src[1], src[2]
                for tg, zz in base:
                    # an edge can be both (same target) -- keep it unrefined then
                    if tg == t_t and tg == f_t:
                        out.append((tg, zz, key))
                        continue
                    truth = (tg == t_t) != neg
                    if src[0] == "local":
                        cur = key.get(l)
                        if cur is not None and cur != truth:
                            continue
                        k2 = dict(key)
                        k2[l] = truth
                        out.append((tg, zz, k2))
                    else:
                        cur = key.get(l)
                        if truth:
                            if cur is not None and cur != "Some":
                                continue
                            k2 = dict(key)
                            k2[l] = "Some"
                            out.append((tg, zz, k2))
                        else:
                            out.append((tg, zz, key))
                return out
            if src[0] == "discr":
                l = src[1]
                cur = key.get(l)
                listed = set()
                for val, tg in t["targets"]:
                    vn = self._variant_of_discr(l, val)
                    listed.add(vn)
                    if vn is None:
                        return [(tg2, zz, key) for tg2, zz in base]
                others = [v for v in ("None", "Some") if "option::Option<" in b.locals[l][:30]] or [v for v in ("Ok", "Err")]
                rest = [v for v in others if v not in listed]
                # base edges come in the order targets..., otherwise
                res = []
                bi_edges = list(base)
                tv = [(self._variant_of_discr(l, val), tg) for val, tg in t["targets"]]
                for tg, zz in bi_edges:
                    vs = [vn for vn, tgx in tv if tgx == tg]
                    if t.get("otherwise") == tg:
                        vs = vs + rest
                    vs = [v for v in vs if cur is None or cur == v]
                    if not vs:
                        continue
                    k2 = dict(key)
                    if len(vs) == 1:
                        k2[l] = vs[0]
                    res.append((tg, zz, k2))
                return res
            return [(tg, zz, key) for tg, zz in base]
        if k == "call":
            d = t["dest"]
            post = self.engine.post.get(b.callee(t)) if self.engine is not None else None
            if post and not place_proj(d):
                z = z.copy()
                for i in post:
                    a = self.lin(z, t["args"][i - 1], "usize") if i - 1 < len(t["args"]) else None
                    z.forget("$post%d" % i)
                    if a is not None:
                        z.assign("$post%d" % i, a[0], a[1])
            key2 = key
            if not place_proj(d) and d["l"] in key:
                key2 = dict(key)
                key2.pop(d["l"], None)
            base = self.edges(bi, z)
            if not base:
                return []
            tg, zz = base[0]
            callee = b.callee(t)
            summ = self.engine.summary(callee) if (self.engine is not None and callee in self.F.heads) else None
            writer_call_ok = True
            if summ:
                amap = self._arg_places(t)
                tags = [tagx for tagx in summ if tagx is not None]
                if tags and not place_proj(d) and d["l"] in self.parts:
                    out = []
                    for tagx, cons in summ.items():
                        z2 = zz.copy()
                        self._apply_summary(z2, cons, amap, d)
                        self._assume_after_call(z2, t)
                        if z2.bottom:
                            continue
                        k2 = dict(key2)
                        if tagx is not None:
                            k2[d["l"]] = tagx
                        out.append((tg, z2, k2))
                    return out
                # no variants: facts common to every return
                common = summ.get(None) if set(summ) == {None} else _common(summ)
                if common:
                    self._apply_summary(zz, common, amap, d)
            # a private helper of the same file that returns an integer: analyse it from what this call site guarantees
            hc = self.F.heads.get(callee) if (self.engine is not None and callee in self.F.heads) else None
            if hc is not None and not place_proj(d) and b.locals[d["l"]] in WIDTH and hc.get("vis") not in ("pub",) and \
                    hc.get("file") == b.file and hc.get("bkind") == "fn" and callee != b.path:
                rel = self.ctx_relations(z, t)
                if rel:
                    cs = self.engine.summary_ctx(callee, rel)
                    if cs:
                        cm = cs.get(None) if set(cs) == {None} else _common(cs)
                        if cm:
                            self._apply_summary(zz, cm, self._arg_places(t), d)
            self._assume_after_call(zz, t)
            if post and not place_proj(d):
                lt = self.len_term_of_place({"l": d["l"]})
                for i in post:
                    pn = "$post%d" % i
                    if lt and (zz.row.get(pn) or zz.col.get(pn)):
                        self._touch(zz, lt)
                        zz.add(pn, lt, 0)
                    zz.forget(pn)
            return [] if zz.bottom else [(tg, zz, key2)]
        return [(tg, zz, key) for tg, zz in self.edges(bi, z)]

    def _arg_places(self, t):
        """callee arg index (1-based) -> caller place the argument refers to (for reference arguments)"""
        out = {}
        for i, a in enumerate(t["args"], start=1):
            p = op_place(a)
            if p is None:
                continue
            if not place_proj(p) and p["l"] in self.mutborrow:
                out[i] = self._resolve(self.mutborrow[p["l"]])
                continue
            c = self.container_of(a)
            if c is not None:
                out[i] = self._resolve(c)
        return out

    def _entails_spec(self, z, xs, ys, c, amap):
        def term(spec):
            if spec is None:
                return ZERO
            kind, ai, proj, uns = spec
            root = amap.get(ai)
            if root is None:
                return None
            pl = {"l": root["l"], "p": list(place_proj(root)) + list(proj)}
            return self.len_term_of_place(pl) if kind == "len" else self.term_of_place(pl, "usize" if uns else None)
        x, y = term(xs), term(ys)
        if x is None or y is None:
            return False
        self._touch(z, x)
        self._touch(z, y)
        return z.entails(x, y, c)

    def _apply_summary(self, z, cons, amap, dest):
        """cons: [(xspec, yspec, c)] with spec = None (zero) | (kind, arg index | 0, projection list)"""
        def term(spec):
            if spec is None:
                return ZERO
            kind, ai, proj, uns = spec
            if ai == 0:
                if place_proj(dest):
                    return None
                pl = {"l": dest["l"], "p": list(proj)}
            else:
                root = amap.get(ai)
                if root is None:
                    return None
                pl = {"l": root["l"], "p": list(place_proj(root)) + list(proj)}
            if kind == "len":
                return self.len_term_of_place(pl)
            return self.term_of_place(pl, "usize" if uns else None)
        for xs, ys, c in cons:
            x, y = term(xs), term(ys)
            if x is None or y is None:
                continue
            self._touch(z, x)
            self._touch(z, y)
            z.add(x, y, c)

    # ------------------------------------------------------------------ struct invariants
    def _inv_roots(self):
        from effects import _pointee_adt
        from facts import strip_generics
        roots = []
        if not self.inv:
            return roots
        b = self.b
        for l in range(1, len(b.locals)):
            ty = b.locals[l]
            is_ref = ty.startswith("&")
            adt = _pointee_adt(ty) if is_ref else (strip_generics(ty) if "::" in ty else None)
            if adt not in self.inv:
                continue
            if is_ref and not (1 <= l <= b.nargs):
                continue      # reference temps resolve to their roots
            if not self._stable_base(l) and is_ref:
                continue
            roots.append((l, adt, {"l": l, "p": [["*"]]} if is_ref else {"l": l}))
        return roots

    def _inv_terms(self, root, adt, spec):
        fx, kx, fy, ky, c = spec

        def mk(f, kind):
            pl = {"l": root["l"], "p": list(place_proj(root)) + [["f", -1, f, adt, None]]}
            return self.len_term_of_place(pl) if kind == "len" else self.term_of_place(pl, "usize")
        return mk(fx, kx), mk(fy, ky), c

    def assume_invariants(self, z):
        for l, adt, root in self.inv_roots:
            if l in self.untracked:
                continue
            for spec in self.inv[adt]:
                x, y, c = self._inv_terms(root, adt, spec)
                if x is None or y is None:
                    continue
                self._touch(z, x)
                self._touch(z, y)
                z.add(x, y, c)

    def check_invariants(self, z, only_local=None):
        """[(adt, spec)] violated in z"""
        bad = []
        if z.bottom:
            return bad
        for l, adt, root in self.inv_roots:
            if only_local is not None and l != only_local:
                continue
            for spec in self.inv[adt]:
                x, y, c = self._inv_terms(root, adt, spec)
                if x is None or y is None or not z.entails(x, y, c):
                    bad.append((adt, spec, l))
        return bad

    def _passes_object(self, t):
        """locals (inv roots) whose object is handed to the callee of call terminator t"""
        out = set()
        roots = {l: root for l, adt, root in self.inv_roots}
        for a in t["args"]:
            p = op_place(a)
            if p is None:
                continue
            if not place_proj(p) and p["l"] in roots:
                out.add(p["l"])
                continue
            tgt = None
            if not place_proj(p) and p["l"] in self.mutborrow:
                tgt = self._resolve(self.mutborrow[p["l"]])
            else:
                c = self.container_of(a)
                if c is not None:
                    tgt = self._resolve(c)
            if tgt is not None and tgt["l"] in roots:
                rs = self._raw_str(roots[tgt["l"]])
                ts = self._raw_str(tgt) or ""
                if ts == rs:
                    out.add(tgt["l"])
        return out

    def _assume_after_call(self, z, t):
        if not self.inv_roots:
            return
        if not self.is_inv_writer:
            self.assume_invariants(z)
            return
        callee = self.b.callee(t)
        if callee in self.F.heads and self._passes_object(t):
            self.assume_invariants(z)

    # ------------------------------------------------------------------ fixpoint
    def _run(self, max_rounds):
        b = self.b
        entry = Zone()
        for l in range(1, b.nargs + 1):
            if b.locals[l] in UNSIGNED:
                name = self._register("_%d" % l, l, "_%d" % l, set(), True)
                entry.add(ZERO, name, 0)
        for l, v in self.assume.items():
            if isinstance(l, str) and l.startswith("upvar:"):
                up = b._upvars.get(l[6:])
                nm = self.term_of_place(up, None) if up is not None else None
                if nm is None:
                    self.gave_up = "assumed captured variable %s is not trackable" % l
                    continue
            else:
                nm = self._register("_%d" % l, l, "_%d" % l, set(), b.locals[l] in UNSIGNED)
            entry.assign(nm, ZERO, v)
        def _entry_term(k):
            if k is None:
                return ZERO
            if isinstance(k, tuple) and k[0] == "len":
                return self.len_term_of_place({"l": k[1], "p": [["*"]]})
            return self._register("_%d" % k, k, "_%d" % k, set(), b.locals[k] in UNSIGNED)
        for x, y, c in self.entry_rel:
            tx, ty = _entry_term(x), _entry_term(y)
            if tx is None or ty is None:
                continue
            self._touch(entry, tx)
            self._touch(entry, ty)
            entry.add(tx, ty, c)
        self.inv_roots = self._inv_roots()
        own = self.P.direct.get(b.path, {}) if self.P is not None else {}
        self.is_inv_writer = any((adt, f) in own for adt, specs in self.inv.items() for sp in specs for f in (sp[0], sp[2]))
        self.assume_invariants(entry)
        pre = self.engine.pre.get(b.path) if self.engine is not None else None
        if pre:
            self._apply_summary(entry, pre, {i: {"l": i, "p": [["*"]]} for i in range(1, b.nargs + 1)}, {"l": 0})
        self.parts = set()
        self.parts = self._find_part_locals()
        live = self._liveness(self.parts) if self.parts else None
        self.pstate_in = {0: {(): entry}}
        visits = {}
        work = [0]
        inq = {0}
        order = {}
        stack = [(0, iter(b.succs(0, unwind=False)))]
        order[0] = 0
        onstack = {0}
        heads = set()
        while stack:
            x, it = stack[-1]
            adv = False
            for sx in it:
                if sx in onstack:
                    heads.add(sx)
                elif sx not in order:
                    order[sx] = len(order)
                    onstack.add(sx)
                    stack.append((sx, iter(b.succs(sx, unwind=False))))
                    adv = True
                    break
            if not adv:
                onstack.discard(x)
                stack.pop()
        self.heads = heads
        steps = 0
        self.gave_up = False
        while work:
            work.sort(key=lambda x: -order.get(x, 0))
            bi = work.pop()
            inq.discard(bi)
            steps += 1
            if steps > 20000:
                self.gave_up = True
                break
            for tgt, zz, key in self._flow_block(bi, bi in heads):
                if live is not None:
                    key = {l: v for l, v in key.items() if l in live[tgt]}
                kk = tuple(sorted(key.items(), key=lambda kv: kv[0]))
                cur = self.pstate_in.setdefault(tgt, {})
                if len(cur) >= 12 and kk not in cur:
                    # too many partitions: fold everything that is not about the return place
                    kk = tuple((l, v) for l, v in kk if l == 0)
                    merged = {}
                    for k0, z0 in cur.items():
                        k1 = tuple((l, v) for l, v in k0 if l == 0)
                        if k1 in merged:
                            self._touch_both(merged[k1], z0)
                            merged[k1] = join(merged[k1], z0)
                        else:
                            merged[k1] = z0
                    self.pstate_in[tgt] = cur = merged
                old = cur.get(kk)
                if old is None:
                    cur[kk] = zz
                else:
                    self._touch_both(old, zz)
                    if zz.leq(old):
                        continue
                    j = join(old, zz)
                    if tgt in heads:
                        visits[(tgt, kk)] = visits.get((tgt, kk), 0) + 1
                        if visits[(tgt, kk)] > 2:
                            j = widen(old, j)
                    cur[kk] = j
                if tgt not in inq:
                    inq.add(tgt)
                    work.append(tgt)
        # final pass: states before terminators, invariant obligations
        self.inv_failures = []
        self.pre_failures = []
        self.post_failures = []
        for bi in list(self.pstate_in):
            outs = []
            for kk, zin in self.pstate_in[bi].items():
                z = zin.copy()
                z.close()
                key = dict(kk)
                for si, st in enumerate(b.blocks[bi]["s"]):
                    self._check_agg_inv(z, bi, si, st)
                    self.stmt(z, st)
                    key = self._key_stmt(key, st)
                outs.append((key, z))
            self.state_at_term[bi] = outs
            t = b.blocks[bi]["t"]
            if t["k"] == "return" and self.engine is not None and b.path in self.engine.post and not t.get("cleanup"):
                lt = self.len_term_of_place({"l": 0})
                for key, z in outs:
                    if z.bottom:
                        continue
                    for i in self.engine.post[b.path]:
                        if not (lt and z.entails("_%d" % i, lt, 0)):
                            self.post_failures.append((bi, i))
            if t["k"] == "call" and self.engine is not None and b.callee(t) in self.engine.pre and not t.get("cleanup"):
                amap = self._arg_places(t)
                for key, z in outs:
                    if z.bottom:
                        continue
                    for xs, ys, c in self.engine.pre[b.callee(t)]:
                        ok = self._entails_spec(z, xs, ys, c, amap)
                        if not ok:
                            self.pre_failures.append((bi, b.callee(t), (xs, ys, c)))
            if self.is_inv_writer and not t.get("cleanup"):
                if t["k"] == "return":
                    for key, z in outs:
                        for adt, spec, l in self.check_invariants(z):
                            if 1 <= l <= b.nargs:
                                self.inv_failures.append((bi, "return", adt, spec))
                elif t["k"] == "call" and b.callee(t) in self.F.heads:
                    po = self._passes_object(t)
                    for l in po:
                        for key, z in outs:
                            for adt, spec, _ in self.check_invariants(z, only_local=l):
                                self.inv_failures.append((bi, "call " + (b.callee_q(t) or "?").rsplit("::", 1)[-1], adt, spec))

    def _check_agg_inv(self, z, bi, si, st):
        rv = st["rv"]
        if rv["k"] != "agg" or rv.get("agg") != "adt" or rv.get("adt") not in self.inv or z.bottom:
            return
        adt = rv["adt"]
        fields = rv.get("fields") or []
        ops = dict(zip(fields, rv["ops"]))
        for spec in self.inv[adt]:
            fx, kx, fy, ky, c = spec

            def val(f, kind):
                o = ops.get(f)
                if o is None:
                    return None
                if kind == "len":
                    p = op_place(o)
                    if p is None:
                        return None
                    t = self.len_term_of_place(p)
                    if t:
                        self._touch(z, t)
                    return (t, 0) if t else None
                return self.lin(z, o, "usize")
            x, y = val(fx, kx), val(fy, ky)
            if x is None or y is None or not z.entails(x[0], y[0], c - x[1] + y[1]):
                self.inv_failures.append((bi, "construction", adt, spec))

    def _flow_block(self, bi, is_head):
        b = self.b
        out = []
        for kk, zin in list(self.pstate_in[bi].items()):
            z = zin.copy()
            if is_head:
                z.close()
            key = dict(kk)
            for st in b.blocks[bi]["s"]:
                self.stmt(z, st)
                key = self._key_stmt(key, st)
            out.extend(self.pedges(bi, z, key))
        return out

    def states_at(self, bi):
        """[(partition key, zone)] before the terminator of bi; None if the block is unreachable."""
        return self.state_at_term.get(bi)

    def _touch_both(self, a, c):
        if a.bottom or c.bottom:
            return
        for v in a.vars() | c.vars():
            if self.info.get(v, {}).get("unsigned"):
                self._touch(a, v)
                self._touch(c, v)

    # ------------------------------------------------------------------ summaries
    def export_summary(self):
        """{tag: [(xspec, yspec, c)]}: constraints over memory reached through the arguments (and fields of the returned
        value) that hold whenever the body returns with `_0` built as variant `tag` (None: any / unknown variant)."""
        b = self.b
        per_tag = {}
        for bi, outs in self.state_at_term.items():
            t = b.blocks[bi]["t"]
            if t["k"] != "return" or t.get("cleanup"):
                continue
            for key, z in outs:
                if z.bottom:
                    continue
                tag = key.get(0)
                if tag in per_tag:
                    self._touch_both(per_tag[tag], z)
                    per_tag[tag] = join(per_tag[tag], z)
                else:
                    per_tag[tag] = z.copy()
        out = {}
        for tag, z in per_tag.items():
            specs = {}
            if "_0" in self.info and b.locals[0] in WIDTH:
                specs["_0"] = ("m", 0, [], self.info["_0"]["unsigned"])       # a scalar return value
            for name, i in self.info.items():
                base = i["base"]
                pl = i.get("place")
                if pl is None:
                    continue
                if base == 0 and name.startswith("m:"):
                    specs[name] = ("m", 0, list(place_proj(pl)), i["unsigned"])
                elif 1 <= base <= b.nargs and self._ndefs.get(base, 0) == 0 and place_proj(pl) and place_proj(pl)[0][0] == "*":
                    kind = "len" if name.startswith("len:") else ("m" if name.startswith("m:") else None)
                    if kind is None:
                        continue
                    specs[name] = (kind, base, list(place_proj(pl))[1:], i["unsigned"])
            cons = []
            names = set(specs) | {ZERO}
            for x, r in z.row.items():
                if x not in names:
                    continue
                for y, c in r.items():
                    if y not in names:
                        continue
                    if x == ZERO and specs.get(y, (0, 0, 0, False))[3] and c >= 0:
                        continue     # 0 <= unsigned term: implicit
                    cons.append((specs.get(x), specs.get(y), c))
            out[tag] = cons
        return out


def _common(summ):
    """constraints present (at least as strong) in every tag's list"""
    lists = list(summ.values())
    if not lists:
        return []
    first = lists[0]
    out = []
    for (x, y, c) in first:
        cmax = c
        ok = True
        for other in lists[1:]:
            m = [c2 for (x2, y2, c2) in other if _spec_eq(x2, x) and _spec_eq(y2, y)]
            if not m:
                ok = False
                break
            cmax = max(cmax, min(m))
        if ok:
            out.append((x, y, cmax))
    return out


def _spec_eq(a, c):
    if a is None or c is None:
        return a is None and c is None
    return a[0] == c[0] and a[1] == c[1] and a[2] == c[2]


class Engine:
    """Caches per-body analyses and callee summaries for one facts set."""

    def __init__(self, facts, program, len_alias=None, invariants=None, max_blocks=1500, preconditions=None, postconditions=None):
        self.ctx_summ = {}
        self.pre = preconditions or {}     # callee path -> [(xspec, yspec, c)] assumed at entry, checked at every call site
        self.post = postconditions or {}   # callee path -> [arg index i]: len(returned Vec) >= argument i; checked at returns
        self.F = facts
        self.P = program
        self.len_alias = len_alias or {}
        self.inv = invariants or {}
        self.cache = {}
        self.summ = {}
        self.busy = set()
        self.max_blocks = max_blocks

    def analysis(self, path):
        a = self.cache.get(path)
        if a is None:
            b = self.F.body(path)
            self.busy.add(path)
            try:
                a = Analysis(b, self.P, self.F, self.len_alias, engine=self, invariants=self.inv)
            finally:
                self.busy.discard(path)
            self.cache[path] = a
        return a

    def _summarizable(self, path):
        h = self.F.heads.get(path)
        if h is None or h.get("bkind") not in ("fn",):
            return False
        return True

    def summary(self, path):
        if path in self.summ:
            return self.summ[path]
        if path in self.busy or not self._summarizable(path):
            return None
        b = self.F.body(path)
        if b is None or len(b.blocks) > self.max_blocks:
            self.summ[path] = None
            return None
        a = self.analysis(path)
        if a.gave_up:
            self.summ[path] = None
            return None
        sm = a.export_summary()
        if not any(sm.values()):
            sm = None
        self.summ[path] = sm
        return sm

    def summary_ctx(self, path, rel):
        """Summary of a callee analysed from an entry state that satisfies `rel` (what the caller's state entails about the
        arguments at one call site): one level of context sensitivity for small private helpers."""
        key = (path, tuple(sorted(rel, key=str)))
        if key in self.ctx_summ:
            return self.ctx_summ[key]
        if path in self.busy or not self._summarizable(path):
            return None
        b = self.F.body(path)
        if b is None or len(b.blocks) > 80:
            self.ctx_summ[key] = None
            return None
        self.busy.add(path)
        try:
            a = Analysis(b, self.P, self.F, self.len_alias, engine=self, invariants=self.inv, entry_rel=list(rel))
        finally:
            self.busy.discard(path)
        sm = None if a.gave_up else a.export_summary()
        if sm is not None and not any(sm.values()):
            sm = None
        self.ctx_summ[key] = sm
        return sm

    def has_variant_summary(self, path):
        sm = self.summary(path)
        return bool(sm) and any(tag is not None for tag in sm)


def divisor_of_assert(b, bi):
    """The divisor operand tested by a DivisionByZero / RemainderByZero assert: its condition is `Eq(divisor, 0)`
    computed in the same block."""
    t = b.blocks[bi]["t"]
    p = op_place(t["cond"])
    if p is None or place_proj(p):
        return None
    for s in reversed(b.blocks[bi]["s"]):
        if not place_proj(s["p"]) and s["p"]["l"] == p["l"]:
            rv = s["rv"]
            if rv["k"] == "bin" and rv["op"] == "Eq" and const_int(rv["b"]) == 0:
                return rv["a"]
            return None
    return None


def _is_shared_ref(ty):
    if not ty.startswith("&"):
        return False
    rest = ty[1:].lstrip()
    if rest.startswith("'"):
        rest = rest.split(" ", 1)[1] if " " in rest else ""
    return not rest.startswith("mut ")


def _rv_operands(rv):
    k = rv["k"]
    if k in ("use", "repeat", "cast"):
        return [rv["o"]]
    if k == "bin":
        return [rv["a"], rv["b"]]
    if k == "un":
        return [rv["a"]]
    if k == "agg":
        return rv["ops"]
    return []
