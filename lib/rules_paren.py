"""PAREN / SEP / sibling-printer rules (C09, C16, C24).

Grammar side: admissible child kinds per (parent kind, position) derived from the MIR of the recursive
descent functions `Parser::parse_*` by reaching definitions. Printer side: for every (parent, sub-kind,
position, child kind, export flag) whether `stringify` (or `to_string_moved`) wraps the recursive call's
result in parentheses, derived with the finite-domain path interpreter. Obligation per cell:
child not admissible without parentheses => wrapped."""
from mir import (arm_region, defs_reaching, enum_switches, op_place, place_proj, place_str, reaching_defs)
from pathx import Interp, UNKNOWN

NODE = "ironcalc_base::expressions::parser::Node"
PARSER = "ironcalc_base::expressions::parser::Parser"
TOKEN = "ironcalc_base::expressions::token::TokenType"

GRAMMAR_FNS = ["parse_expr", "parse_concat", "parse_term", "parse_factor", "parse_prod", "parse_power", "parse_range",
               "parse_implicit", "parse_primary", "parse_lambda"]


# ------------------------------------------------------------------------------------------------ grammar
class Grammar:
    def __init__(self, ck, F):
        self.F = F
        self.bodies = {}
        for fn in GRAMMAR_FNS:
            self.bodies[fn] = ck.need(F.one, "parser::Parser::" + fn)
        self.rd = {fn: reaching_defs(b) for fn, b in self.bodies.items()}
        self.paren_calls = self._paren_region()
        self.ret_atoms = {fn: self._returns(fn) for fn in GRAMMAR_FNS}
        self.returns = self._fix()
        self.cons = self._constructions()

    def _paren_region(self):
        """Blocks of parse_primary inside the LeftParenthesis arm (a parenthesised sub-expression)."""
        b = self.bodies["parse_primary"]
        out = set()
        for bi, tg, wild, info in enum_switches(b, TOKEN):
            for v in ("LeftParenthesis",):
                if v in tg:
                    out |= arm_region(b, bi, tg[v])
        return out

    def _atoms(self, fn, bi, si, op, depth=0, seen=None):
        """Value sources of a Node-typed operand at a program point: ('kind', K, sub) | ('call', parse_g) | ('other', ..)."""
        b = self.bodies[fn]
        if seen is None:
            seen = set()
        if depth > 30:
            return {("other", "depth")}
        p = op_place(op)
        if p is None:
            return {("other", "const")}
        if place_proj(p):
            # projections of other nodes (e.g. moving a child out): treat as other
            return {("other", "proj")}
        l = p["l"]
        nv = self._narrow(fn, bi, l)
        if nv is not None:
            return {("kind", nv, None)}
        out = set()
        for d in defs_reaching(b, self.rd[fn], bi, si, l):
            if (fn, d) in seen:
                continue
            seen.add((fn, d))
            if d[0] == "arg":
                out.add(("other", "arg"))
                continue
            dbi, dsi = d
            if dsi == "t":
                t = b.blocks[dbi]["t"]
                q = b.callee_q(t) or ""
                last = q.rsplit("::", 1)[-1]
                if q.startswith(PARSER + "::parse_"):
                    if fn == "parse_primary" and dbi in self.paren_calls:
                        out.add(("paren", last))
                    else:
                        out.add(("call", last))
                elif last in ("new",) and "Box" in q:
                    out |= self._atoms(fn, dbi, "t", t["args"][0], depth + 1, seen)
                elif last in ("clone", "into", "from", "unwrap", "expect"):
                    out |= self._atoms(fn, dbi, "t", t["args"][0], depth + 1, seen)
                else:
                    out.add(("other", q))
                continue
            rv = b.blocks[dbi]["s"][dsi]["rv"]
            if rv["k"] == "use":
                out |= self._atoms(fn, dbi, dsi, rv["o"], depth + 1, seen)
            elif rv["k"] == "agg" and rv.get("agg") == "adt" and rv["adt"] == NODE:
                out.add(("kind", rv["variant"], self._subkind(fn, dbi, dsi, rv)))
            else:
                out.add(("other", rv["k"]))
        return out

    def _narrow(self, fn, bi, local):
        """If block bi is dominated by the arm `V` of a match on the discriminant of `local` itself, the value
        there can only be of kind V (the `if let Node::ParseErrorKind {..} = t { return t }` idiom)."""
        b = self.bodies[fn]
        if not hasattr(self, "_sw"):
            self._sw = {}
        if fn not in self._sw:
            self._sw[fn] = []
            for sb, tg, wild, info in enum_switches(b, NODE):
                pl = info["place"]
                if not place_proj(pl):
                    self._sw[fn].append((sb, pl["l"], tg))
        for sb, l, tg in self._sw[fn]:
            if l != local:
                continue
            for v, tb in tg.items():
                if v is None:
                    continue
                if len(b.preds(tb)) == 1 and b.dominates(tb, bi):
                    return v
        return None

    def _subkind(self, fn, bi, si, rv):
        b = self.bodies[fn]
        if "kind" not in rv.get("fields", []):
            return None
        op = rv["ops"][rv["fields"].index("kind")]
        r = b.trace(op)
        if r["kind"] == "rv" and r["rv"]["k"] == "agg":
            return r["rv"].get("variant")
        if r["kind"] == "const":
            d = str(r["const"].get("v", r["const"].get("d")))
            return d.rsplit("::", 1)[-1]
        return None   # runtime operator: any sub-kind

    def _returns(self, fn):
        b = self.bodies[fn]
        out = set()
        for rb in b.return_blocks():
            out |= self._atoms(fn, rb, "t", {"c": {"l": 0}})
        return out

    def _fix(self):
        ret = {fn: {a for a in self.ret_atoms[fn] if a[0] == "kind"} for fn in GRAMMAR_FNS}
        changed = True
        while changed:
            changed = False
            for fn in GRAMMAR_FNS:
                for a in self.ret_atoms[fn]:
                    if a[0] == "call" and a[1] in ret:
                        new = ret[fn] | ret[a[1]]
                        if new != ret[fn]:
                            ret[fn] = new
                            changed = True
        return ret

    def expand(self, atoms):
        out = set()
        for a in atoms:
            if a[0] == "kind":
                out.add(a)
            elif a[0] == "call" and a[1] in self.returns:
                out |= self.returns[a[1]]
        return out

    def _constructions(self):
        """{(parent kind, sub-kind, field): set(admissible (kind, sub))} over all Node aggregates with boxed children."""
        out = {}
        for fn, b in self.bodies.items():
            for bi, si, s in b.stmts():
                rv = s["rv"]
                if rv["k"] != "agg" or rv.get("agg") != "adt" or rv["adt"] != NODE:
                    continue
                sub = self._subkind(fn, bi, si, rv)
                for f, o in zip(rv["fields"], rv["ops"]):
                    ty = None
                    p = op_place(o)
                    if p is None:
                        continue
                    lt = b.locals[p["l"]]
                    if not lt.startswith("std::boxed::Box<" + NODE):
                        continue
                    atoms = self._atoms(fn, bi, si, o)
                    adm = self.expand(atoms)
                    key = (rv["variant"], sub, f)
                    out.setdefault(key, set()).update(adm)
                    out.setdefault(("_where", key), set()).add(fn)
        return out

    def admissible(self, parent, sub, field):
        """Set of (kind, sub) admissible without parentheses; sub None in a stored entry means 'any'."""
        res = set()
        found = False
        for (k, v) in self.cons.items():
            if k[0] == "_where":
                continue
            P, S, Fld = k
            if P == parent and Fld == field and (S is None or sub is None or S == sub):
                res |= v
                found = True
        return res if found else None


def kind_matches(adm, kind, sub):
    for (_, K, S) in adm:
        if K == kind and (S is None or sub is None or S == sub):
            return True
    return False


# ------------------------------------------------------------------------------------------------ printer
def decode_template(hexs):
    """rustc's fmt::Arguments template bytes -> list of pieces: str literal | None (placeholder)."""
    b = bytes.fromhex(hexs)
    out = []
    i = 0
    while i < len(b):
        x = b[i]
        if x == 0:
            break
        if x >= 0x80:
            out.append(None)
            i += 1
            # placeholders with explicit specs carry extra bytes; 0xC0 is the plain `{}` form
            continue
        out.append(b[i + 1:i + 1 + x].decode("utf-8", "replace"))
        i += 1 + x
    return out


class Printer:
    """Wrap decisions of a recursive printer over Node (stringify / to_string_moved)."""

    def __init__(self, ck, F, fn_suffix, node_arg="node"):
        self.F = F
        self.b = ck.need(F.one, fn_suffix)
        self.node_arg = node_arg
        self.self_q = self.b.qname
        sw = enum_switches(self.b, NODE)
        # the top-level match: the one on (*node)
        self.top = None
        for bi, tg, wild, info in sw:
            rp = self.b.resolve_place(info["place"], through_named=True)
            if not [e for e in place_proj(rp) if e[0] == "f"] and self.b.local_name(rp["l"]) == node_arg:
                if self.top is None or len(tg) > len(self.top[1]):
                    self.top = (bi, tg, wild)
        if self.top is None:
            from ck import Abort
            ck.anchor("%s: top-level match over Node not found" % fn_suffix)
            raise Abort("no top match")

    def _discr_value(self, rp, parent, sub, child_field, child_kind, child_sub):
        """Tag for a discriminant read of resolved place rp, given the cell being decided."""
        fs = [e for e in place_proj(rp) if e[0] == "f"]
        base_is_node = self.b.local_name(rp["l"]) == self.node_arg
        if not base_is_node:
            return UNKNOWN
        if not fs:
            return ("variant", parent)
        f0 = fs[0]
        if f0[3] == NODE and f0[4] == parent:
            if len(fs) == 1:
                if f0[2] == child_field:
                    return ("variant", child_kind)
                if f0[2] == "kind" and sub is not None:
                    return ("variant", sub)
                return UNKNOWN
            if len(fs) == 2 and f0[2] == child_field and fs[1][3] == NODE and fs[1][2] == "kind" and child_sub is not None:
                return ("variant", child_sub)
        return UNKNOWN

    def decide(self, parent, sub, child_field, child_kind, child_sub, export):
        """Returns set of outcomes {'wrapped','bare','none'} over all paths for the recursive call on child_field.
        The interpreter computes, per path, the *structure* of the returned string: nested format templates
        whose placeholders are recursive-call results; a child is wrapped when its placeholder sits between a
        literal ending in '(' and one starting with ')'."""
        b = self.b
        outer = self

        def deref(interp, v, st, env, depth=0):
            while isinstance(v, tuple) and v and v[0] == "ref" and depth < 6:
                v = interp.eval_place(v[1], st, env)
                depth += 1
            return v

        def hook(interp, t, argv, st, env):
            q = b.callee_q(t) or ""
            last = q.rsplit("::", 1)[-1]
            if q == outer.self_q:
                return ("rec", outer._arg_field(t["args"][0], parent))
            if last in ("new_display", "new_debug") and "Argument" in q:
                return ("disp", deref(interp, argv[0], st, env))
            if q.endswith("fmt::Arguments::new") and len(argv) == 2:
                tpl = deref(interp, argv[0], st, env)
                arr = deref(interp, argv[1], st, env)
                pieces = decode_template(tpl[1]) if isinstance(tpl, tuple) and tpl[0] == "bytes" else None
                vals = arr[1] if isinstance(arr, tuple) and arr[0] == "array" else None
                return ("fmt", pieces, vals)
            if q.endswith("Arguments::from_str") or q.endswith("Arguments::new_const"):
                v = deref(interp, argv[0], st, env)
                return ("fmt", [v[1]] if isinstance(v, tuple) and v[0] == "str" else None, [])
            if last in ("format", "must_use", "clone", "to_string", "to_owned", "into", "from", "deref", "as_str", "borrow", "as_ref"):
                return deref(interp, argv[0], st, env) if argv else UNKNOWN
            if q.endswith("::format_function"):
                return ("call", "format_function")
            return UNKNOWN

        class I2(Interp):
            def eval_rvalue(self, rv, st, env):
                if rv["k"] == "discr":
                    rp = b.resolve_place(rv["p"], through_named=True)
                    v = outer._discr_value(rp, parent, sub, child_field, child_kind, child_sub)
                    if v is not UNKNOWN:
                        return v
                return Interp.eval_rvalue(self, rv, st, env)

        env = {}
        if export is not None:
            env["export_to_excel"] = export
        interp = I2(b, self.F, max_paths=256, max_len=400, call_hook=hook)
        entry = self.top[1].get(parent)
        if entry is None:
            return {"no-arm"}
        paths = interp.run(env, start=entry)
        res = set()
        for p in paths:
            res.add(self._classify_value(p.ret, child_field))
        return res

    def _classify_value(self, v, child_field):
        """'wrapped' | 'bare' | 'none' for the occurrence of ('rec', child_field) inside a format structure."""
        found = []

        def walk(x, wrapped):
            if isinstance(x, tuple) and x:
                if x[0] == "rec":
                    if x[1] == child_field:
                        found.append(wrapped)
                    return
                if x[0] == "disp":
                    walk(x[1], wrapped)
                    return
                if x[0] == "fmt":
                    pieces, vals = x[1], x[2]
                    if pieces is None or vals is None:
                        for y in (vals or []):
                            walk(y, False)
                        return
                    phs = [i for i, pc in enumerate(pieces) if pc is None]
                    for k, y in enumerate(vals):
                        w = False
                        if k < len(phs):
                            i = phs[k]
                            before = pieces[i - 1] if i > 0 and pieces[i - 1] is not None else ""
                            after = pieces[i + 1] if i + 1 < len(pieces) and pieces[i + 1] is not None else ""
                            w = before.endswith("(") and after.startswith(")")
                        # a bare placeholder inherits nothing: only the innermost template decides
                        walk(y, w)
                    return
                if x[0] in ("array", "tuple"):
                    for y in x[1]:
                        walk(y, False)
        walk(v, False)
        if not found:
            return "none"
        if all(found):
            return "wrapped"
        if not any(found):
            return "bare"
        return "mixed"

    def _arg_field(self, op, parent):
        b = self.b
        p = op_place(op)
        if p is None:
            return None
        rp = b.resolve_place(p, through_named=True)
        # through Box deref: (*(*node as P).left) ; or a `&**left` reborrow chain
        rt = b.ref_target(op)
        cands = [rp] + ([b.resolve_place(rt, through_named=True)] if rt is not None else [])
        r = b.trace(op)
        if r["kind"] == "place":
            cands.append(b.resolve_place(r["place"], through_named=True))
        if r["kind"] == "call":
            # as_ref()/deref() on the box
            for a in r["t"]["args"]:
                rr = b.trace(a)
                if rr["kind"] == "place":
                    cands.append(b.resolve_place(rr["place"], through_named=True))
                rt2 = b.ref_target(a)
                if rt2 is not None:
                    cands.append(b.resolve_place(rt2, through_named=True))
        for c in cands:
            fs = [e for e in place_proj(c) if e[0] == "f" and e[3] == NODE]
            if fs and fs[0][4] == parent:
                return fs[0][2]
        return None


# ------------------------------------------------------------------------------------------------ witnesses
LEAF = {"NumberKind": "1", "BooleanKind": "TRUE", "StringKind": "\"a\"", "ReferenceKind": "A1", "RangeKind": "A1:B2",
        "FunctionKind": "SUM(1)", "ErrorKind": "#REF!", "ArrayKind": "{1,2}", "DefinedNameKind": "name"}


def sample_text(kind, sub=None):
    if kind in LEAF:
        return LEAF[kind]
    if kind == "OpSumKind":
        return "1-2" if sub == "Minus" else "1+2"
    if kind == "OpProductKind":
        return "1/2" if sub == "Divide" else "1*2"
    if kind == "OpPowerKind":
        return "1^2"
    if kind == "OpConcatenateKind":
        return "1&2"
    if kind == "CompareKind":
        return "1<2"
    if kind == "UnaryKind":
        return "1%" if sub == "Percentage" else "-1"
    if kind == "OpRangeKind":
        return "A1:INDEX(B:B,2)"
    if kind == "ImplicitIntersection":
        return "@A1:A3"
    if kind == "SpillRangeOperator":
        return "A1#"
    return kind


def witness(parent, sub, field, child, csub):
    c = "(" + sample_text(child, csub) + ")"
    if parent == "OpSumKind":
        op = "-" if sub == "Minus" else "+"
        return "=" + (c + op + "3" if field == "left" else "3" + op + c)
    if parent == "OpProductKind":
        op = "/" if sub == "Divide" else "*"
        return "=" + (c + op + "3" if field == "left" else "3" + op + c)
    if parent == "OpPowerKind":
        return "=" + (c + "^3" if field == "left" else "3^" + c)
    if parent == "OpConcatenateKind":
        return "=" + (c + "&3" if field == "left" else "3&" + c)
    if parent == "CompareKind":
        return "=" + (c + "=3" if field == "left" else "3=" + c)
    if parent == "UnaryKind":
        return "=" + (c + "%" if sub == "Percentage" else "-" + c)
    if parent == "OpRangeKind":
        return "=" + (c + ":A2" if field == "left" else "A1:" + c)
    if parent == "ImplicitIntersection":
        return "=@" + c
    if parent == "SpillRangeOperator":
        return "=" + c + "#"
    return "?"


OPERATOR_PARENTS = {"CompareKind", "OpConcatenateKind", "OpSumKind", "OpProductKind", "OpPowerKind", "UnaryKind", "OpRangeKind",
                    "ImplicitIntersection", "SpillRangeOperator"}

SUBKINDS = {"OpSumKind": ["Add", "Minus"], "OpProductKind": ["Times", "Divide"], "UnaryKind": ["Minus", "Percentage"]}

# exact associativity: re-association cannot change the value (string concatenation)
ASSOC_EXEMPT = {("OpConcatenateKind", "right", "OpConcatenateKind"): "string concatenation is exactly associative: a&(b&c) = (a&b)&c"}


def paren_rule(ck, F, rule, printer_fn, node_arg="node", exports=(False, True), known_prefix=None):
    G = Grammar(ck, F)
    Pr = Printer(ck, F, printer_fn, node_arg)
    adt = F.adt("parser::Node")
    kinds = [v["name"] for v in adt["variants"]]
    # sanity of the derived grammar: floors counted on the pinned tree
    ncons = len([k for k in G.cons if k[0] != "_where"])
    ck.ob(rule, "grammar|constructions", ncons >= 12, "derived only %d (parent, field) constructions from the parser" % ncons)
    ck.note("grammar_returns", {fn: sorted({a[1] for a in G.returns[fn]}) for fn in GRAMMAR_FNS})
    cells = 0
    expr_kinds = {(a[1], a[2]) for a in G.returns["parse_expr"]}
    for (key, adm) in sorted((k, v) for k, v in G.cons.items() if k[0] != "_where"):
        parent, psub_static, field = key
        if parent not in OPERATOR_PARENTS:
            continue
        subs = SUBKINDS.get(parent, [None])
        if psub_static is not None:
            subs = [psub_static]
        for sub in subs:
            for child in kinds:
                csubs = SUBKINDS.get(child, [None])
                for csub in csubs:
                    if not any(k == child and (sk is None or csub is None or sk == csub) for k, sk in expr_kinds):
                        continue   # not an expression the parser can produce even inside parentheses
                    admissible = kind_matches(adm, child, csub)
                    for export in exports:
                        cells += 1
                        outcomes = Pr.decide(parent, sub, field, child, csub, export)
                        label = "%s%s.%s<-%s%s%s" % (parent, "(%s)" % sub if sub else "", field, child, "(%s)" % csub if csub else "",
                                                      "|xlsx" if export else "")
                        if outcomes == {"no-arm"}:
                            continue
                        if admissible:
                            ck.ob(rule, label + "|admissible", True, nontrivial=False)
                            continue
                        ex = ASSOC_EXEMPT.get((parent, field, child))
                        if ex:
                            ck.ob(rule, label + "|exempt", True, ex, nontrivial=False)
                            continue
                        ok = outcomes == {"wrapped"}
                        w = witness(parent, sub, field, child, csub)
                        ck.ob(rule, label, ok,
                              "printer emits %s under %s.%s %s but the grammar cannot produce that child there without parentheses: %s changes meaning when printed and parsed back"
                              % (child + ("(%s)" % csub if csub else ""), parent + ("(%s)" % sub if sub else ""), field, sorted(outcomes), w),
                              Pr.b.file, Pr.b.line, sample={"cell": label, "outcomes": sorted(outcomes), "witness": w})
    ck.note("cells", cells)
    return G, Pr


# ------------------------------------------------------------------------------------------------ literals
def lit_rule(ck, F):
    """LIT: Display of OpSum/OpProduct/OpCompare/OpUnary and the lexer's character dispatch are inverse."""
    from tabx import match_table
    from pathx import parse_char_literal
    R = "LIT"
    nt = ck.need(F.one, "expressions::lexer::Lexer::next_token")
    # lexer: char -> operator aggregate constructed on the straight line from the switch target
    char_sw = [bi for bi, blk in enumerate(nt.blocks) if blk["t"]["k"] == "switch" and blk["t"]["ty"] == "char"]
    lex = {}
    from tabx import collect, straight_line
    for bi in char_sw:
        t = nt.term(bi)
        for v, tb in t["targets"]:
            from mir import dominated_by
            region = sorted(dominated_by(nt, tb))[:40]
            c = collect(nt, region)
            ops = [(a.rsplit("::", 1)[-1], var) for a, var in c["variants"] if a.rsplit("::", 1)[-1] in ("OpSum", "OpProduct", "OpCompare", "OpUnary")]
            if ops:
                lex.setdefault(chr(int(v)), []).extend(ops)
    for enum in ("OpSum", "OpProduct", "OpCompare"):
        qn = "<ironcalc_base::expressions::token::%s as std::fmt::Display>::fmt" % enum
        b = ck.need(F.one, qn)
        sw = enum_switches(b, "ironcalc_base::expressions::token::" + enum)
        if len(sw) != 1:
            ck.anchor("Display for %s" % enum)
            continue
        mt = match_table(b, sw[0][0])
        for v, c in sorted(mt.items(), key=lambda x: str(x[0])):
            if v is None:
                ck.ob(R, "%s|no-wildcard" % enum, False, "Display for %s has a wildcard arm" % enum, b.file, b.line)
                continue
            lit = c["strs"][0] if len(c["strs"]) == 1 else None
            ok = lit is not None
            back = None
            if ok:
                first = lit[0]
                cands = lex.get(first, [])
                back = [x for x in cands if x[0] == enum]
                # multi-character comparison operators are assembled by the lexer after the first character
                ok = any(x == (enum, v) for x in back)
            ck.ob(R, "%s::%s|prints-%s" % (enum, v, lit), bool(ok),
                  "%s::%s is printed as %r but the lexer maps %r to %s" % (enum, v, lit, lit[0] if lit else None, back), b.file, b.line,
                  sample={"operator": "%s::%s" % (enum, v), "literal": lit, "lexer": str(back)})


# ------------------------------------------------------------------------------------------------ separators
def sep_rule(ck, F):
    _sep_rule(ck, F)


TOKENTYPE = "ironcalc_base::expressions::token::TokenType"


def _sep_locals(F, body, start, decimal_is_dot, names):
    """Interpret `body` from `start` with `locale.numbers.symbols.decimal == "."` decided, and return the values
    (code points) the locals called `names` end up with."""
    from tabx import describe_operand

    def hook(interp, t, argv, st, env):
        q = body.callee_q(t) or ""
        if q.rsplit("::", 1)[-1] in ("eq", "ne") and len(t["args"]) == 2:
            ds = [describe_operand(body, a) for a in t["args"]]
            if any(d[0] == "field" and d[2] == "decimal" for d in ds) and any(d[0] == "str" and d[1] == "." for d in ds):
                return decimal_is_dot if q.endswith("eq") else (not decimal_is_dot)
        return UNKNOWN

    interp = Interp(body, F, max_paths=64, max_len=300, call_hook=hook)
    paths = interp.run({}, start=start)

    def charval(env, v, depth=0):
        # a `char` (code point), a one-character &str, or a reference to either
        if isinstance(v, int) and not isinstance(v, bool):
            return v
        if isinstance(v, tuple) and len(v) == 2 and v[0] == "str" and isinstance(v[1], str) and len(v[1]) == 1:
            return ord(v[1])
        if isinstance(v, tuple) and len(v) == 2 and v[0] == "ref" and isinstance(v[1], dict) and depth < 4:
            pr = v[1].get("p") or []
            if all(e[0] == "*" for e in pr):
                return charval(env, env.get(v[1]["l"], UNKNOWN), depth + 1)
        return None

    out = {}
    if names is None:
        # every local, by index
        for p in paths:
            if not isinstance(p.env, dict):
                continue
            for l, v in p.env.items():
                c = charval(p.env, v)
                if c is not None:
                    out.setdefault(l, set()).add(c)
        return out
    for n in names:
        ls = body.local_by_name(n)
        vals = set()
        for p in paths:
            for l in ls:
                v = p.env.get(l, UNKNOWN) if isinstance(p.env, dict) else UNKNOWN
                c = charval(p.env, v) if isinstance(p.env, dict) else None
                if c is not None:
                    vals.add(c)
        out[n] = vals
    return out


def _lexer_char_tokens(F):
    """{char: set(TokenType variants constructed in the arm the lexer dispatches that char to)}."""
    from tabx import collect
    from mir import dominated_by
    nt = F.one("expressions::lexer::Lexer::next_token")
    out = {}
    for bi, blk in enumerate(nt.blocks):
        t = blk["t"]
        if t["k"] == "switch" and t["ty"] == "char":
            for v, tb in t["targets"]:
                region = sorted(dominated_by(nt, tb))[:60]
                c = collect(nt, region)
                out.setdefault(chr(int(v)), set()).update(var for a, var in c["variants"] if a == TOKENTYPE)
    return out


def _parser_sep_tokens(F):
    """{helper name: {True (decimal is '.'): token, False: token}}"""
    from tabx import chain_table, collect, straight_line
    out = {}
    for fn in ("get_argument_separator_token", "get_column_separator_token"):
        b = F.one("parser::Parser::" + fn)
        ch = chain_table(b)
        d = {}
        for q, ops, coll, ft, bi in ch:
            if any(o[0] == "field" and o[2] == "decimal" for o in ops) and any(o[0] == "str" and o[1] == "." for o in ops):
                tv = [v for a, v in (coll or {}).get("variants", []) if a == TOKENTYPE]
                fv = [v for a, v in collect(b, straight_line(b, ft)).get("variants", []) if a == TOKENTYPE] if ft is not None else []
                if len(tv) == 1:
                    d[True] = tv[0]
                if len(fv) == 1:
                    d[False] = fv[0]
        out[fn] = d
    return out


def _sep_rule(ck, F):
    R = "SEP"
    lex = _lexer_char_tokens(F)
    par = _parser_sep_tokens(F)
    ck.ob(R, "parser|separator-helpers", all(len(par[k]) == 2 for k in par), "could not read the parser's separator tokens: %s" % par)
    # which helper the array grammar uses for rows / elements
    pp = F.one("parser::Parser::parse_primary")
    pr = F.one("parser::Parser::parse_array_row")
    row_helper = "get_column_separator_token" if pp.calls_to("Parser::get_column_separator_token") else None
    el_helper = "get_argument_separator_token" if pr.calls_to("Parser::get_argument_separator_token") else None
    ck.ob(R, "parser|array-grammar-helpers", bool(row_helper and el_helper),
          "array grammar does not use the separator helpers as expected (rows: %s, elements: %s)" % (row_helper, el_helper))
    if not (row_helper and el_helper):
        return
    printers = [("stringify", F.one("stringify::stringify"), "format_function", "stringify::format_function"),
                ("to_string_moved", F.one("move_formula::to_string_moved"), "move_function", "move_formula::move_function")]
    for pname, pb, helper_name, helper_q in printers:
        sw = [x for x in enum_switches(pb, NODE)]
        top = max(sw, key=lambda x: len(x[1]))
        entry = top[1].get("ArrayKind")
        # function arguments: the helper must choose the separator from the locale
        hb = F.one(helper_q)
        for dot in (True, False):
            loc = "decimal '.'" if dot else "decimal ','"
            # the separator is the character-valued local the locale decides: the one whose value differs between the
            # two kinds of locale (found by value, not by name)
            mine = _sep_locals(F, hb, 0, dot, None)
            other = _sep_locals(F, hb, 0, not dot, None)
            got = set()
            for l, vs in mine.items():
                if hb.local_name(l) and len(vs) == 1 and len(other.get(l, ())) == 1 and vs != other[l]:
                    got |= vs
            want = par["get_argument_separator_token"].get(dot)
            toks = set()
            for v in got:
                toks |= lex.get(chr(v), set())
            ok = len(got) == 1 and want in toks
            ck.ob(R, "%s|function arguments|%s" % (pname, loc), ok,
                  "%s (%s) separates function arguments with %s in a locale with %s; the parser expects %s there"
                  % (pname, helper_name, [chr(v) for v in got] or "a hard-coded literal", loc, want), hb.file, hb.line,
                  sample={"printer": pname, "role": "function arguments", "locale": loc, "char": [chr(v) for v in got], "parser_expects": want})
    # every list a printer joins is an argument list: its separator is the locale's argument separator in every arm
    from rules_panic import _const_str as _cs
    for pname, pb, _, _ in printers:
        sw = [x for x in enum_switches(pb, NODE)]
        top = max(sw, key=lambda x: len(x[1]))
        nj = 0
        for var, entry in sorted(top[1].items()):
            region = arm_region(pb, top[0], entry)
            joins = [bi for bi in sorted(region) if pb.term(bi)["k"] == "call" and (pb.callee_q(pb.term(bi)) or "").rsplit("::", 1)[-1] == "join"
                     and len(pb.term(bi)["args"]) == 2]
            if not joins:
                continue
            for dot in (True, False):
                loc = "decimal '.'" if dot else "decimal ','"
                vals = _sep_locals(F, pb, entry, dot, None)
                want = par["get_argument_separator_token"].get(dot)
                for k, bi in enumerate(joins, 1):
                    a = pb.term(bi)["args"][1]
                    v1 = _emitted_value(pb, a, vals, _cs, None)
                    got = {v1} if v1 is not None else set()
                    toks = set()
                    for v in got:
                        toks |= lex.get(chr(v), set())
                    nj += 1
                    f, l = pb.loc(bi)
                    ck.ob(R, "%s|%s|join#%d|%s" % (pname, var, k, loc), len(got) == 1 and want in toks,
                          "%s, arm %s: joins its arguments with %s in a locale with %s; the parser expects %s there (the lexer reads it as %s): "
                          "the printed call does not parse back to the same arguments" % (pname, var, [chr(v) for v in got] or "an undetermined separator", loc, want, sorted(toks)),
                          f, l, sample={"printer": pname, "arm": var, "locale": loc, "char": [chr(v) for v in got]})
        ck.ob(R, "%s|joined-argument-lists" % pname, nj >= 4, "%s: expected the LAMBDA definition and call arms to join argument lists, found %d joins" % (pname, nj), pb.file, pb.line)
    # array nesting: what is emitted between rows (outer loop) is the row separator, what is emitted between the elements
    # of a row (inner loop, possibly in a helper called from the outer loop) is the element separator, and nothing else
    # (no extra braces) is emitted inside the loops.  Decided on the values the emitted operands take per locale and on
    # the loop depth of the emission, not on variable names.
    from rules_panic import _const_str as _cs2
    for pname, pb, _, _ in printers:
        sw = [x for x in enum_switches(pb, NODE)]
        top = max(sw, key=lambda x: len(x[1]))
        entry = top[1].get("ArrayKind")
        region = arm_region(pb, top[0], entry)
        for dot in (True, False):
            loc = "decimal '.'" if dot else "decimal ','"
            vals = _sep_locals(F, pb, entry, dot, None)
            em = _emissions(F, pb, sorted(region), vals, 0, _cs2)
            inside = [(d, v) for d, v in em if d >= 1]
            depths = sorted({d for d, v in inside})
            want_row = par[row_helper].get(dot)
            want_el = par[el_helper].get(dot)
            ok = len(depths) == 2
            detail = []
            if ok:
                for d, v in inside:
                    toks = lex.get(chr(v), set())
                    want = want_row if d == depths[0] else want_el
                    detail.append((d, chr(v)))
                    if want not in toks:
                        ok = False
            ck.ob(R, "%s|array nesting|%s" % (pname, loc), ok,
                  "%s builds arrays emitting %s (loop depth, character) in a locale with %s: rows (outer loop) must be separated by the "
                  "parser's %s, elements (inner loop) by its %s, and nothing else may be emitted inside the loops (the parser reads {a,b;c,d}, "
                  "not {{a;b},{c;d}})" % (pname, sorted(set((d, chr(v)) for d, v in inside)), loc, want_row, want_el), pb.file, pb.line,
                  sample={"printer": pname, "locale": loc, "emissions": [[d, chr(v)] for d, v in inside]})


def _emissions(F, body, blocks, vals, base_depth, cs, argmap=None, depth=0):
    """[(loop depth, code point)] of the single characters a printer emits (String::push / push_str / join with a constant
    or locale-decided operand) in `blocks`, following crate helpers one level with their parameters bound to the values of
    the caller's arguments."""
    out = []
    for bi in blocks:
        t = body.term(bi)
        if t["k"] != "call":
            continue
        q = body.callee_q(t) or ""
        last = q.rsplit("::", 1)[-1]
        d = base_depth + body.loop_depth(bi)
        if last == "join":
            d += 1          # the pieces a join separates are one nesting level below the statement that joins them
        if last in ("push", "push_str", "join") and len(t["args"]) == 2 and ("String" in q or "str" in q or "slice" in q or "Join" in q):
            v = _emitted_value(body, t["args"][1], vals, cs, argmap)
            if v is not None:
                out.append((d, v))
            continue
        c = body.callee(t)
        if depth == 0 and c in F.heads and F.has(c) and F.heads[c].get("crate") == "ironcalc_base":
            hb = F.body(c)
            if hb.path == body.path or hb.qname.rsplit("::", 1)[-1] in ("stringify", "to_string_moved", "to_string_array_node", "to_string_array_node_moved"):
                continue
            am = {}
            for i, a in enumerate(t["args"]):
                v = _emitted_value(body, a, vals, cs, argmap)
                if v is not None:
                    am[i + 1] = v
            hblocks = [x for x in range(len(hb.blocks)) if not hb.is_cleanup(x)]
            out += _emissions(F, hb, hblocks, {}, d, cs, am, depth + 1)
    return out


def _emitted_value(body, a, vals, cs, argmap):
    lit = cs(body, a)
    if lit is not None:
        return ord(lit) if len(lit) == 1 else None
    k = a.get("k") if isinstance(a, dict) else None
    if k is not None:
        v = k.get("v", k.get("d")) if isinstance(k, dict) else None
        ty = k.get("ty") if isinstance(k, dict) else None
        if ty == "char" and v is not None:
            try:
                return int(v)
            except (TypeError, ValueError):
                return None
        return None
    pl = op_place(a)
    if pl is None or place_proj(pl):
        return None
    l = pl["l"]
    # a one-character String/&str made from a char (`sep.to_string()`, `String::from(sep)`, `&*s`, `s.as_str()`): the char
    tr = body.trace(a)
    for _ in range(4):
        if tr["kind"] != "call":
            break
        q = (body.callee_q(tr["t"]) or "").rsplit("::", 1)[-1]
        if q in ("to_string", "from", "into", "deref", "as_str", "as_ref", "borrow", "to_owned", "clone") and tr["t"]["args"]:
            v = _emitted_value(body, tr["t"]["args"][0], vals, cs, argmap)
            if v is not None:
                return v
            tr = body.trace(tr["t"]["args"][0])
            continue
        break
    # follow plain copies back to a parameter / tracked local
    for _ in range(6):
        if argmap is not None and 1 <= l <= body.nargs:
            return argmap.get(l)
        vs = vals.get(l)
        if vs and len(vs) == 1:
            return next(iter(vs))
        rv = body.def_rvalue(l)
        if rv is None or rv["k"] not in ("use", "cast") or op_place(rv["o"]) is None or place_proj(op_place(rv["o"])):
            if rv is not None and rv["k"] == "use" and rv["o"].get("k") is not None:
                return _emitted_value(body, rv["o"], vals, cs, argmap)
            return None
        l = op_place(rv["o"])["l"]
    return None


def _name_field_of(b, op, NODE):
    """Node variant whose `name` field the operand denotes (through refs, copies and Deref/as_str/borrow calls), or None"""
    from mir import place_proj
    cur = op
    for _ in range(8):
        tr = b.trace(cur)
        pl = None
        if tr["kind"] == "place":
            pl = tr["place"]
        elif tr["kind"] == "call":
            q = (b.callee_q(tr["t"]) or "").rsplit("::", 1)[-1]
            if q in ("deref", "as_str", "borrow", "as_ref", "clone", "to_string", "to_owned") and tr["t"]["args"]:
                cur = tr["t"]["args"][0]
                continue
            return None
        else:
            rt = b.ref_target(cur)
            pl = rt
        if pl is None:
            return None
        rp = b.resolve_place(pl, through_named=True)
        for e in place_proj(rp):
            if e[0] == "f" and e[3] == NODE and e[2] == "name" and e[4]:
                return e[4]
        return None
    return None


def ident_case(ck, F, rule="LIT"):
    """Identifiers survive the printer's case folding: the Node kinds whose `name` the printer writes through
    to_lowercase()/to_uppercase() (called LET/LAMBDA variables, named functions) are never compared by exact string
    equality anywhere else in the crate -- every comparison of such a name goes through a case fold on both sides --
    so the stored text (`f(2)` for a variable declared as `F`) still binds after a reload."""
    from mir import op_place, place_proj
    from rules_attr import sources
    NODE = "ironcalc_base::expressions::parser::Node"
    folded = set()
    for path in sorted(F.body_paths()):
        if "stringify" not in path:
            continue
        b = F.body(path)
        for bi, t in b.calls():
            q = (b.callee_q(t) or "").rsplit("::", 1)[-1]
            if q not in ("to_lowercase", "to_uppercase", "to_ascii_lowercase", "to_ascii_uppercase") or not t["args"]:
                continue
            v = _name_field_of(b, t["args"][0], NODE)
            if v:
                folded.add(v)
    ck.ob(rule, "ident-case|folded kinds", len(folded) >= 1, "no case-folded identifier kind found in the printer (anchor lost?)")
    n = 0
    for path in sorted(F.body_paths()):
        h = F.heads[path]
        if h["crate"] != "ironcalc_base" or "/test" in h["file"]:
            continue
        raw = F._raw.get(path, "")
        if '"name"' not in raw:
            continue
        if h.get("impl_trait") and "PartialEq" in str(h.get("impl_trait")):
            continue      # structural equality of whole nodes (derive(PartialEq)) is not a name lookup
        b = F.body(path)
        for bi, t in b.calls():
            q = b.callee_q(t) or ""
            last = q.rsplit("::", 1)[-1]
            if last not in ("eq", "ne") or len(t["args"]) != 2:
                continue
            for a in t["args"]:
                v = _name_field_of(b, a, NODE)
                hit = v if v in folded else None
                if hit:
                    n += 1
                    f, l = b.loc(bi)
                    qn = b.qname.split("::", 1)[-1]
                    ck.ob(rule, "ident-case|%s compares %s.name exactly" % (qn, hit), False,
                          "%s compares the name of a Node::%s with `==`, but the printer writes that name case-folded: after a save/reload "
                          "(or a copy of the displayed formula) a variable declared as `F` and called as `f(..)` no longer binds (#NAME?)" % (qn, hit), f, l)
    ck.ob(rule, "ident-case|no exact comparison of folded names", True, sample={"folded_kinds": sorted(folded), "exact_comparisons": n})
    # the fold used to compare is the fold used to print: the printer lower-cases with the Unicode mapping (to_lowercase), so a
    # helper that decides whether two such names are the same must fold with the Unicode mapping too -- an ASCII-only fold
    # (eq_ignore_ascii_case, to_ascii_lowercase) stops matching `TamaÑo` with the `tamaño` the printer wrote
    UNI, ASC = ("to_lowercase", "to_uppercase"), ("eq_ignore_ascii_case", "to_ascii_lowercase", "to_ascii_uppercase")
    printer_unicode = False
    for path in sorted(F.body_paths()):
        if "stringify" in path:
            b = F.body(path)
            for bi, t in b.calls():
                if (b.callee_q(t) or "").rsplit("::", 1)[-1] in UNI and t["args"] and _name_field_of(b, t["args"][0], NODE):
                    printer_unicode = True
    helpers = {}
    for path in sorted(F.body_paths()):
        h = F.heads[path]
        if h["crate"] != "ironcalc_base" or "/test" in h["file"] or '"name"' not in F._raw.get(path, ""):
            continue
        b = F.body(path)
        for bi, t in b.calls():
            c = b.callee(t)
            last = (b.callee_q(t) or "").rsplit("::", 1)[-1]
            hit = [v for v in (_name_field_of(b, a, NODE) for a in t["args"]) if v in folded]
            if not hit:
                continue
            if last in ASC and printer_unicode:
                f, l = b.loc(bi)
                ck.ob(rule, "ident-case|%s folds %s.name with %s" % (b.qname.split("::", 1)[-1], hit[0], last), False,
                      "%s compares the name of a Node::%s with the ASCII-only %s, but the printer folds it with the Unicode to_lowercase: a name "
                      "with a non-ASCII capital no longer matches its printed form" % (b.qname.split("::", 1)[-1], hit[0], last), f, l)
            if c in F.heads and F.has(c) and (F.heads[c].get("output") or "") == "bool":
                helpers[c] = hit[0]
    for c, kind in sorted(helpers.items()):
        hb = F.body(c)
        calls = {(hb.callee_q(t) or "").rsplit("::", 1)[-1] for _, t in hb.calls()}
        asc = sorted(calls & set(ASC))
        ok = not (printer_unicode and asc)
        ck.ob(rule, "ident-case|%s folds like the printer" % hb.qname.split("::", 1)[-1], ok,
              "%s decides whether two Node::%s names are the same with the ASCII-only %s, but the printer folds them with the Unicode "
              "to_lowercase: `TamaÑo` declared, `tamaño(..)` printed and stored, #NAME? after the reload" % (hb.qname.split("::", 1)[-1], kind, asc),
              hb.file, hb.line, sample={"helper": hb.qname.split("::", 1)[-1], "folds": sorted(calls & (set(ASC) | set(UNI)))})
