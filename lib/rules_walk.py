"""Tree walkers over parser::Node: coverage of child-bearing variants (COVER-walk) and the rename guard (C17)."""
from mir import all_places, arm_region, calls_in, enum_switches, op_place, place_proj

NODE = "ironcalc_base::expressions::parser::Node"


def child_fields(F):
    """{variant: [field,...]} for the Node fields that hold sub-nodes."""
    adt = F.adt("parser::Node")
    out = {}
    for v in adt["variants"]:
        fs = [f["name"] for f in v["fields"] if NODE in f.get("adts", [])]
        if fs:
            out[v["name"]] = fs
    return out


def cover_walk(ck, F, rule, fn_suffix, family=None):
    """Every child-bearing variant has an arm that reads each child field and contains at least as many
    recursive calls as it has child fields; no wildcard arm swallows a child-bearing variant."""
    b = ck.need(F.one, fn_suffix)
    kids = child_fields(F)
    sw = [s for s in enum_switches(b, NODE)]
    if not sw:
        ck.anchor("%s: no match over Node" % fn_suffix)
        return
    bi, tg, wild, info = max(sw, key=lambda s: len(s[1]))
    f, l = b.loc(bi)
    fam = set(family or []) | {b.qname}
    used = {}
    for _bi, si, p, role in all_places(b):
        for e in place_proj(p):
            if e[0] == "f" and e[3] == NODE and e[4] is not None:
                used.setdefault(e[4], set()).add(e[2])
    for v, fs in sorted(kids.items()):
        key = "%s|%s" % (b.name, v)
        if v not in tg:
            ck.ob(rule, key + "|has-arm", not wild and False,
                  "%s has no arm for Node::%s (children %s are not visited%s)" % (b.name, v, fs, "; a wildcard arm swallows it" if wild else ""), f, l)
            continue
        region = arm_region(b, bi, tg[v])
        rec = 0
        for cb, t in calls_in(b, region):
            q = b.callee_q(t)
            if q in fam:
                rec += 1
        missing = [x for x in fs if x not in used.get(v, set())]
        ck.ob(rule, key + "|visits-children", not missing and rec >= len(fs),
              "%s arm for Node::%s reads %s of %s and makes %d recursive call(s)" % (b.name, v, sorted(used.get(v, set()) & set(fs)), fs, rec),
              f, l, sample={"walker": b.name, "variant": v, "children": fs, "recursive_calls": rec})


def _derives_from_arg(body, op, argname, depth=0):
    if depth > 8:
        return False
    r = body.trace(op)
    if r["kind"] == "arg":
        return r.get("name") == argname
    if r["kind"] == "place":
        p = body.resolve_place(r["place"])
        return body.local_name(p["l"]) == argname and 1 <= p["l"] <= body.nargs
    if r["kind"] == "call":
        return any(_derives_from_arg(body, a, argname, depth + 1) for a in r["t"]["args"])
    if r["kind"] == "rv":
        rv = r["rv"]
        if rv["k"] == "agg":
            return any(_derives_from_arg(body, a, argname, depth + 1) for a in rv["ops"])
        if rv["k"] in ("bin",):
            return _derives_from_arg(body, rv["a"], argname, depth + 1) or _derives_from_arg(body, rv["b"], argname, depth + 1)
    return False


def rename_guard(ck, F):
    """GUARD (C17): inside rename_sheet_in_node every store of a value derived from `new_name` into a
    `sheet_name` field is control-dependent on an equality test involving the `sheet_index` parameter."""
    R = "GUARD"
    b = ck.need(F.one, "stringify::rename_sheet_in_node")
    # equality tests on sheet_index: switch blocks whose operand is Eq(x, y) with x or y from arg sheet_index
    tests = []
    for bi, blk in enumerate(b.blocks):
        t = blk["t"]
        if t["k"] != "switch" or t["ty"] != "bool":
            continue
        src = b.trace(t["o"])
        if src["kind"] == "rv" and src["rv"]["k"] == "bin" and src["rv"]["op"] == "Eq":
            if _derives_from_arg(b, src["rv"]["a"], "sheet_index") or _derives_from_arg(b, src["rv"]["b"], "sheet_index"):
                zero = [x for v, x in t["targets"] if v == "0"]
                tests.append((bi, t["otherwise"], zero[0] if zero else None))
    ck.ob(R, "rename_sheet_in_node|has-index-tests", len(tests) >= 2,
          "expected index comparisons for ReferenceKind and RangeKind, found %d" % len(tests), b.file, b.line)
    n = 0
    for bi, si, s in b.stmts():
        fs = [e for e in place_proj(s["p"]) if e[0] == "f"]
        if not fs or fs[-1][2] != "sheet_name" or fs[-1][3] != NODE:
            # also through a `&mut Option<String>` binding: (*sheet_name) = ..
            p = b.resolve_place(s["p"], through_named=True)
            fs = [e for e in place_proj(p) if e[0] == "f"]
            if not fs or fs[-1][2] != "sheet_name" or fs[-1][3] != NODE:
                continue
        variant = fs[-1][4]
        rv = s["rv"]
        ops = [rv["o"]] if rv["k"] == "use" else rv.get("ops", [])
        renames = any(_derives_from_arg(b, o, "new_name") for o in ops)
        if not renames:
            ck.ob(R, "rename_sheet_in_node|%s|stores-own-name" % variant, True, nontrivial=False)
            continue
        n += 1
        ok = False
        for tb, t_t, f_t in tests:
            if b.dominates(t_t, bi) and (f_t is None or bi not in b.reachable_from(f_t, avoid={tb})):
                ok = True
        f, l = b.loc(bi, si)
        ck.ob(R, "rename_sheet_in_node|%s|rename-guarded-by-index" % variant, ok,
              "Node::%s: the new sheet name is stored without comparing the node's sheet index with the renamed sheet "
              "(renaming any sheet rewrites every such reference)" % variant, f, l,
              sample={"variant": variant, "guarded": ok})
    ck.ob(R, "rename_sheet_in_node|rename-sites", n >= 2, "found %d rename stores, expected at least ReferenceKind and RangeKind" % n, b.file, b.line)


def names_rules(ck, F):
    """C32: renaming / re-parsing of defined names."""
    from effects import Program
    from rules_attr import sources
    R = "NAMES"
    P = Program(F)
    # every Node variant that carries a name resolved against the defined names is handled by the rename walker
    b = ck.need(F.one, "stringify::rename_defined_name_in_node")
    used = {}
    for _bi, si, p, role in all_places(b):
        for e in place_proj(p):
            if e[0] == "f" and e[3] == NODE and e[4] is not None:
                used.setdefault(e[4], set()).add(e[2])
    ck.ob(R, "rename_defined_name_in_node|DefinedNameKind", "DefinedNameKind" in used,
          "the rename walker never touches Node::DefinedNameKind", b.file, b.line, sample={"variant": "DefinedNameKind", "fields": sorted(map(str, used.get("DefinedNameKind", [])))})
    ck.ob(R, "rename_defined_name_in_node|NamedFunctionKind.name", "name" in used.get("NamedFunctionKind", set()),
          "the rename walker ignores the name of Node::NamedFunctionKind: a LAMBDA-valued defined name that is *called* (=MyName(1)) keeps its old "
          "name in every formula after the name is renamed and evaluates to #NAME?", b.file, b.line,
          sample={"variant": "NamedFunctionKind", "fields_read": sorted(used.get("NamedFunctionKind", set()))})
    # update_defined_name rewrites the formulas of every worksheet and re-parses afterwards
    u = ck.need(F.one, "model::Model::update_defined_name")
    stores = []
    for bi, si, s in u.stmts():
        if place_proj(s["p"]) and s["rv"]["k"] == "use":
            p = u.resolve_place(s["p"], through_named=True)
            fs = [e for e in place_proj(p) if e[0] == "f"]
            if fs and fs[-1][2] == "shared_formulas":
                stores.append((bi, si, p))
    ck.ob(R, "update_defined_name|rewrites-shared_formulas", len(stores) == 1, "expected one store into shared_formulas, found %d" % len(stores), u.file, u.line)
    for bi, si, p in stores:
        # the worksheet being stored into comes from an iteration over workbook.worksheets
        sr = sources(u, {"c": {"l": p["l"]}})
        ok = any(x[0] == "field" and x[2] == "worksheets" for x in sr)
        ck.ob(R, "update_defined_name|every-worksheet", ok,
              "update_defined_name rewrites the formulas of one worksheet (%s), not of every worksheet: uses of the name on other sheets keep the old name" % sorted(map(str, sr)),
              *u.loc(bi, si), sample={"iterates": sorted(map(str, sr))})
    rs = set(F.find("model::Model::reset_parsed_structures"))
    for fn in ("update_defined_name", "new_defined_name", "delete_defined_name"):
        bb = ck.need(F.one, "model::Model::" + fn)
        calls = bb.calls_to("Model::reset_parsed_structures")
        oks = [bi for bi, si, s in bb.stmts() if s["p"]["l"] == 0 and s["rv"]["k"] == "agg" and s["rv"].get("variant") == "Ok"]
        # every Ok return that follows a write of defined_names passes reset_parsed_structures
        from effects import block_effects
        writes = [bi for bi, es in block_effects(bb.rec, F.adts).items()
                  if any(e[0] == "ironcalc_base::types::DefinedName" or e == ("ironcalc_base::types::Workbook", "defined_names") for e, _ in es)]
        ok = bool(calls) and bool(writes) and all(any(c in bb.reachable_from(w) for c, _ in calls) for w in writes)
        ck.ob(R, "%s|reparses-after-change" % fn, ok, "%s changes workbook.defined_names without reaching reset_parsed_structures" % fn, bb.file, bb.line,
              sample={"fn": fn, "writes": len(writes), "resets": len(calls)})
    # xlsx import re-parses names with an English parser and stores the English printer's output
    h = ck.need(F.one, "ironcalc::import::reparse_formula_hack")
    ok = bool(h.calls_to("new_parser_english")) and bool(h.calls_to("stringify::to_english_string")) and not h.calls_to("stringify::to_localized_string")
    ck.ob(R, "xlsx-import|names-in-English", ok, "xlsx import does not re-parse defined names with the English parser / printer", h.file, h.line)
