"""Property compositions: which rules decide which property."""
import sys
import traceback

from ck import Abort, Check
from facts import AnchorMissing, Facts


def guarded(ck, fn, *a, **kw):
    try:
        return fn(ck, *a, **kw)
    except Abort:
        return None
    except AnchorMissing as e:
        ck.anchor_errors.append(str(e))
        return None


def c01(ck, F, tier):
    import rules_um as um
    ck.explanation = (
        "Static decision of the structural clauses of undo correctness on /repo's current MIR: (ARMS-undo) the match "
        "over Diff in apply_undo_diff_list is exhaustive without wildcard, reads every old_* field of every variant and "
        "no payload new_* field, and iterates the list reversed; (REC) every public &mut-self UserModel operation whose "
        "transitive type-based write effects touch persistent workbook state reaches push_diff_list, and no normal "
        "return is reachable after such a write without passing a push; (COVER-sheet) the DeleteSheet undo arm restores "
        "every persistent Worksheet field. Decides the shape of recording and inversion, not equality of restored values.")
    ck.rule("ARMS-undo", "undo arm per Diff variant: exhaustive, reads all old_*, no payload new_*, reversed iteration", floor=90)
    ck.rule("REC", "ops that write persistent state record a diff on every normal path", floor=40)
    ck.rule("REC-ARGS", "numeric Diff fields agree with the arguments passed to the model mutator of the same name", floor=15)
    guarded(ck, um.arms_undo_redo, F, "undo")
    guarded(ck, um.rec_rule, F)
    guarded(ck, um.rec_args, F)
    ck.rule("REPLAY-ARGS", "replay arms pass the recorded field for every like-named parameter", floor=60)
    guarded(ck, um.replay_args, F)


def c02(ck, F, tier):
    import rules_um as um
    ck.explanation = (
        "Static decision of redo structure: (ARMS-redo) apply_diff_list is exhaustive over Diff, each arm reads every "
        "non-old_ field and no old_* field, forward iteration; (TABLE-history) History::{push,undo,redo} have exactly the "
        "cursor-move stack signature (push: undo_stack.push + redo_stack := empty; undo: pop undo -> push clone on redo -> "
        "Some; redo symmetric); (WMC-history) only history.rs writes the stacks, can_undo/can_redo read their own stack; "
        "(ARMS-pair) sibling arms agree on evaluation and symmetric variants use the same setters.")
    ck.rule("ARMS-redo", "redo arm per Diff variant: exhaustive, reads all non-old fields, no old_*", floor=90)
    ck.rule("TABLE-history", "stack-effect signature of History methods", floor=8)
    ck.rule("WMC-history", "who may write the history stacks / queue", floor=8)
    ck.rule("ARMS-pair", "undo and redo arms agree (evaluation flag, setter family)", floor=46)
    guarded(ck, um.arms_undo_redo, F, "redo")
    guarded(ck, um.table_history, F)
    guarded(ck, um.wmc_stacks, F)
    guarded(ck, um.arms_pair, F)
    guarded(ck, um.replay_pure, F)
    ck.rule("REPLAY-ARGS", "replay arms pass the recorded field for every like-named parameter", floor=60)
    guarded(ck, um.replay_args, F)
    ck.rule("CANON-RECORD", "recorded text that replay re-parses is language-independent", floor=10)
    guarded(ck, um.canon_record, F)


def c03(ck, F, tier):
    import rules_um as um
    ck.explanation = (
        "Static decision of the replication plumbing: (TABLE-queue) push_diff_list appends exactly one Redo-tagged copy to "
        "send_queue and records history once; undo/redo append Undo/Redo after applying; apply_external_diffs dispatches "
        "Redo->apply_diff_list, Undo->apply_undo_diff_list and its transitive effects never write history or send_queue; "
        "flush encodes then empties; (WMC) send_queue writers are exactly those four functions; (REC) an unrecorded "
        "persistent mutation is also an unreplicated one. The queue is a Vec appended in program order, so flush points "
        "cannot reorder it; equality of replica values is not decided.")
    ck.rule("TABLE-queue", "queue tags, ordering and replay dispatch", floor=10)
    ck.rule("WMC-history", "who may write the history stacks / queue", floor=8)
    ck.rule("REC", "ops that write persistent state record (hence replicate) a diff", floor=40)
    ck.rule("QUEUE-APPEND", "outside flush_send_queue the queue is only ever pushed to", floor=3)
    guarded(ck, um.table_queue, F)
    guarded(ck, um.wmc_stacks, F)
    guarded(ck, um.rec_rule, F)
    guarded(ck, um.queue_append_only, F)
    ck.rule("REPLAY-ARGS", "replay arms pass the recorded field for every like-named parameter", floor=60)
    guarded(ck, um.replay_args, F)
    ck.rule("CANON-RECORD", "recorded text that replay re-parses is language-independent", floor=10)
    guarded(ck, um.canon_record, F)

    ck.rule("EFFECT-PARITY", "tables an operation writes are tables its replay arms can write", floor=40)
    guarded(ck, um.effect_parity, F)


def c04(ck, F, tier):
    import rules_um as um
    ck.explanation = (
        "Static decision of the ordering clause of atomicity: (PUSH-LAST) in every fallible UserModel operation no error "
        "exit (`?` residual, explicit Err, or tail call whose callee can return Err) is reachable in the CFG after the "
        "history record was pushed; (VALIDATE-FIRST) in the six structural Model operations the can_* pre-check dominates the "
        "first persistent write and no explicit error is constructed after it. Does not decide partial edits inside loops of "
        "fallible mutations.")
    ck.rule("PUSH-LAST", "no Err exit reachable after push_diff_list", floor=30)
    ck.rule("VALIDATE-FIRST", "structural model operations construct no error after their first persistent write", floor=12)
    guarded(ck, um.push_last, F)
    import rules_struct as rs
    guarded(ck, rs.validate_first, F)
    guarded(ck, rs.validate_first_wide, F)


def c23(ck, F, tier):
    import rules_names as rn
    from tables import load_tables
    ck.explanation = (
        "Exhaustive static decision of the name codecs: (TABLE-code) Functions::lookup (field->variant, extracted from its "
        "if-chain) is a bijection between the fields of language::Functions and the variants of Function; "
        "to_localized_name (variant->field, from its match) is its inverse cell by cell; into_iter lists every variant "
        "once; evaluate_function has an arm per variant and no wildcard; to_xlsx_string literals minus the _xlfn prefixes "
        "equal the English name of their own variant and parse_primary strips those prefixes; (TABLE-data) per language, on "
        "the decoded language.bin: names pairwise distinct, fixed points of to_uppercase, single identifier tokens under the "
        "lexer's identifier class read from consume_identifier, booleans do not clash, error names distinct and none a "
        "prefix of one tested later by consume_error; (TABLE-errors) the four error codecs are mutually inverse and the "
        "Display/xlsx form parses back.")
    ck.rule("TABLE-code", "function name codec tables are mutually inverse bijections", floor=1100, exhaustive=True)
    ck.rule("TABLE-data", "language table data: distinct, uppercase, lexable, prefix-free", floor=7000, exhaustive=True)
    ck.rule("TABLE-errors", "error codecs mutually inverse, Display parses back", floor=60, exhaustive=True)
    ck.trust("generated bitcode decoder for language.bin (types regenerated from the ADT facts of the current tree)")
    T = load_tables(F)
    r = guarded(ck, rn.function_tables, F)
    if r:
        lookup, printer, variants, fields = r
        guarded(ck, rn.xlsx_names, F, printer, T)
        guarded(ck, rn.table_data, F, lookup, printer, T, tier)
        guarded(ck, rn.source_matches_bin, F, T)
    guarded(ck, rn.error_tables, F, T)
    ck.rule("CHAR-UNITS", "lexer positions advance by character counts, never by byte lengths of localized strings", floor=10)
    guarded(ck, rn.char_units, F)
    guarded(ck, rn.error_window, F)


def c26(ck, F, tier):
    import rules_io as io
    ck.explanation = (
        "Structural decision of losslessness of the internal format: (DERIVE-CLOSURE) every local type in the field closure "
        "of types::Workbook derives both bitcode::Encode and bitcode::Decode and no field carries a bitcode attribute; "
        "(BYTES-SHAPE) to_bytes encodes &self.workbook itself with no preprocessing, from_bytes decodes a types::Workbook and "
        "hands it to from_workbook, which cannot return Ok without passing parse_formulas and parse_defined_names, rebuilds the "
        "shared-string index, and builds the Model around the very workbook it was given. bitcode's own correctness is trusted.")
    ck.rule("DERIVE-CLOSURE", "Encode+Decode derived on the whole field closure of Workbook, no skip attributes", floor=100, exhaustive=True)
    ck.rule("BYTES-SHAPE", "shape of to_bytes / from_bytes / from_workbook", floor=7)
    ck.trust("bitcode crate (derive and codec)")
    ck.rule("STORED-EQ-PARSED", "the formula text saved is the text of the tree kept in memory", floor=2)
    guarded(ck, io.derive_closure, F)
    guarded(ck, io.bytes_roundtrip_shape, F)
    guarded(ck, io.stored_eq_parsed, F)
    import rules_paren as rp_
    ck.rule("LIT", "identifiers survive the printer's case folding", floor=2)
    guarded(ck, rp_.ident_case, F)


def c08(ck, F, tier):
    import rules_fin
    from effects import Program
    ck.explanation = (
        "Static decision of the sink discipline: every construction of FormulaValue::Number, SpillValue::Number and "
        "Cell::NumberCell in both crates (derive-generated Clone/Decode excluded) has its f64 operand (i) a literal, "
        "(ii) copied from an already stored number field, or (iii) dominated by an is_nan/is_infinite/is_finite test on the "
        "same value whose failing edge cannot reach the construction; constructors that merely forward a parameter move the "
        "obligation to every call site (depth 3). The property is about the sinks, so this is the property's own clause, "
        "not a proxy; which function overflows is irrelevant.")
    ck.rule("FIN", "stored numbers are literal, copied from storage, or finite-guarded", floor=9)
    ck.assume("bitcode-decoded workbooks were produced by to_bytes of a workbook satisfying the property (Decode impls are not sinks)")
    guarded(ck, rules_fin.fin_rule, F, Program(F))


def c17(ck, F, tier):
    import rules_walk as rw
    ck.explanation = (
        "Static decision of the rename rewrite's structure: (GUARD) in rename_sheet_in_node every store of a value derived "
        "from the new name into a Node's sheet_name is control-dependent on an equality between the node's sheet index and the "
        "renamed sheet's index; (COVER-walk) the walker has an arm for every child-bearing Node variant that reads every child "
        "field and recurses at least once per child field (no reference below an operator, function, lambda or implicit "
        "intersection is skipped). Values after rename/move/duplicate are not decided.")
    ck.rule("GUARD", "rename of a node's sheet name is guarded by an index comparison", floor=3)
    ck.rule("COVER-walk", "walkers recurse into every child-bearing variant", floor=12)
    ck.rule("PCFG", "the rewrite parses stored formula text in the configuration it was printed in", floor=12)
    guarded(ck, rw.rename_guard, F)
    guarded(ck, rw.cover_walk, F, "COVER-walk", "stringify::rename_sheet_in_node")
    import rules_pcfg as rp
    guarded(ck, rp.pcfg, F)
    import rules_names as rn_
    ck.rule("NAME-CASE", "stored defined names are compared case-insensitively", floor=5)
    guarded(ck, rn_.defined_name_case, F)

def c29(ck, F, tier):
    import rules_attr as ra
    ck.explanation = (
        "Static decision of attribute independence at the descriptor setters (provenance of every stored field): in "
        "set_column_width_and_style the target descriptor (fresh or in place) takes width/custom_width/hidden/style from the "
        "same-named parameters and the pre/post split descriptors copy every attribute from the same field of the descriptor "
        "they replace; set_column_style/width/hidden pass, for the attributes they do not change, a getter that reads only "
        "that attribute's stored fields; set_row_style/hidden/height overwrite only their own attribute's fields of an "
        "existing row and build a new row from the parameter plus defaults/current values.")
    ck.rule("ATTR-FLOW", "each stored descriptor field comes from the right parameter / same field / stored getter", floor=40)
    guarded(ck, ra.column_flow, F)
    guarded(ck, ra.column_wrappers, F)
    guarded(ck, ra.row_flow, F)
    guarded(ck, ra.delete_style_flow, F)
    ck.rule("WIDTH-ACTUAL", "stored column widths never derive from the displayed width", floor=4)
    guarded(ck, ra.width_actual, F)


def c11(ck, F, tier):
    import rules_panic as pn
    ck.explanation = (
        "Static decision of panic-freedom of the text entry points, site by site. (PANIC) every potentially panicking MIR "
        "terminator reachable in the call graph from Parser::parse / parse_at_cursor, get_tokens*, cycle_reference, "
        "format_number, parse_formatted_number, Model::set_user_input / formula_completion / cycle_reference (stopping at "
        "Model::evaluate, spreadsheet functions excluded) is inventoried: bounds checks, slice/Vec/str indexing and range "
        "slicing, unsigned subtraction, division by zero, unwrap/expect, explicit panics, positional Vec/String mutators. "
        "Each site is discharged by a zone (difference-bound) abstract interpretation of its body -- flow-sensitive, with "
        "type-keyed havoc of memory terms from the whole-program effect summaries, guard refinement, widening at loop heads, "
        "trace partitioning on bool flags and returned Option/Result variants, callee summaries per returned variant, "
        "Range iterators, chrono value ranges -- or by data obligations on the decoded language/locale tables, or it is "
        "listed as ASSUMED with the reason (11 sites), or reported. (PRE) entry conditions assumed for private functions hold "
        "at every call site. Signed overflow and allocation failure are not armed (release builds wrap). Not decided: "
        "termination, stack depth of the recursive-descent parser, panics inside spreadsheet functions and evaluation.")
    ck.rule("PANIC", "every reachable panic site is discharged, assumed with a reason, or reported", floor=150)
    ck.rule("PRE", "assumed entry conditions of private functions hold at all call sites", floor=4)
    guarded(ck, pn.panic_rule, F, "PANIC", pn.C11_ENTRIES, pn.C11_STOPS, pn.C11_EXCEPTIONS)
    guarded(ck, pn.pre_rule, F)
    ck.rule("LEN-PAIR", "every resize of workbook.worksheets reaches a rebuild of parsed_formulas before returning", floor=5)
    guarded(ck, pn.len_pair, F)


def c25(ck, F, tier):
    import rules_panic as pn
    ck.explanation = (
        "Static decision of panic-freedom of xlsx / icalc import, site by site: the PANIC inventory and zone abstract "
        "interpretation of C11 applied to everything reachable in the call graph from load_from_xlsx_bytes, load_from_xlsx, "
        "load_from_icalc, Model::from_workbook and Model::from_bytes (both crates; stopping at evaluation; spreadsheet "
        "functions excluded).  Adds the idioms of the importer: unwrap of attribute(K) under has_attribute(K), unwrap after "
        "an is_err()/is_none() early return, Vec::push / vec![..; n] / vec![a, b] lengths, constant-range contains(), "
        "constant slices.  (LOOP-BOUND) the structural part of 'runs without bound': loops that expand a range taken from the "
        "file into one entry per cell are dominated by a comparison of the cell count with a constant cap.  Not decided: the third-party zip / XML / bitcode decoders (their panics and resource use), "
        "termination and memory bounds ('runs without bound'), stack depth on deeply nested XML.")
    ck.rule("PANIC", "every panic site reachable from the import entry points is discharged, assumed with a reason, or reported", floor=130)
    guarded(ck, pn.panic_rule, F, "PANIC", pn.C25_ENTRIES, pn.C25_STOPS, pn.C25_EXCEPTIONS)
    ck.rule("LOOP-BOUND", "ranges read from the file are expanded per cell only under a constant cap", floor=4)
    guarded(ck, pn.range_expansion_capped, F)


def c10(ck, F, tier):
    import rules_pcfg as rp
    ck.explanation = (
        "Static decision of the storage discipline that makes language/locale switches harmless: (PCFG) a forward typestate "
        "analysis of the model parser's configuration (lexer mode, locale, language; set_* calls as transitions) over every "
        "Model function that parses: wherever stored text is parsed (Worksheet.shared_formulas: R1C1/default/default; "
        "DefinedName.formula: A1/default/default, by provenance of the text argument) the configuration is the one the text "
        "was printed in, and every function returns with (A1, active, active) restored; (STORE-EN) nothing printed by "
        "to_localized_string is stored into shared_formulas or DefinedName.formula; (FOOTPRINT) the transitive write effects "
        "of Model::set_language contain no persistent workbook state and it never evaluates; Model::set_locale writes only "
        "settings.locale beyond what evaluation writes. Values of locale-independent functions are not decided.")
    ck.rule("PCFG", "parser configuration matches the provenance of parsed text; restored at exit", floor=12)
    ck.rule("STORE-EN", "stored formula text never comes from the localized printer", floor=6)
    ck.rule("FOOTPRINT", "write footprint of set_language / set_locale", floor=5)
    guarded(ck, rp.pcfg, F)
    guarded(ck, rp.store_en, F)
    guarded(ck, rp.footprint, F)
    import rules_paren as rpar
    ck.rule("SEP", "separators chosen by the printers are the tokens the parser expects in that locale", floor=6, exhaustive=True)
    guarded(ck, rpar.sep_rule, F)


def c28(ck, F, tier):
    import rules_sel as rs
    ck.explanation = (
        "Static decision of the selection guards: (SEL-REPAIR) after every Model::delete_sheet issued by the user model (the "
        "operation, undo and redo arms) every normal path to the end of that step writes the selected sheet or tests it "
        "against the sheet count; (SEL-SHEET) every store into WorkbookView.sheet is validated by a dominating worksheet(idx) "
        "lookup or is a clamp computed from the sheet count; (SEL-CELL) every store into WorksheetView.row/column/range is a "
        "constant, a copy of a stored view field, or validated by is_valid_row / is_valid_column_number on the same value. "
        "That the selected cell lies inside the selected range is a relation between runtime values and is not decided.")
    ck.rule("SEL-REPAIR", "selection written or clamped after every sheet deletion", floor=3)
    ck.rule("SEL-SHEET", "stores into WorkbookView.sheet are validated or clamps", floor=3)
    ck.rule("SEL-CELL", "stores into WorksheetView.row/column/range are validated, copies or constants", floor=20)
    guarded(ck, rs.sel_repair, F)
    guarded(ck, rs.sel_sheet, F)
    guarded(ck, rs.sel_cell, F)
    guarded(ck, rs.range_anchor, F)
    guarded(ck, rs.clamp_post, F)


def c05(ck, F, tier):
    import rules_eval as re_
    ck.explanation = (
        "Static decision of the bookkeeping that #CIRC! detection and pass-consistency rest on: in evaluate_cell the "
        "Evaluating/Evaluated test dominates the Evaluating mark, every path from the mark to a return passes an Evaluated "
        "mark (must-pass-through), the Evaluating arm is the one yielding Error::CIRC and it is the only non-codec producer of "
        "Error::CIRC in the crate; Model::evaluate clears cells/support/variable stack/lambdas inside the restart loop before "
        "any evaluate_cell, phase 2 iterates get_all_cells(); only evaluate/evaluate_cell write Model.cells; (CLIP-SHEET) the "
        "function implementations that clip whole-row/column ranges take the extent from the range's own sheet. That stored "
        "values equal the formulas' values is not decided.")
    ck.rule("TYPESTATE-eval", "Evaluating/Evaluated mark discipline, CIRC producer, restart clears", floor=14)
    guarded(ck, re_.typestate_eval, F)
    ck.rule("CLIP-SHEET", "whole-row/column ranges are clipped by the extent of the range's own sheet", floor=40)
    guarded(ck, re_.clip_sheet, F)
    guarded(ck, re_.support_match, F)


def c21(ck, F, tier):
    import rules_eval as re_
    ck.explanation = (
        "Static decision of the correspondence itself: from_excel_date is the translation NaiveDate(Y,M,D)+(d-k) and "
        "date->serial is num_days_from_ce-EXCEL_DATE_BASE; the literals are read from the MIR and the identity "
        "EXCEL_DATE_BASE = ordinal(Y,M,D)-k is checked with proleptic-Gregorian ordinals; both range tests use the same two "
        "bounds, which map to 1899-12-31 and 9999-12-31. Two translations with equal offsets over one interval are mutually "
        "inverse bijections. Every use of Datelike::num_days_from_ce in both crates subtracts that same constant, and no "
        "ordinal is turned into a date except through from_excel_date.")
    ck.rule("CONST", "date<->serial conversions are inverse translations; all sites use the same base", floor=10, exhaustive=True)
    ck.trust("chrono's NaiveDate arithmetic and leap-year rules; Python datetime ordinals as the reference for the identity")
    guarded(ck, re_.date_const, F)
    ck.rule("DATE-TOTAL", "date_to_serial_number rejects nothing inside the supported calendar range", floor=3)
    guarded(ck, re_.date_total, F)
    # the pure calendar helpers behind DATE / WEEKDAY / DAYS360 / YEARFRAC never wrap or divide by zero: with chrono's
    # accessor ranges (number_from_monday in 1..=7, num_days_from_sunday in 0..=6 ...) the zone engine discharges every
    # unsigned subtraction; a weekday numbering built from the wrong accessor underflows for one day of the week
    import rules_panic as pn
    ck.rule("PANIC", "calendar helpers: no unsigned underflow, division by zero or failing unwrap", floor=8)
    guarded(ck, pn.panic_rule, F, "PANIC",
            ["functions::date_and_time::weekday_number", "functions::date_and_time::excel_serial_to_ymd", "functions::date_and_time::days360_us",
             "functions::date_and_time::days360_eu", "functions::date_and_time::days360_serial", "functions::date_and_time::is_leap_year",
             "functions::date_and_time::last_day_of_feb", "functions::date_and_time::is_feb29_between_consecutive_years",
             "formatter::dates::from_excel_date", "formatter::dates::date_to_serial_number"], [], {}, skip_dirs=())


def c34(ck, F, tier):
    import rules_names as rn
    ck.explanation = (
        "Static decision by finite-domain path interpretation of next_state over its four inputs: it is a bijection forming "
        "one 4-cycle (F,F)->(T,T)->(F,T)->(T,F); and by provenance of every append to cycle_endpoint's result: only the "
        "constant '$', the column slice mapped through to_ascii_uppercase, and the row slice - so only $ markers and letter "
        "case can change; (PANIC) every index and slice of the rewriting functions is inside the text, by the zone engine "
        "(including k + p < len for p = iter().skip(k).position(..)).")
    ck.rule("TABLE-cycle", "next_state is a 4-cycle; cycle_endpoint output built from '$', upper-cased column, row", floor=10, exhaustive=True)
    guarded(ck, rn.table_cycle, F)
    # span arithmetic of the token rewriting: every index / slice of cycle_reference, cycle_token_text and cycle_endpoint stays
    # inside the text (zone engine; a span that overshoots cuts the reference in the wrong place before it panics)
    import rules_panic as pn
    ck.rule("PANIC", "indices and slices of the F4 rewriting stay inside the token text", floor=15)
    exc = {k: v for k, v in pn.C11_EXCEPTIONS.items() if "::cycle_" in k[0]}
    guarded(ck, pn.panic_rule, F, "PANIC", ["lexer::util::cycle_reference", "model::Model::cycle_reference"],
            ["lexer::util::get_tokens_with_locale", "lexer::util::get_tokens"], exc)


def c22(ck, F, tier):
    import rules_quote as rq
    ck.explanation = (
        "Static decision of the sheet-name quoting clause over all Unicode scalar values: the per-character body of "
        "name_needs_quoting, the loop body of Lexer::consume_identifier and the first-character dispatch of Lexer::next_token "
        "are interpreted from the MIR (finite-domain path interpreter, concrete char predicates); code points are partitioned "
        "by everything those bodies can observe, one representative per class. Obligation: a character allowed by "
        "is_valid_sheet_name at which the lexer's unquoted path stops (or cannot start) makes the name quoted. Plus: the "
        "quote-doubling escape and the lexer's un-escape are inverse constants. The column-letter arithmetic is not decided.")
    ck.rule("QUOTE", "characters the lexer cannot read unquoted trigger quoting (all code points by class)", floor=40, exhaustive=True)
    guarded(ck, rq.quote_rule, F)
    import rules_struct as rs_
    ck.rule("FULL-RANGE", "the reference printer accepts every row and column of the grid", floor=0)
    guarded(ck, rs_.grid_bounds, F)


def c09(ck, F, tier):
    import rules_paren as rp
    import rules_names as rn
    import rules_walk as rw
    from tables import load_tables
    ck.explanation = (
        "Static decision of print/parse agreement on operator nesting, exhaustively over every (parent kind, sub-kind, "
        "position, child kind, child sub-kind, export flag) cell: the grammar side (which child kinds each position can hold "
        "without parentheses) is derived from the MIR of the recursive-descent functions Parser::parse_* by reaching "
        "definitions; the printer side (whether stringify wraps the recursive result in parentheses) by the finite-domain path "
        "interpreter, which reconstructs the nested format templates of the returned string. Obligation: child not admissible "
        "=> wrapped. Plus (LIT) operator/error literal tables of printer and lexer are inverse, and (COVER-walk) the display, "
        "English, R1C1 and xlsx printers all go through the same stringify. Number/string literal round trip is not decided.")
    ck.rule("PAREN", "child kind not producible by the grammar at that position => printer parenthesises it", floor=800, exhaustive=True)
    ck.rule("TABLE-errors", "error literal tables agree (printer <-> parsers)", floor=40, exhaustive=True)
    ck.rule("LIT", "operator literals printed by Display are the characters the lexer maps back to the same operator", floor=10, exhaustive=True)
    guarded(ck, rp.paren_rule, F, "PAREN", "stringify::stringify")
    T = load_tables(F)
    guarded(ck, rn.error_tables, F, T)
    guarded(ck, rp.lit_rule, F)
    ck.rule("SEP", "separators chosen by the printers are the tokens the parser expects in that locale", floor=6, exhaustive=True)
    guarded(ck, rp.sep_rule, F)
    import rules_struct as rs_
    ck.rule("FULL-RANGE", "whole-row / whole-column printing requires both corners absolute and spanning the sheet", floor=3)
    guarded(ck, rs_.full_flags, F)
    import rules_paren as rp_
    guarded(ck, rp_.ident_case, F)
    guarded(ck, rs_.grid_bounds, F)
    # quoted-sheet references are part of C09's quantifier: the quoting decision of the printer against the lexer (rule of C22)
    import rules_quote as rq
    ck.rule("QUOTE", "characters the lexer cannot read unquoted trigger quoting (all code points by class)", floor=40, exhaustive=True)
    guarded(ck, rq.quote_rule, F)


def c16(ck, F, tier):
    import rules_paren as rp
    ck.explanation = (
        "Static decision of the second printer used by cut & paste (to_string_moved): the same exhaustive PAREN cells as C09 "
        "(grammar admissible sets from Parser::parse_* vs wrap decisions of to_string_moved by path interpretation), and the "
        "separator tables (SEP) of both printers against the tokens the parser expects per decimal separator. A disagreement "
        "matters beyond pasted cells: get_external_formula_updates_for_cut rewrites any bystander formula whose "
        "to_string_moved text differs from its display text. Retargeting arithmetic of references is not decided.")
    ck.rule("PAREN-moved", "to_string_moved parenthesises every child the grammar could not have produced bare", floor=500, exhaustive=True)
    ck.rule("SEP", "separators chosen by the printers are the tokens the parser expects in that locale", floor=6, exhaustive=True)
    guarded(ck, rp.paren_rule, F, "PAREN-moved", "move_formula::to_string_moved", exports=(None,))
    guarded(ck, rp.sep_rule, F)
    import rules_struct as rs_
    ck.rule("SELF-COMPARE", "in-area helpers are not called with the area's own sheet as the sheet to test", floor=5)
    guarded(ck, rs_.tautology, F)
    ck.rule("FLAG-MATCH", "every coordinate is resolved with its own absolute flag", floor=6)
    guarded(ck, rs_.flag_match, F)


_STRUCT_NOTE = ("The piecewise index maps themselves (formula references, CF ranges, links, column descriptors) being equal / inverse "
                "is arithmetic over symbolic positions and is not decided; nor are formula values after the edit.")


def _struct_common(ck, F, which):
    import rules_struct as rs
    ck.rule("SPILL-RESET", "dynamic spills are reset before any cell relocation", floor=12)
    ck.rule("VALIDATE-FIRST", "no explicit Err after the first persistent write; can_* pre-check dominates writes", floor=12)
    ck.rule("TRIPLE", "formulas, links and conditional-format ranges are displaced together", floor=12)
    guarded(ck, rs.spill_reset, F)
    guarded(ck, rs.validate_first, F)
    guarded(ck, rs.triple, F)
    ck.rule("RE-ENTRY", "relocated cells are moved as values, not re-entered as display text", floor=3)
    guarded(ck, rs.reentry, F)
    guarded(ck, rs.value_move, F)
    ck.rule("FULL-RANGE", "whole-row / whole-column references are not displaced along their full dimension", floor=5)
    guarded(ck, rs.full_range_guard, F)
    ck.rule("REF-SHEET", "displaced references carry their node's sheet index", floor=4)
    guarded(ck, rs.ref_sheet, F)
    guarded(ck, rs.axis_flags, F)
    ck.rule("MIRROR", "the row and column arms of stringify_reference are mirror images", floor=3)
    guarded(ck, rs.mirror_rule, F, [], "MIRROR", True)
    ck.rule("STYLE-LAST", "move_cell copies the source style after every re-entry of the content", floor=2)
    guarded(ck, rs.style_last, F)
    import rules_attr as ra_
    ck.rule("WIDTH-ACTUAL", "stored column widths never derive from the displayed width", floor=4)
    guarded(ck, ra_.width_actual, F)


def c12(ck, F, tier):
    import rules_struct as rs
    ck.explanation = (
        "Static decision of the structure of row/column insertion: spills are reset before any relocation (dominance), the "
        "array-formula pre-check dominates the first persistent write and no explicit error follows it, formulas/links/"
        "conditional formats are displaced together with one DisplaceData value on the same sheet, the row-descriptor rebuild "
        "shifts by +count under a guard on the insertion position, and the inventory of text re-entry sites. " + _STRUCT_NOTE)
    _struct_common(ck, F, "insert")
    ck.rule("SHIFT-PAIR", "descriptor rebuild shifts by +count / -count under the right guards", floor=4)
    guarded(ck, rs.shift_pair, F)
    guarded(ck, rs.shift_pair_columns, F)


def c13(ck, F, tier):
    import rules_struct as rs
    ck.explanation = (
        "Static decision of the structure of row/column deletion: same rule set as C12 on delete_rows/delete_columns "
        "(spill reset dominance, validate-first, TRIPLE with the negative DisplaceData, descriptor rebuild dropping the band "
        "and shifting by -count under a guard on position+count), plus the re-entry inventory. " + _STRUCT_NOTE)
    _struct_common(ck, F, "delete")
    ck.rule("SHIFT-PAIR", "descriptor rebuild shifts by +count / -count under the right guards", floor=4)
    guarded(ck, rs.shift_pair, F)
    guarded(ck, rs.shift_pair_columns, F)
    import rules_struct as rs_cut
    ck.rule("CUT", "all comparisons of one insert/delete against the same boundary cut at the same point", floor=10)
    guarded(ck, rs_cut.cut_agree, F)

def c14(ck, F, tier):
    import rules_struct as rs
    ck.explanation = (
        "Static decision of the inverse pairing visible without solving arithmetic: insert_rows rebuilds row descriptors with "
        "r+count for r>=row, delete_rows with r-count for r>=row+count and drops the band (operand provenance and guard "
        "operands), both displace formulas/links/CF with DisplaceData::Row of opposite sign, and both relocate cells through "
        "the same move_cell (whose text re-entry is the inventoried reason the composition is not the identity on "
        "re-interpretable content). " + _STRUCT_NOTE)
    _struct_common(ck, F, "pair")
    ck.rule("SHIFT-PAIR", "descriptor rebuild shifts by +count / -count under the right guards", floor=4)
    guarded(ck, rs.shift_pair, F)
    guarded(ck, rs.shift_pair_columns, F)
    import rules_struct as rs_cut
    ck.rule("CUT", "all comparisons of one insert/delete against the same boundary cut at the same point", floor=10)
    guarded(ck, rs_cut.cut_agree, F)

def c15(ck, F, tier):
    import rules_struct as rs
    ck.explanation = (
        "Static decision of the structure of block moves: spill reset dominance and validate-first on move_rows_action / "
        "move_columns_action, TRIPLE inside move_row_unchecked / move_column_unchecked, and MOVE-ORDER: the block is iterated "
        "in reverse exactly on the `delta > 0` branch (the order that keeps not-yet-moved rows/columns intact). " + _STRUCT_NOTE)
    _struct_common(ck, F, "move")
    ck.rule("MOVE-ORDER", "block move iterates reversed iff delta > 0", floor=6)
    guarded(ck, rs.move_order, F)
    import rules_struct as rs_band
    ck.rule("BAND", "every description of the band shifted by a single row/column move is the same interval", floor=10)
    guarded(ck, rs_band.band_agree, F)

def c33(ck, F, tier):
    import rules_struct as rs
    ck.explanation = (
        "Static decision that metadata is handled wherever cells are: (TRIPLE) every function displacing cell formulas also "
        "displaces links and conditional-format ranges of the same sheet with the same DisplaceData value; (LINK-DIFF) every "
        "UserModel operation calling a Model function whose effect summary writes Worksheet.links captures the change "
        "(dominating range_link_diffs, an explicit SetCellLink diff, or the capturing helper), Model::range_clear_* and the "
        "empty-input branch of set_user_input write Worksheet.links; (TRIPLE-cut) the cut branch of paste calls all three "
        "get_*_updates_for_cut. Agreement of the three displacement maps on edge positions is arithmetic and not decided.")
    ck.rule("TRIPLE", "formulas, links and conditional-format ranges are displaced together", floor=12)
    ck.rule("LINK-DIFF", "link changes caused by user-model operations are captured for undo", floor=10)
    ck.rule("TRIPLE-cut", "cut/paste updates formulas, links and conditional formats that referenced the cut area", floor=3)
    ck.rule("PCFG", "conditional-format formulas are rewritten with the parser in the configuration they are stored in", floor=12)
    guarded(ck, rs.triple, F)
    guarded(ck, rs.link_diff, F)
    guarded(ck, rs.triple_cut, F)
    import rules_pcfg as rp
    guarded(ck, rp.pcfg, F)
    import rules_struct as rs_band
    ck.rule("BAND", "every description of the band shifted by a single row/column move is the same interval", floor=10)
    guarded(ck, rs_band.band_agree, F)

def c31(ck, F, tier):
    import rules_struct as rs
    ck.explanation = (
        "Static decision of the spill bookkeeping guards: spills are reset before structural relocations (SPILL-RESET); in "
        "set_cells_with_result no #SPILL! decision is reachable after a spill cell was written and the blocking scan and the "
        "write loop iterate identical ranges; Cell::SpillCell is constructed only by the evaluator and the importer; "
        "spill clean-ups in evaluate_cell and in the undo arm are guarded by an ownership test on the cell's anchor. "
        "Exactness of block contents and staleness across passes are not decided.")
    ck.rule("SPILL-RESET", "dynamic spills are reset before any cell relocation", floor=12)
    ck.rule("SPILL", "spill write/clear guards and constructors", floor=8)
    guarded(ck, rs.spill_reset, F)
    guarded(ck, rs.spill_rules, F)
    guarded(ck, rs.dynamic_scalar_extent, F)
    guarded(ck, rs.cut_skip_same_sheet, F)
    # a reordered anchor is re-evaluated from a clean state: the restart clears of Model::evaluate sit inside the restart loop
    import rules_eval as re31
    ck.rule("TYPESTATE-eval", "Evaluating/Evaluated mark discipline, restart clears inside the restart loop", floor=14)
    guarded(ck, re31.typestate_eval, F)


def c27(ck, F, tier):
    import rules_struct as rs
    ck.explanation = (
        "Static decision of the guards at the writers of workbook structure: (NAME-GUARD) every value that becomes a "
        "worksheet name (set_name, new_empty_worksheet, field store) passed is_valid_sheet_name on every path and the "
        "existing names were consulted, except generated names; (ID-FRESH) every sheet_id of a new worksheet comes from "
        "get_new_sheet_id() or a captured id; (GRID-GUARD) update_cell's insertions are dominated by the row/column validity "
        "test and only it (and the DeleteRows undo) inserts into sheet_data; (SPILL) spill cells are constructed only by the "
        "evaluator/importer. Sortedness/disjointness of cols, uniqueness of rows and index validity are value invariants of "
        "loops and are not decided.")
    ck.rule("NAME-GUARD", "worksheet names are validated and checked for uniqueness at every writer", floor=6)
    ck.rule("ID-FRESH", "new worksheets get a fresh or captured sheet_id", floor=4)
    ck.rule("GRID-GUARD", "cells enter sheet_data only through the validated path", floor=4)
    ck.rule("SPILL", "spill write/clear guards and constructors", floor=8)
    guarded(ck, rs.wellformed_guards, F)
    guarded(ck, rs.spill_rules, F)
    guarded(ck, rs.descriptor_order, F)
    guarded(ck, rs.shift_lower_bounds, F)
    import rules_struct as rs_band
    ck.rule("BAND", "every description of the band shifted by a single row/column move is the same interval", floor=10)
    guarded(ck, rs_band.band_agree, F)

def c30(ck, F, tier):
    import rules_attr as ra
    ck.explanation = (
        "Static decision of coverage and same-named provenance in the style pools: interning (create_new_style + "
        "get_or_create_component_ids) reads every field of Style and builds the CellXfs record from the style's own parts; "
        "read-back (get_style) and the dedup comparison (get_style_index) fill every field of Style from the same-named "
        "CellXfs part through the pool it indexes and from no other; the two number-format lookups share one constant table "
        "and the id lookup is a first-match loop. Aliasing through imported num_fmts that redefine a built-in id is not decided.")
    ck.rule("COVER-style", "every Style field is interned and read back from its own slot", floor=20, exhaustive=True)
    guarded(ck, ra.cover_style, F)
    guarded(ck, ra.intern_exact, F)
    guarded(ck, ra.intern_returns, F)


def c32(ck, F, tier):
    import rules_walk as rw
    import rules_pcfg as rp
    ck.explanation = (
        "Static decision of the defined-name plumbing: the parser-configuration typestate and English-storage rules of C10 "
        "(DefinedName.formula is parsed in A1/default/default and never stored from the localized printer); the rename walker "
        "recurses into every child-bearing Node variant and handles every variant that names a defined name; "
        "update_defined_name rewrites the shared formulas of every worksheet; every change of workbook.defined_names reaches "
        "reset_parsed_structures; xlsx import re-parses names with the English parser and printer. Values of names are not decided.")
    ck.rule("PCFG", "parser configuration matches the provenance of parsed text; restored at exit", floor=12)
    ck.rule("STORE-EN", "stored formula text never comes from the localized printer", floor=6)
    ck.rule("COVER-walk", "walkers recurse into every child-bearing variant", floor=12)
    ck.rule("NAMES", "rename / reparse plumbing of defined names", floor=7)
    guarded(ck, rp.pcfg, F)
    guarded(ck, rp.store_en, F)
    guarded(ck, rw.cover_walk, F, "COVER-walk", "stringify::rename_defined_name_in_node")
    guarded(ck, rw.names_rules, F)
    import rules_names as rn_
    ck.rule("NAME-CASE", "stored defined names are compared case-insensitively", floor=5)
    guarded(ck, rn_.defined_name_case, F)
    guarded(ck, rn_.orphan_names_skipped, F)

def c18(ck, F, tier):
    import rules_attr as ra
    ck.explanation = (
        "Static decision of reader/writer configuration agreement: for booleans, errors and numbers, the Language/Locale "
        "fields consulted (transitively through local callees) on the display side (Cell::get_localized_text, "
        "to_localized_error_string) are also consulted on the branch of Model::set_user_input that recognises that kind of "
        "value; the quote prefix is read by the display side and set by the input side. That the recognisers invert the "
        "printers on every string/number is not decided.")
    ck.rule("TABLE-io", "display and input consult the same language/locale tables per value kind", floor=6)
    ck.rule("CONTENT-TEXT", "editor content never comes from an unchecked display rendering", floor=4)
    guarded(ck, ra.table_io, F)
    guarded(ck, ra.content_not_display, F)
    guarded(ck, ra.localized_number_guard, F)
    import rules_attr as ra18
    ck.rule("QUOTE-STYLE", "every cell write of set_user_input uses a style normalised for the quote prefix", floor=5)
    guarded(ck, ra18.quote_prefix_style, F)

def c06(ck, F, tier):
    import rules_eval as re_
    ck.explanation = (
        "Static decision of the finite dispatch and comparison tables only: (TABLE-ops) evaluate_node_in_context maps "
        "OpSum::Add/Minus, OpProduct::Times/Divide and OpPower to closures whose bodies are the single float operation they "
        "denote (Divide guarded by == 0.0 yielding #DIV/0!), unary minus to Neg and % to Div 100.0; the predicate closure of "
        "handle_comparison, interpreted for all 6 operators x 3 signs of compare_values, is the mathematical predicate; "
        "(TABLE-cmp) compare_values interpreted over all 25 kind pairs is antisymmetric across kinds, orders Number < String "
        "< Boolean < Error and compares EmptyCell as the neutral element of the other kind. Coercions, function results and "
        "error precedence with values are numerical/runtime and not decided.")
    ck.rule("TABLE-ops", "operators evaluate by the arithmetic / predicate they denote", floor=24, exhaustive=True)
    ck.rule("TABLE-cmp", "cross-kind comparison table: antisymmetric, ordered, empty is neutral", floor=25, exhaustive=True)
    ck.rule("ERR-ORDER", "the right operand's error is returned only when the left operand is known to be Ok", floor=2)
    guarded(ck, re_.table_ops, F)
    guarded(ck, re_.table_cmp, F)
    guarded(ck, re_.err_order, F)
    guarded(ck, re_.truthiness_exact, F)


def c07(ck, F, tier):
    import rules_eval as re_
    ck.explanation = (
        "Static decision of the two sources of nondeterminism visible in the code's shape: (WMC-volatile) wall-clock and random "
        "sources are called only from the implementations of NOW/TODAY/RAND/RANDBETWEEN/RANDARRAY and from new-workbook "
        "metadata; (HASH-ORDER) every iteration over a HashMap/HashSet in code reachable from evaluate, set_user_input, the six "
        "structural actions, to_bytes and from_workbook (function implementations excluded) is order-insensitive by an "
        "enumerated idiom (folded with any/all/count/min/max, collected into a map/set, collected into a Vec that is sorted) "
        "or by a single-site reason confirmed on the pinned tree; (PAREN) the stored form of a formula parses back to the same tree, so "
        "a reload in between re-evaluates the same formula. Convergence of the restart-based spill ordering is not decided.")
    ck.rule("WMC-volatile", "clock / random sources only in volatile function implementations", floor=3)
    ck.rule("HASH-ORDER", "hash-map iterations are order-insensitive", floor=25)
    ck.rule("DIM-UNITS", "width/height of spill extents only combine with column/row quantities", floor=2)
    guarded(ck, re_.wmc_volatile, F)
    guarded(ck, re_.hash_order, F)
    guarded(ck, re_.dim_units, F)
    ck.rule("TYPESTATE-eval", "a written position matches a recorded dependency on sheet, row and column", floor=2)
    guarded(ck, re_.support_match, F)
    # a save-and-reload re-parses the stored text of every formula: the value is unchanged only if the tree is (PAREN cells of
    # the internal printer, the clause of C09 that C07's "reload in between" needs)
    import rules_paren as rp
    ck.rule("PAREN", "child kind not producible by the grammar at that position => printer parenthesises it (stored form)", floor=400, exhaustive=True)
    guarded(ck, rp.paren_rule, F, "PAREN", "stringify::stringify", exports=(False,))


def c24(ck, F, tier):
    import rules_io as io
    import rules_paren as rp
    import rules_names as rn
    from tables import load_tables
    ck.explanation = (
        "Static decision of writer/reader coverage: every field of Worksheet, Row, Col, DefinedName, Workbook, Font, Fill, "
        "Border, BorderItem, Alignment, NumFmt, CellXfs, Styles and ConditionalFormatting is read by code reachable from "
        "save_xlsx_to_writer and set from the package by code reachable from load_from_xlsx_bytes (allow-list with reasons); "
        "every Cell variant has an export arm and an import constructor; formulas go out through to_excel_string and come in "
        "through an English parser; the PAREN cells of C09 with the export flag set, the literal tables of errors and the XML "
        "escape table. That values and attributes survive numerically and textually is not decided.")
    ck.rule("COVER-xlsx", "every persistent field is written by the exporter and read by the importer", floor=120)
    ck.rule("XML-ESCAPE", "the five XML-special characters are escaped", floor=5, exhaustive=True)
    ck.rule("PAREN", "child kind not producible by the grammar at that position => printer parenthesises it (export form)", floor=400, exhaustive=True)
    ck.rule("TABLE-errors", "error literal tables agree (printer <-> parsers)", floor=40, exhaustive=True)
    guarded(ck, io.cover_xlsx, F)
    guarded(ck, io.escape_table, F)
    guarded(ck, rp.paren_rule, F, "PAREN", "stringify::stringify", exports=(True,))
    guarded(ck, rn.error_tables, F, load_tables(F))
    ck.rule("ESCAPE-AGREE", "writer and reader of the _xHHHH_ escape use the same character class", floor=2)
    guarded(ck, io.escape_agree, F)
    guarded(ck, io.part_names_positional, F)
    guarded(ck, io.flag_attribute_pairing, F)


PROPS = {"C11": c11, "C25": c25, "C08": c08, "C24": c24, "C07": c07, "C06": c06, "C18": c18, "C32": c32, "C30": c30, "C27": c27, "C31": c31, "C33": c33, "C12": c12, "C13": c13, "C14": c14, "C15": c15, "C16": c16, "C09": c09, "C22": c22, "C34": c34, "C21": c21, "C05": c05, "C28": c28, "C10": c10, "C29": c29, "C17": c17, "C01": c01, "C02": c02, "C03": c03, "C04": c04, "C23": c23, "C26": c26}


def run(pid, tier):
    if pid not in PROPS:
        print("unknown or not-applicable property", pid)
        return 2
    ck = Check(pid, tier)
    try:
        F = Facts()
        PROPS[pid](ck, F, tier)
    except SystemExit as e:
        print(e)
        return 2
    except Exception:
        traceback.print_exc()
        ck.anchor_errors.append("checker exception (see traceback)")
    return ck.finish()
