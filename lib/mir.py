"""MIR body model: CFG, dominators, reachability, def/use chains, provenance tracing.
All analyses are over the facts dumped by icfacts; no IronCalc code runs."""
from collections import defaultdict


def place_local(p):
    return p["l"]


def place_proj(p):
    return p.get("p", [])


def op_place(o):
    """Place read by an operand, or None for constants."""
    if "c" in o:
        return o["c"]
    if "m" in o:
        return o["m"]
    return None


def op_const(o):
    return o.get("k")


def const_bool(o):
    k = o.get("k") if isinstance(o, dict) else None
    if k and k.get("ty") == "bool":
        return {"true": True, "false": False}.get(k.get("v", k.get("d")))
    return None


_INT_RE = __import__("re").compile(r"^(-?\d+)_?([iu](?:8|16|32|64|128|size))?$")


def const_int(o):
    k = o.get("k") if isinstance(o, dict) else None
    if not k:
        return None
    m = _INT_RE.match(str(k.get("v", k.get("d", ""))))
    return int(m.group(1)) if m else None


def const_float(o):
    k = o.get("k") if isinstance(o, dict) else None
    if not k or k.get("ty") not in ("f64", "f32"):
        return None
    d = str(k.get("v", k.get("d", "")))
    d = d.replace("_f64", "").replace("_f32", "").replace("f64", "").replace("f32", "")
    try:
        return float(d)
    except ValueError:
        return None


def const_str(o):
    k = o.get("k") if isinstance(o, dict) else None
    if k and "s" in k:
        return k["s"]
    return None


def place_str(p, body=None):
    s = "_%d" % p["l"]
    if body is not None:
        n = body.local_name(p["l"])
        if n:
            s = n
    for e in place_proj(p):
        if e[0] == "*":
            s = "(*%s)" % s
        elif e[0] == "f":
            s += "." + (e[2] if e[2] is not None else str(e[1]))
        elif e[0] == "i":
            s += "[_%d]" % e[1]
        elif e[0] == "ci":
            s += "[%d]" % e[1]
        elif e[0] == "dc":
            s += " as %s" % e[1]
        elif e[0] == "sub":
            s += "[%d..%d]" % (e[1], e[2])
    return s


def field_names(p):
    return [e[2] for e in place_proj(p) if e[0] == "f" and e[2] is not None]


def fields_with_owner(p):
    """[(owner adt path, field name, variant)] for every field projection."""
    return [(e[3], e[2], e[4]) for e in place_proj(p) if e[0] == "f"]


class Body:
    def __init__(self, rec, facts=None):
        self.rec = rec
        self.facts = facts
        self.path = rec["path"]
        self.name = rec.get("name", "")
        self.file = rec.get("file", "")
        self.line = rec.get("line", 0)
        self.blocks = rec["blocks"]
        self.locals = rec["locals"]
        self.nargs = rec["nargs"]
        self._names = {}
        self._upvars = {}
        for d in rec.get("dbg", []):
            p = d["p"]
            if not place_proj(p):
                self._names.setdefault(p["l"], d["n"])
            else:
                self._upvars[d["n"]] = p
        self._succ = None
        self._pred = None
        self._idom = None
        self._defs = None
        self._reach = {}

    # ---------------------------------------------------------------- naming
    @property
    def qname(self):
        if self.facts is not None:
            return self.facts.qname_of(self.path)
        return self.path

    def local_name(self, l):
        return self._names.get(l)

    def local_by_name(self, name):
        return [l for l, n in self._names.items() if n == name]

    def arg_local(self, name):
        for d in self.rec.get("dbg", []):
            if d["n"] == name and d.get("arg", -1) >= 0 and not place_proj(d["p"]):
                return d["p"]["l"]
        return None

    def loc(self, bi, si=None):
        b = self.blocks[bi]
        if si is None or si == "t" or si >= len(b["s"]):
            return (b["t"].get("file", self.file), b["t"].get("line", 0))
        return (b["s"][si].get("file", self.file), b["s"][si].get("line", 0))

    # ---------------------------------------------------------------- CFG
    def term(self, bi):
        return self.blocks[bi]["t"]

    def succs(self, bi, unwind=False):
        if self._succ is None:
            self._build_cfg()
        if unwind:
            t = self.term(bi)
            uw = t.get("uw", -1)
            return self._succ[bi] + ([uw] if uw is not None and uw >= 0 else [])
        return self._succ[bi]

    def preds(self, bi):
        if self._pred is None:
            self._build_cfg()
        return self._pred[bi]

    def _build_cfg(self):
        n = len(self.blocks)
        succ = [[] for _ in range(n)]
        for i, b in enumerate(self.blocks):
            t = b["t"]
            k = t["k"]
            if k in ("goto", "drop", "assert"):
                succ[i] = [t["to"]]
            elif k == "call":
                if t["to"] >= 0:
                    succ[i] = [t["to"]]
            elif k == "switch":
                seen = []
                for _, tb in t["targets"]:
                    if tb not in seen:
                        seen.append(tb)
                if t["otherwise"] not in seen:
                    seen.append(t["otherwise"])
                succ[i] = seen
        pred = [[] for _ in range(n)]
        for i, ss in enumerate(succ):
            for s in ss:
                pred[s].append(i)
        self._succ, self._pred = succ, pred

    def is_cleanup(self, bi):
        return bool(self.blocks[bi]["t"].get("cleanup"))

    def return_blocks(self):
        return [i for i, b in enumerate(self.blocks) if b["t"]["k"] == "return"]

    def unreachable_block(self, bi):
        """True when the block is an `unreachable` terminator with no statements (exhaustive-match filler)."""
        b = self.blocks[bi]
        return b["t"]["k"] == "unreachable"

    def reachable_from(self, bi, avoid=()):
        """Blocks reachable from bi (inclusive) on normal edges without entering `avoid`."""
        key = (bi, tuple(sorted(avoid)))
        r = self._reach.get(key)
        if r is not None:
            return r
        seen = set()
        stack = [bi]
        av = set(avoid)
        while stack:
            x = stack.pop()
            if x in seen or x in av:
                continue
            seen.add(x)
            stack.extend(self.succs(x))
        self._reach[key] = seen
        return seen

    def strictly_after(self, bi):
        """Blocks reachable from the successors of bi."""
        out = set()
        for s in self.succs(bi):
            out |= self.reachable_from(s)
        return out

    # ---------------------------------------------------------------- dominators (Cooper-Harvey-Kennedy)
    def idom(self):
        if self._idom is not None:
            return self._idom
        order = []
        seen = set()
        stack = [(0, iter(self.succs(0)))]
        seen.add(0)
        while stack:
            node, it = stack[-1]
            adv = False
            for s in it:
                if s not in seen:
                    seen.add(s)
                    stack.append((s, iter(self.succs(s))))
                    adv = True
                    break
            if not adv:
                order.append(node)
                stack.pop()
        rpo = order[::-1]
        num = {b: i for i, b in enumerate(rpo)}
        idom = {0: 0}
        changed = True
        while changed:
            changed = False
            for b in rpo[1:]:
                new = None
                for p in self.preds(b):
                    if p in idom:
                        if new is None:
                            new = p
                        else:
                            a, c = p, new
                            while a != c:
                                while num[a] > num[c]:
                                    a = idom[a]
                                while num[c] > num[a]:
                                    c = idom[c]
                            new = a
                if new is not None and idom.get(b) != new:
                    idom[b] = new
                    changed = True
        self._idom = idom
        return idom

    def dominates(self, a, b):
        """block a dominates block b (normal edges)."""
        idom = self.idom()
        if b not in idom:
            return False
        x = b
        while True:
            if x == a:
                return True
            if x == 0:
                return False
            x = idom[x]

    def dominators_of(self, b):
        idom = self.idom()
        out = []
        if b not in idom:
            return out
        x = b
        while True:
            out.append(x)
            if x == 0:
                break
            x = idom[x]
        return out

    # ---------------------------------------------------------------- statements, calls
    def loop_depth(self, bi):
        """number of natural loops (back edge u->h with h dominating u) whose body contains block bi"""
        if getattr(self, "_loops", None) is None:
            loops = []
            for u in range(len(self.blocks)):
                if self.is_cleanup(u):
                    continue
                for h in self.succs(u):
                    if self.dominates(h, u):
                        body = {h, u}
                        st = [u]
                        while st:
                            x = st.pop()
                            if x == h:
                                continue
                            for p in self.preds(x):
                                if p not in body and not self.is_cleanup(p):
                                    body.add(p)
                                    st.append(p)
                        loops.append((h, body))
            merged = {}
            for h, body in loops:
                merged.setdefault(h, set()).update(body)
            self._loops = merged
        return sum(1 for body in self._loops.values() if bi in body)

    def stmts(self, cleanup=False):
        for bi, b in enumerate(self.blocks):
            if not cleanup and b["t"].get("cleanup"):
                continue
            for si, s in enumerate(b["s"]):
                yield bi, si, s

    def calls(self, cleanup=False):
        for bi, b in enumerate(self.blocks):
            t = b["t"]
            if not cleanup and t.get("cleanup"):
                continue
            if t["k"] in ("call", "tailcall"):
                yield bi, t

    def callee(self, t):
        """Resolved callee path (or declared path when unresolved); None for fn pointers."""
        f = t["fn"]
        return f.get("r") or f.get("d")

    def callee_q(self, t):
        """Qualified name of the callee: local bodies via the facts index, foreign via strip_generics."""
        from facts import strip_generics
        f = t["fn"]
        c = f.get("closure") or f.get("r") or f.get("d")
        if c is None:
            return None
        if self.facts is not None and c in self.facts.heads:
            return self.facts.heads[c]["qname"]
        return strip_generics(c)

    def calls_to(self, *suffixes):
        """[(bi, term)] of calls whose qualified callee name equals or ends with ::suffix."""
        out = []
        for bi, t in self.calls():
            q = self.callee_q(t)
            if q is None:
                continue
            for s in suffixes:
                if q == s or q.endswith("::" + s):
                    out.append((bi, t))
                    break
        return out

    # ---------------------------------------------------------------- defs
    def defs(self):
        """local -> list of (bi, si | 't') whole-local definitions (assignments without projection, call
        destinations). Partial writes (field assignments) are recorded under key ('partial', local)."""
        if self._defs is not None:
            return self._defs
        d = defaultdict(list)
        for bi, b in enumerate(self.blocks):
            for si, s in enumerate(b["s"]):
                p = s["p"]
                if place_proj(p):
                    d[("partial", p["l"])].append((bi, si))
                else:
                    d[p["l"]].append((bi, si))
            t = b["t"]
            if t["k"] == "call":
                p = t["dest"]
                if place_proj(p):
                    d[("partial", p["l"])].append((bi, "t"))
                else:
                    d[p["l"]].append((bi, "t"))
        self._defs = d
        return d

    def single_def(self, l):
        ds = self.defs().get(l, [])
        if len(ds) == 1:
            return ds[0]
        return None

    def def_rvalue(self, l):
        """The rvalue (dict) of the unique definition of local l, or ('call', term), or None."""
        sd = self.single_def(l)
        if sd is None:
            return None
        bi, si = sd
        if si == "t":
            return {"k": "call", "t": self.blocks[bi]["t"], "bi": bi}
        return self.blocks[bi]["s"][si]["rv"]

    def trace(self, op, through_refs=True, limit=40):
        """Follow an operand back through single-definition temporaries over use/copy/move, refs and
        derefs. Returns a dict describing the root: {'kind':'const',...} | {'kind':'place','place':p}
        | {'kind':'call','t':term,'bi':bi} | {'kind':'rv','rv':rvalue} | {'kind':'arg','local':l}."""
        cur = op
        for _ in range(limit):
            k = op_const(cur)
            if k is not None:
                return {"kind": "const", "const": k}
            p = op_place(cur)
            if p is None:
                return {"kind": "unknown"}
            l = p["l"]
            proj = place_proj(p)
            # allow pure deref chains on temporaries
            if any(e[0] != "*" for e in proj):
                # a projected read: root is that place, but normalise base through its def if it is a ref temp
                base = self._resolve_base(p)
                return {"kind": "place", "place": base}
            if 1 <= l <= self.nargs:
                return {"kind": "arg", "local": l, "name": self.local_name(l)}
            rv = self.def_rvalue(l)
            if rv is None:
                return {"kind": "place", "place": p, "multi": True}
            if rv["k"] == "call":
                return {"kind": "call", "t": rv["t"], "bi": rv["bi"]}
            if rv["k"] == "use":
                cur = rv["o"]
                continue
            if rv["k"] == "ref" and through_refs:
                cur = {"c": rv["p"]}
                continue
            if rv["k"] == "cast":
                cur = rv["o"]
                continue
            return {"kind": "rv", "rv": rv}
        return {"kind": "unknown"}

    def _resolve_base(self, p, limit=20, through_named=False):
        """Rewrite a place whose base local is a single-def temp holding `&place2` / copy of place2
        into a place rooted at place2's base (concatenating projections)."""
        cur = p
        for _ in range(limit):
            l = cur["l"]
            if 1 <= l <= self.nargs or (self.local_name(l) and not through_named):
                return cur
            rv = self.def_rvalue(l)
            if rv is None or rv["k"] == "call":
                return cur
            if rv["k"] == "ref":
                inner = rv["p"]
                proj = list(place_proj(cur))
                # (*tmp).x where tmp = &inner  ==> inner.x
                if proj and proj[0][0] == "*":
                    proj = proj[1:]
                cur = {"l": inner["l"], "p": list(place_proj(inner)) + proj}
                continue
            if rv["k"] == "use":
                ip = op_place(rv["o"])
                if ip is None:
                    return cur
                cur = {"l": ip["l"], "p": list(place_proj(ip)) + list(place_proj(cur))}
                continue
            if rv["k"] == "cast":
                # Box deref lowering: `tmp = box.0.pointer as *const T; (*tmp)`  ==>  (*box)
                ip = op_place(rv["o"])
                if ip is None:
                    return cur
                proj = list(place_proj(ip))
                stripped = False
                while proj and proj[-1][0] == "f" and str(proj[-1][3]).startswith(("std::boxed::Box", "std::ptr::", "core::ptr::")):
                    proj.pop()
                    stripped = True
                if not stripped:
                    return cur
                cur = {"l": ip["l"], "p": proj + list(place_proj(cur))}
                continue
            return cur
        return cur

    def ref_target(self, op, limit=20):
        """If `op` is a chain of copies/reborrows of `&place` / `&mut place`, return the borrowed place,
        rebased onto its named root (user variable or argument); else None."""
        cur = op
        for _ in range(limit):
            p = op_place(cur)
            if p is None:
                return None
            if place_proj(p):
                # reading through a projection: e.g. (*tmp) reborrow handled by caller via rv ref
                return None
            l = p["l"]
            if 1 <= l <= self.nargs:
                return None
            rv = self.def_rvalue(l)
            if rv is None or rv["k"] == "call":
                return None
            if rv["k"] == "use":
                cur = rv["o"]
                continue
            if rv["k"] in ("ref", "rawptr"):
                inner = rv["p"]
                proj = place_proj(inner)
                # reborrow `&mut (*tmp)` of another reference temp: keep following
                if len(proj) == 1 and proj[0][0] == "*" and not self.local_name(inner["l"]) and not (1 <= inner["l"] <= self.nargs):
                    r2 = self.def_rvalue(inner["l"])
                    if r2 is not None and r2["k"] in ("ref", "rawptr", "use"):
                        cur = {"c": {"l": inner["l"]}}
                        continue
                return self._resolve_base(inner)
            if rv["k"] == "cast":
                cur = rv["o"]
                continue
            return None
        return None

    def resolve_place(self, p, through_named=False):
        return self._resolve_base(p, through_named=through_named)

    def const_of(self, op):
        r = self.trace(op)
        if r["kind"] == "const":
            return r["const"]
        return None

    # ---------------------------------------------------------------- switch helpers
    def switch_info(self, bi):
        """For a switch terminator: what is being switched on.
        Returns dict: {'what':'discr','place':p,'adt':path,'variants':{value:variant name}} when the
        operand is a discriminant read; {'what':'bool'|'int'|'char','op':operand} otherwise."""
        t = self.term(bi)
        if t["k"] != "switch":
            return None
        o = t["o"]
        p = op_place(o)
        if p is not None and not place_proj(p):
            # find the defining statement, normally in this very block
            rv = None
            for s in reversed(self.blocks[bi]["s"]):
                if s["p"]["l"] == p["l"] and not place_proj(s["p"]):
                    rv = s["rv"]
                    break
            if rv is None:
                rv = self.def_rvalue(p["l"])
            if rv is not None and rv.get("k") == "discr":
                variants = {}
                adt = rv.get("adt")
                if adt and self.facts is not None and adt in self.facts.adts:
                    for v in self.facts.adts[adt]["variants"]:
                        variants[v["discr"]] = v["name"]
                return {"what": "discr", "place": rv["p"], "adt": adt, "variants": variants, "rv": rv}
            if rv is not None:
                return {"what": t["ty"], "op": o, "rv": rv}
        return {"what": t["ty"], "op": o, "rv": None}

    def switch_targets_by_variant(self, bi):
        """{variant name: block} plus key None for otherwise (if it is not an unreachable filler)."""
        info = self.switch_info(bi)
        if not info or info["what"] != "discr":
            return None
        t = self.term(bi)
        out = {}
        for v, tb in t["targets"]:
            out[info["variants"].get(v, v)] = tb
        ow = t["otherwise"]
        if not self.unreachable_block(ow):
            out[None] = ow
        return out


# -------------------------------------------------------------------- generic iteration over places
def rvalue_operands(rv):
    k = rv["k"]
    if k in ("use", "repeat", "cast"):
        return [rv["o"]]
    if k == "bin":
        return [rv["a"], rv["b"]]
    if k == "un":
        return [rv["a"]]
    if k == "agg":
        return rv["ops"]
    return []


def rvalue_places(rv):
    """Places read (or borrowed) by an rvalue."""
    out = []
    for o in rvalue_operands(rv):
        p = op_place(o)
        if p is not None:
            out.append(p)
    if rv["k"] in ("ref", "rawptr", "discr"):
        out.append(rv["p"])
    return out


def term_operands(t):
    k = t["k"]
    if k in ("call", "tailcall"):
        ops = list(t["args"])
        if t["fn"].get("op"):
            ops.append(t["fn"]["op"])
        return ops
    if k == "switch":
        return [t["o"]]
    if k == "assert":
        return [t["cond"]] + list(t["ops"])
    return []


def all_places(body):
    """Yield (bi, si|'t', place, role) for every place mentioned; role in {'w','r'}."""
    for bi, b in enumerate(body.blocks):
        if b["t"].get("cleanup"):
            continue
        for si, s in enumerate(b["s"]):
            yield bi, si, s["p"], "w"
            for p in rvalue_places(s["rv"]):
                yield bi, si, p, "r"
        t = b["t"]
        for o in term_operands(t):
            p = op_place(o)
            if p is not None:
                yield bi, "t", p, "r"
        if t["k"] == "call":
            yield bi, "t", t["dest"], "w"
        if t["k"] == "drop":
            yield bi, "t", t["p"], "r"


def variant_fields_used(body, adt_path):
    """{variant: {field,...}} for every `(.. as Variant).field` projection on ADT `adt_path` in the body.
    Drop terminators are ignored (dropping is not reading)."""
    out = {}
    for bi, si, p, role in all_places(body):
        if si == "t" and body.blocks[bi]["t"]["k"] == "drop":
            continue
        proj = place_proj(p)
        for i, e in enumerate(proj):
            if e[0] == "f" and e[3] == adt_path and e[4] is not None:
                out.setdefault(e[4], set()).add(e[2])
    return out


def dominated_by(body, entry):
    """Set of blocks dominated by `entry` (normal edges)."""
    idom = body.idom()
    out = set()
    for b in idom:
        x = b
        while True:
            if x == entry:
                out.add(b)
                break
            if x == 0:
                break
            x = idom[x]
    return out


def enum_switches(body, adt_path):
    """[(bi, {variant: target block}, has_wildcard)] for every SwitchInt on a discriminant of `adt_path`."""
    out = []
    for bi, b in enumerate(body.blocks):
        if b["t"]["k"] != "switch":
            continue
        info = body.switch_info(bi)
        if info and info["what"] == "discr" and info["adt"] == adt_path:
            tg = body.switch_targets_by_variant(bi)
            out.append((bi, tg, None in tg, info))
    return out


def calls_in(body, blocks):
    return [(bi, body.blocks[bi]["t"]) for bi in sorted(blocks) if body.blocks[bi]["t"]["k"] in ("call", "tailcall")]


def loop_header_of(body, bi):
    """Nearest dominator of block bi that is the target of a back edge (a predecessor it dominates)."""
    for d in body.dominators_of(bi):
        for p in body.preds(d):
            if body.dominates(d, p):
                return d
    return None


def arm_region(body, switch_bi, entry):
    """Blocks an arm of a match inside a loop can execute within one iteration: reachable from its entry
    without re-entering the loop header (handles or-patterns, which share a body block)."""
    h = loop_header_of(body, switch_bi)
    avoid = {h} if h is not None else set()
    return {b for b in body.reachable_from(entry, avoid=avoid) if not body.is_cleanup(b)}


# -------------------------------------------------------------------- reaching definitions
def reaching_defs(body):
    """IN[block] = {local: frozenset(def ids)} with def id = (block, stmt index | 't'). Whole-local
    definitions only (assignments without projection, call destinations); arguments have def ('arg', l)."""
    n = len(body.blocks)
    gen = [dict() for _ in range(n)]
    for bi, b in enumerate(body.blocks):
        g = {}
        for si, s in enumerate(b["s"]):
            if not place_proj(s["p"]):
                g[s["p"]["l"]] = frozenset([(bi, si)])
        t = b["t"]
        if t["k"] == "call" and not place_proj(t["dest"]):
            g[t["dest"]["l"]] = frozenset([(bi, "t")])
        gen[bi] = g
    IN = [None] * n
    IN[0] = {l: frozenset([("arg", l)]) for l in range(1, body.nargs + 1)}
    work = [0]
    while work:
        b = work.pop()
        cur = IN[b] or {}
        out = dict(cur)
        out.update(gen[b])
        for s in body.succs(b, unwind=False):
            if IN[s] is None:
                IN[s] = dict(out)
                work.append(s)
            else:
                changed = False
                tgt = IN[s]
                for l, ds in out.items():
                    old = tgt.get(l)
                    if old is None:
                        tgt[l] = ds
                        changed = True
                    elif not ds <= old:
                        tgt[l] = old | ds
                        changed = True
                if changed:
                    work.append(s)
    return IN


def defs_reaching(body, IN, bi, si, local):
    """Definitions of `local` reaching the point just before statement si (or the terminator if si == 't') of block bi."""
    cur = (IN[bi] or {}).get(local, frozenset())
    blk = body.blocks[bi]
    end = len(blk["s"]) if si == "t" else si
    for j in range(end):
        s = blk["s"][j]
        if not place_proj(s["p"]) and s["p"]["l"] == local:
            cur = frozenset([(bi, j)])
    return cur
