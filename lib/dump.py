"""Debug helper: pretty-print a body's MIR from the facts. usage: dump.py <qname suffix> [block range]"""
import sys, json
sys.path.insert(0, __import__('os').path.dirname(__file__))
from facts import Facts
from mir import *

def opstr(o, b):
    p = op_place(o)
    if p is not None:
        return ("move " if "m" in o else "") + place_str(p, b)
    k = o.get("k", {})
    if "fn" in k: return "fn:" + k["r"]
    return "const " + str(k.get("s", k.get("v", k.get("d"))))

def rvstr(rv, b):
    k = rv["k"]
    if k == "use": return opstr(rv["o"], b)
    if k == "ref": return ("&mut " if rv["mut"] else "&") + place_str(rv["p"], b)
    if k == "discr": return "discriminant(%s) [%s]" % (place_str(rv["p"], b), rv.get("adt"))
    if k == "bin": return "%s(%s, %s)" % (rv["op"], opstr(rv["a"], b), opstr(rv["b"], b))
    if k == "un": return "%s(%s)" % (rv["op"], opstr(rv["a"], b))
    if k == "cast": return "%s as %s" % (opstr(rv["o"], b), rv["ty"])
    if k == "agg":
        name = rv.get("adt", rv.get("agg")) + ("::" + rv["variant"] if rv.get("variant") else "")
        if rv.get("def"): name = "closure " + rv["def"]
        fs = rv.get("fields") or [str(i) for i in range(len(rv["ops"]))]
        return "%s{%s}" % (name, ", ".join("%s: %s" % (f, opstr(o, b)) for f, o in zip(fs, rv["ops"])))
    return json.dumps(rv)[:200]

def dump(b, lo=0, hi=None):
    print("fn", b.qname, "(%s:%d)" % (b.file, b.line), "blocks", len(b.blocks))
    for i, blk in enumerate(b.blocks):
        if i < lo or (hi is not None and i > hi): continue
        print(" bb%d:%s" % (i, " (cleanup)" if blk["t"].get("cleanup") else ""))
        for s in blk["s"]:
            print("    %s = %s   // L%d %s" % (place_str(s["p"], b), rvstr(s["rv"], b), s["line"], s.get("mac", "")))
        t = blk["t"]
        k = t["k"]
        if k in ("call", "tailcall"):
            print("    %s = CALL %s(%s) -> bb%s   // L%d %s" % (place_str(t["dest"], b) if "dest" in t else "", b.callee_q(t) or t["fn"], ", ".join(opstr(a, b) for a in t["args"]), t.get("to"), t["line"], t.get("mac", "")))
        elif k == "switch":
            info = b.switch_info(i)
            what = place_str(info["place"], b) + " discr" if info["what"] == "discr" else opstr(t["o"], b)
            tg = ", ".join("%s->bb%d" % ((info.get("variants") or {}).get(v, v), tb) for v, tb in t["targets"])
            print("    SWITCH %s [%s] otherwise->bb%d   // L%d" % (what, tg, t["otherwise"], t["line"]))
        elif k == "assert":
            print("    ASSERT %s %s==%s (%s) -> bb%d  // L%d %s" % (t["kind"], opstr(t["cond"], b), t["expected"], ", ".join(opstr(o, b) for o in t["ops"]), t["to"], t["line"], t.get("mac", "")))
        elif k == "drop":
            print("    DROP %s -> bb%d" % (place_str(t["p"], b), t["to"]))
        else:
            print("    %s %s" % (k.upper(), t.get("to", "")))

if __name__ == "__main__":
    F = Facts()
    ps = F.find(sys.argv[1])
    if len(ps) != 1:
        print("matches:", ps); sys.exit(1)
    b = F.body(ps[0])
    lo = int(sys.argv[2]) if len(sys.argv) > 2 else 0
    hi = int(sys.argv[3]) if len(sys.argv) > 3 else None
    dump(b, lo, hi)
