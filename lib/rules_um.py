"""Rules over the user model (undo/redo/replication/atomicity): C01-C04, parts of C28/C33."""
from ck import Abort
from effects import Program, adt_closure
from facts import strip_generics
from mir import (all_places, arm_region, const_bool, calls_in, dominated_by, enum_switches, op_place, place_proj, place_str,
                 variant_fields_used)

DIFF = "ironcalc_base::user_model::history::Diff"
HISTORY = "ironcalc_base::user_model::history::History"
USERMODEL = "ironcalc_base::user_model::common::UserModel"
WORKBOOK = "ironcalc_base::types::Workbook"
WORKSHEET = "ironcalc_base::types::Worksheet"

PAYLOAD_NEW = {"new_value", "new_formula", "new_style", "new_rule", "new_range", "new_includes"}
IDENTITY_NEW = {"new_name", "new_scope", "new_index"}


# ------------------------------------------------------------------------------------------------
def persistent_types(F):
    """ADTs that make up persistent workbook state: field closure of types::Workbook, not entering the
    per-user view state (Workbook.views, Worksheet.views)."""
    skip = {(WORKBOOK, "views"), (WORKSHEET, "views")}
    cl = adt_closure(F, WORKBOOK, skip)
    return {a for a in cl if a in F.adts and F.adts[a].get("local")}


def is_persistent_effect(e, ptypes):
    adt, f = e
    if adt not in ptypes:
        return False
    if (adt, f) in ((WORKBOOK, "views"), (WORKSHEET, "views")):
        return False
    return True


def err_blocks(body):
    """Blocks on which an error result is produced: `?` residual conversion or explicit `_0 = Err(..)`."""
    out = set()
    for bi, b in enumerate(body.blocks):
        t = b["t"]
        if t["k"] == "call":
            q = body.callee_q(t) or ""
            if q.endswith("FromResidual>::from_residual") or q.endswith("::from_residual"):
                out.add(bi)
        for s in b["s"]:
            rv = s["rv"]
            if rv["k"] == "agg" and rv.get("adt") == "std::result::Result" and rv.get("variant") == "Err":
                out.add(bi)
    return out


def usermodel_ops(F, vis=("pub",)):
    out = []
    for path, h in F.heads.items():
        if h.get("impl_adt") == USERMODEL and h.get("bkind") == "fn" and not h.get("impl_trait"):
            if vis is None or h.get("vis") in vis:
                out.append(path)
    return sorted(out)


def takes_mut_self(h):
    ins = h.get("inputs") or []
    return bool(ins) and ins[0].startswith("&") and "mut " in ins[0].split("ironcalc")[0]


# ------------------------------------------------------------------------------------------------
def arms_undo_redo(ck, F, which):
    """ARMS over Diff in apply_undo_diff_list / apply_diff_list."""
    adt = ck.need(F.adt, "history::Diff")
    undo = ck.need(F.one, "UserModel::apply_undo_diff_list")
    redo = ck.need(F.one, "UserModel::apply_diff_list")
    nvar = len(adt["variants"])
    for name, body in (("undo", undo), ("redo", redo)):
        if which not in (name, "both"):
            continue
        rule = "ARMS-" + name
        sw = enum_switches(body, DIFF)
        ck.ob(rule, "%s|one-switch-over-Diff" % body.name, len(sw) == 1,
              "expected exactly one match over Diff in %s, found %d" % (body.name, len(sw)), body.file, body.line)
        if len(sw) != 1:
            continue
        bi, tg, wild, info = sw[0]
        f, l = body.loc(bi)
        ck.ob(rule, "%s|no-wildcard-arm" % body.name, not wild,
              "match over Diff has a wildcard/otherwise arm: new variants would be silently ignored", f, l)
        used = variant_fields_used(body, DIFF)
        for v in adt["variants"]:
            vn = v["name"]
            fields = [x["name"] for x in v["fields"]]
            u = used.get(vn, set())
            ck.ob(rule, "%s|%s|has-arm" % (body.name, vn), vn in tg, "variant %s has no arm" % vn, f, l)
            if name == "undo":
                must = [x for x in fields if x.startswith("old_")]
                mustnot = [x for x in fields if x in PAYLOAD_NEW]
            else:
                must = [x for x in fields if not x.startswith("old_")]
                mustnot = [x for x in fields if x.startswith("old_")]
            for x in must:
                ck.ob(rule, "%s|%s|reads %s" % (body.name, vn, x), x in u,
                      "%s arm of Diff::%s never reads field `%s`" % (name, vn, x), f, l,
                      sample={"variant": vn, "field": x, "read": x in u})
            for x in mustnot:
                ck.ob(rule, "%s|%s|ignores %s" % (body.name, vn, x), x not in u,
                      "%s arm of Diff::%s reads `%s` (the %s value)" % (name, vn, x, "new" if name == "undo" else "old"), f, l)
        # iteration order
        revs = body.calls_to("std::iter::Iterator::rev")
        if name == "undo":
            ck.ob(rule, "%s|iterates-reversed" % body.name, len(revs) >= 1,
                  "apply_undo_diff_list does not iterate the diff list through Iterator::rev", body.file, body.line)
        else:
            ck.ob(rule, "%s|iterates-forward" % body.name, len(revs) == 0,
                  "apply_diff_list iterates through Iterator::rev", body.file, body.line)
    return nvar


def arms_pair(ck, F):
    """ARMS-pair: for a variant carrying old_X/new_X of the same type, the undo arm and the redo arm must
    apply it through the same set of setter callees (set_X(old) <-> set_X(new)); and the two arms agree on
    whether evaluation is requested."""
    adt = ck.need(F.adt, "history::Diff")
    undo = ck.need(F.one, "UserModel::apply_undo_diff_list")
    redo = ck.need(F.one, "UserModel::apply_diff_list")
    P = Program(F)
    ev = set(F.find("Model::evaluate"))

    def eval_flag(body):
        # the "evaluation needed" flag of a replay function: the bool local most often assigned `true` (whatever its name)
        cnt = {}
        for bi, si, s in body.stmts():
            if not place_proj(s["p"]) and body.locals[s["p"]["l"]] == "bool" and body.local_name(s["p"]["l"]) and \
                    s["rv"]["k"] == "use" and const_bool(s["rv"]["o"]) is True:
                cnt[s["p"]["l"]] = cnt.get(s["p"]["l"], 0) + 1
        return max(cnt, key=cnt.get) if cnt else None

    def arm_info(body):
        sw = enum_switches(body, DIFF)
        if len(sw) != 1:
            return None
        bi, tg, wild, info = sw[0]
        out = {}
        flag = eval_flag(body)
        for vn, entry in tg.items():
            if vn is None:
                continue
            region = arm_region(body, bi, entry)
            callees = set()
            sets_eval = False
            for cb, t in calls_in(body, region):
                q = body.callee_q(t)
                if q and q.startswith("ironcalc_base::"):
                    callees.add(q)
                    c = t["fn"].get("r")
                    if c and c in F.heads and P.reaches(c, ev):
                        sets_eval = True
            for b in region:
                for s in body.blocks[b]["s"]:
                    if s["p"]["l"] == flag and not place_proj(s["p"]):
                        if s["rv"]["k"] == "use" and const_bool(s["rv"]["o"]) is True:
                            sets_eval = True
            out[vn] = (callees, sets_eval, entry)
        return out

    ui, ri = arm_info(undo), arm_info(redo)
    if ui is None or ri is None:
        ck.anchor("match over Diff not found for ARMS-pair")
        return
    for v in adt["variants"]:
        vn = v["name"]
        if vn not in ui or vn not in ri:
            continue
        fields = {x["name"]: x["ty"] for x in v["fields"]}
        uc, ue, uentry = ui[vn]
        rc, re_, rentry = ri[vn]
        f, l = undo.loc(uentry)
        ck.ob("ARMS-pair", "%s|evaluation-agrees" % vn, ue == re_,
              "undo arm %s evaluation but redo arm %s" % ("requests" if ue else "does not request", "does" if re_ else "does not"),
              f, l, sample={"variant": vn, "undo_eval": ue, "redo_eval": re_})
        sym = [x for x in fields if x.startswith("old_") and ("new_" + x[4:]) in fields]
        # symmetric = every old_ field has a new_ twin of the same shape (modulo Option/Box wrappers)
        if sym and all(_core(fields[x]) == _core(fields["new_" + x[4:]]) for x in sym) and \
                not [x for x in fields if x.startswith("old_") and x not in sym]:
            su = {q for q in uc if _is_setter(q)}
            sr = {q for q in rc if _is_setter(q)}
            ck.ob("ARMS-pair", "%s|same-setters" % vn, bool(su & sr) or (not su and not sr),
                  "symmetric Diff::%s is undone through %s but redone through %s" % (vn, sorted(su), sorted(sr)),
                  f, l, sample={"variant": vn, "undo": sorted(su), "redo": sorted(sr)})


def _core(ty):
    t = ty
    changed = True
    while changed:
        changed = False
        for w in ("std::boxed::Box<", "std::option::Option<"):
            if t.startswith(w) and t.endswith(">"):
                t = t[len(w):-1]
                changed = True
    return t


def _is_setter(q):
    n = q.rsplit("::", 1)[-1]
    return n.startswith(("set_", "update_", "rename_", "delete_", "new_", "insert_", "move_", "swap_", "add_", "apply_", "clear_"))


# ------------------------------------------------------------------------------------------------
def table_history(ck, F):
    """TABLE-history: the field-effect signature of History::{push,undo,redo}."""
    expected = {
        "push": [("std::vec::Vec::push", "undo_stack")],
        "undo": [("std::vec::Vec::pop", "undo_stack"), ("std::vec::Vec::push", "redo_stack")],
        "redo": [("std::vec::Vec::pop", "redo_stack"), ("std::vec::Vec::push", "undo_stack")],
    }
    for m, exp in expected.items():
        b = ck.need(F.one, "History::" + m)
        got = []
        for bi, t in b.calls():
            if not t["args"]:
                continue
            r = b.trace(t["args"][0])
            if r["kind"] == "place":
                fs = [e[2] for e in place_proj(r["place"]) if e[0] == "f" and e[3] == HISTORY]
                if fs:
                    got.append((b.callee_q(t), fs[-1], bi))
        sig = [(q, f) for q, f, _ in got if q.startswith("std::vec::Vec::p")]
        ck.ob("TABLE-history", "History::%s|stack-ops" % m, sig == exp,
              "History::%s performs %s, expected %s" % (m, sig, exp), b.file, b.line,
              sample={"method": m, "ops": sig})
        # assignments to the stacks
        assigns = []
        for bi, si, s in b.stmts():
            fs = [e[2] for e in place_proj(s["p"]) if e[0] == "f" and e[3] == HISTORY]
            if fs:
                assigns.append((fs[-1], s["rv"], bi))
        if m == "push":
            ok = len(assigns) == 1 and assigns[0][0] == "redo_stack"
            if ok:
                r = b.trace(assigns[0][1]["o"]) if assigns[0][1]["k"] == "use" else {"kind": "?"}
                ok = r["kind"] == "call" and (b.callee_q(r["t"]) or "").endswith("Vec::new")
            ck.ob("TABLE-history", "History::push|clears-redo", ok,
                  "History::push must reset redo_stack to an empty Vec (a new operation discards the redo list)",
                  b.file, b.line)
        else:
            ck.ob("TABLE-history", "History::%s|no-stack-assignment" % m, not assigns,
                  "History::%s assigns a stack wholesale: %s" % (m, [a[0] for a in assigns]), b.file, b.line)
            # the pushed value is a clone of the popped list and the popped list is what is returned
            pops = [x for x in got if x[0].endswith("Vec::pop")]
            pushes = [x for x in got if x[0].endswith("Vec::push")]
            if len(pops) == 1 and len(pushes) == 1:
                ck.ob("TABLE-history", "History::%s|pop-dominates-push" % m, b.dominates(pops[0][2], pushes[0][2]),
                      "push onto the other stack is not dominated by the pop", b.file, b.line)
                pt = b.term(pushes[0][2])
                r = b.trace(pt["args"][1])
                ok = r["kind"] == "call" and (b.callee_q(r["t"]) or "").endswith("Clone>::clone")
                ck.ob("TABLE-history", "History::%s|pushes-clone-of-popped" % m, ok,
                      "value pushed on the other stack is not a clone of the popped diff list", b.file, b.line)
                # Some(..) returned
                some = [s for _, _, s in b.stmts() if s["p"]["l"] == 0 and s["rv"]["k"] == "agg" and s["rv"].get("variant") == "Some"]
                ck.ob("TABLE-history", "History::%s|returns-popped" % m, len(some) == 1,
                      "History::%s does not return Some(popped list) exactly once" % m, b.file, b.line)


def wmc_stacks(ck, F):
    """WMC: who may write History.{undo_stack,redo_stack} / UserModel.{history,send_queue}."""
    P = Program(F)
    allowed = {
        (HISTORY, "undo_stack"): {"History::push", "History::undo", "History::redo"},
        (HISTORY, "redo_stack"): {"History::push", "History::undo", "History::redo"},
        (USERMODEL, "send_queue"): {"UserModel::push_diff_list", "UserModel::undo", "UserModel::redo", "UserModel::flush_send_queue"},
    }
    for eff, allow in allowed.items():
        writers = sorted(p for p, d in P.direct.items() if eff in d)
        ck.ob("WMC-history", "%s.%s|has-writers" % (eff[0].rsplit("::", 1)[-1], eff[1]), len(writers) >= 1,
              "no writer found (anchor lost?)")
        for w in writers:
            q = F.qname_of(w)
            short = "::".join(q.split("::")[-2:])
            h = F.heads[w]
            ck.ob("WMC-history", "%s.%s|writer %s" % (eff[0].rsplit("::", 1)[-1], eff[1], short), short in allow,
                  "%s writes %s.%s; only %s may" % (short, eff[0].rsplit("::", 1)[-1], eff[1], sorted(allow)),
                  h["file"], P.direct[w][eff], sample={"field": eff[1], "writer": short})
    # can_undo / can_redo read the stack of their own name
    for m, fld, other in (("can_undo", "undo_stack", "redo_stack"), ("can_redo", "redo_stack", "undo_stack")):
        b = ck.need(F.one, "UserModel::" + m)
        read = set()
        for bi, si, p, role in all_places(b):
            for e in place_proj(p):
                if e[0] == "f" and e[3] == HISTORY:
                    read.add(e[2])
        ck.ob("WMC-history", "%s|reads-own-stack" % m, read == {fld}, "%s reads %s" % (m, sorted(read)), b.file, b.line)
        emp = b.calls_to("std::vec::Vec::is_empty")
        ck.ob("WMC-history", "%s|tests-emptiness" % m, len(emp) == 1, "%s does not test is_empty" % m, b.file, b.line)


# ------------------------------------------------------------------------------------------------
def table_queue(ck, F):
    """TABLE-queue (C03): what is appended to send_queue and with which tag; replay dispatch."""
    def pushes(b):
        """[(bi, tag)] for every Vec::push onto self.send_queue; tag read off the QueueDiffs aggregate."""
        out = []
        for bi, t in b.calls_to("std::vec::Vec::push"):
            r = b.trace(t["args"][0])
            if r["kind"] != "place":
                continue
            if not [e for e in place_proj(r["place"]) if e[0] == "f" and e[2] == "send_queue"]:
                continue
            tag = None
            v = b.trace(t["args"][1])
            if v["kind"] == "rv" and v["rv"]["k"] == "agg" and v["rv"].get("adt", "").endswith("QueueDiffs"):
                ops = dict(zip(v["rv"]["fields"], v["rv"]["ops"]))
                tv = b.trace(ops["type"])
                if tv["kind"] == "rv" and tv["rv"]["k"] == "agg":
                    tag = tv["rv"].get("variant")
                elif tv["kind"] == "const":
                    tag = tv["const"].get("d")
            out.append((bi, tag))
        return out

    pd = ck.need(F.one, "UserModel::push_diff_list")
    ps = pushes(pd)
    ck.ob("TABLE-queue", "push_diff_list|queues-once-as-Redo", [t for _, t in ps] == ["Redo"],
          "push_diff_list queues %s" % [t for _, t in ps], pd.file, pd.line, sample={"fn": "push_diff_list", "queue": [t for _, t in ps]})
    hp = pd.calls_to("History::push")
    ck.ob("TABLE-queue", "push_diff_list|records-history-once", len(hp) == 1,
          "push_diff_list calls History::push %d times" % len(hp), pd.file, pd.line)
    for m, tag, applier, hist in (("undo", "Undo", "UserModel::apply_undo_diff_list", "History::undo"),
                                  ("redo", "Redo", "UserModel::apply_diff_list", "History::redo")):
        b = ck.need(F.one, "UserModel::" + m)
        ps = pushes(b)
        ck.ob("TABLE-queue", "%s|queues-once-as-%s" % (m, tag), [t for _, t in ps] == [tag],
              "UserModel::%s queues %s" % (m, [t for _, t in ps]), b.file, b.line, sample={"fn": m, "queue": [t for _, t in ps]})
        ap = b.calls_to(applier)
        hs = b.calls_to(hist)
        other = b.calls_to("UserModel::apply_diff_list" if m == "undo" else "UserModel::apply_undo_diff_list")
        ck.ob("TABLE-queue", "%s|applies-%s" % (m, applier.rsplit("::", 1)[-1]), len(ap) == 1 and len(hs) == 1 and not other,
              "UserModel::%s must pop with %s and apply with %s exactly once" % (m, hist, applier), b.file, b.line)
        if len(ap) == 1 and len(ps) == 1:
            ck.ob("TABLE-queue", "%s|queue-after-apply" % m, b.dominates(ap[0][0], ps[0][0]),
                  "queue append is not dominated by the application", b.file, b.line)
    # apply_external_diffs: dispatch on the tag, no history / queue writes
    ex = ck.need(F.one, "UserModel::apply_external_diffs")
    DT = "ironcalc_base::user_model::history::DiffType"
    sw = enum_switches(ex, DT)
    ok = False
    detail = "no match over DiffType"
    if len(sw) == 1:
        bi, tg, wild, info = sw[0]
        # `matches!(x, Redo)` lowers to Redo -> A, otherwise -> B
        t = ex.term(bi)
        tmap = {info["variants"].get(v, v): tb for v, tb in t["targets"]}
        redo_side = tmap.get("Redo")
        undo_side = tmap.get("Undo", t["otherwise"])
        # follow the boolean produced by matches! to the branch on it
        ra = _reaches_call(ex, redo_side, "UserModel::apply_diff_list", "UserModel::apply_undo_diff_list")
        ua = _reaches_call(ex, undo_side, "UserModel::apply_undo_diff_list", "UserModel::apply_diff_list")
        ok = ra and ua
        detail = "Redo->%s Undo->%s" % (ra, ua)
    ck.ob("TABLE-queue", "apply_external_diffs|dispatch", ok,
          "apply_external_diffs must apply Redo batches with apply_diff_list and Undo batches with apply_undo_diff_list (%s)" % detail,
          ex.file, ex.line, sample={"dispatch": detail})
    P = Program(F)
    eff = P.effects(ex.path)
    for e in ((USERMODEL, "history"), (USERMODEL, "send_queue"), (HISTORY, "undo_stack"), (HISTORY, "redo_stack")):
        ck.ob("TABLE-queue", "apply_external_diffs|no-write %s" % e[1], e not in eff,
              "replaying external diffs writes %s.%s (via %s): a replica must not record or echo" % (e[0].rsplit("::", 1)[-1], e[1], F.qname_of(eff.get(e, ""))),
              ex.file, ex.line)
    fl = ck.need(F.one, "UserModel::flush_send_queue")
    enc = fl.calls_to("bitcode::encode")
    assigns = [(bi, si) for bi, si, s in fl.stmts() if [e for e in place_proj(s["p"]) if e[0] == "f" and e[2] == "send_queue"]]
    ok = len(enc) == 1 and len(assigns) == 1 and fl.dominates(enc[0][0], assigns[0][0])
    if ok:
        r = fl.trace(enc[0][1]["args"][0])
        ok = r["kind"] == "place" and [e for e in place_proj(r["place"]) if e[0] == "f" and e[2] == "send_queue"] != []
    ck.ob("TABLE-queue", "flush_send_queue|encode-then-empty", ok,
          "flush_send_queue must encode self.send_queue and only then empty it", fl.file, fl.line)


def _reaches_call(body, start, want, avoid_callee):
    """From block `start`, following the first branch decisions deterministically is not possible in
    general; we require: `want` is called in a block reachable from start without passing a call to
    `avoid_callee`, and `avoid_callee` is not reachable without passing `want`... simplified to: the first
    of the two appliers met on every path from start is `want`."""
    if start is None:
        return False
    seen = set()
    st = [start]
    found = False
    while st:
        x = st.pop()
        if x in seen:
            continue
        seen.add(x)
        t = body.term(x)
        if t["k"] == "call":
            q = body.callee_q(t) or ""
            if q.endswith(want):
                found = True
                continue
            if q.endswith(avoid_callee):
                return False
        # a boolean temp set here and switched on later: follow only the matching edge
        nxt = body.succs(x)
        if t["k"] == "switch":
            info = body.switch_info(x)
            rv = info.get("rv") if info else None
            val = _const_bool_at(body, t["o"], seen)
            if val is not None:
                tb = None
                for v, b in t["targets"]:
                    if int(v) == val:
                        tb = b
                nxt = [tb if tb is not None else t["otherwise"]]
        st.extend(nxt)
    return found


def _const_bool_at(body, op, visited):
    """If the switched operand is a local whose assignments inside `visited` blocks are a single constant
    bool, return it (the lowering of matches!)."""
    p = op_place(op)
    if p is None or place_proj(p):
        return None
    l = p["l"]
    # through a copy
    vals = set()
    for (bi, si) in body.defs().get(l, []):
        if si == "t":
            return None
        rv = body.blocks[bi]["s"][si]["rv"]
        if rv["k"] == "use" and rv["o"].get("k"):
            if bi in visited:
                cb = const_bool(rv["o"])
                vals.add(None if cb is None else int(cb))
        elif rv["k"] == "use" and op_place(rv["o"]) is not None:
            return _const_bool_at(body, rv["o"], visited)
        else:
            return None
    if len(vals) == 1 and None not in vals:
        return vals.pop()
    return None


# ------------------------------------------------------------------------------------------------
class OpModel:
    """Per user-model operation: blocks that record (push), blocks that write persistent state,
    error blocks."""

    def __init__(self, F, P, ptypes, pushers):
        self.F, self.P, self.ptypes, self.pushers = F, P, ptypes, pushers
        self._eff_cache = {}

    def callee_persistent(self, path):
        r = self._eff_cache.get(path)
        if r is None:
            r = sorted(e for e in self.P.effects(path) if is_persistent_effect(e, self.ptypes))
            self._eff_cache[path] = r
        return r

    def analyse(self, body):
        F = self.F
        from effects import block_effects
        push, write = {}, {}
        be = block_effects(body.rec, F.adts)
        for bi, es in be.items():
            for e, line in es:
                if is_persistent_effect(e, self.ptypes):
                    write.setdefault(bi, []).append("%s.%s" % (e[0].rsplit("::", 1)[-1], e[1]))
        for bi, b in enumerate(body.blocks):
            t = b["t"]
            if t.get("cleanup") or t["k"] != "call":
                continue
            c = t["fn"].get("closure") or t["fn"].get("r")
            if c in self.pushers:
                push[bi] = F.qname_of(c)
                continue
            if c and c in F.heads:
                if self.P.reachable(c) & self.pushers:
                    push[bi] = F.qname_of(c)
                pe = self.callee_persistent(c)
                if pe:
                    write.setdefault(bi, []).append("call %s" % short(F.qname_of(c)))
        return push, write


def short(q):
    parts = q.split("::")
    return "::".join(parts[-2:]) if len(parts) >= 2 else q


REC_ALLOW = {
    "undo": "replays recorded diffs; History::undo moves the entry to the redo stack",
    "redo": "replays recorded diffs; History::redo moves the entry back",
    "apply_external_diffs": "replica side: applies another model's diffs, must not record (C03)",
    "set_language": "display language is not workbook state; checked under C10",
    "evaluate": "recomputation only; derived values",
    "from_model": "constructor", "new_empty": "constructor", "from_bytes": "constructor",
}


def rec_rule(ck, F):
    """REC (C01/C03): every public &mut self operation that writes persistent workbook state records a
    diff list on every normal path that performed such a write."""
    P = Program(F)
    ptypes = persistent_types(F)
    ck.note("persistent_types", len(ptypes))
    pushers = set(F.find("UserModel::push_diff_list"))
    if not pushers:
        ck.anchor("UserModel::push_diff_list")
        return
    om = OpModel(F, P, ptypes, pushers)
    n = 0
    for path in usermodel_ops(F):
        h = F.heads[path]
        if not takes_mut_self(h):
            continue
        name = h["name"]
        pe = om.callee_persistent(path)
        # view-only operations have no persistent effect
        if not pe:
            ck.ob("REC", "%s|no-persistent-write" % name, True, nontrivial=False)
            continue
        if name in REC_ALLOW:
            ck.ob("REC", "%s|allow-listed" % name, True, REC_ALLOW[name], nontrivial=False)
            continue
        n += 1
        body = F.body(path)
        push, write = om.analyse(body)
        errs = err_blocks(body)
        ck.ob("REC", "%s|reaches-push" % name, bool(push),
              "UserModel::%s writes persistent workbook state (%s) but never reaches push_diff_list: the change can be neither undone nor replicated"
              % (name, ", ".join("%s.%s" % (a.rsplit("::", 1)[-1], f) for a, f in pe[:4])), h["file"], h["line"],
              sample={"op": name, "writes": ["%s.%s" % (a.rsplit("::", 1)[-1], f) for a, f in pe[:3]], "push_sites": len(push)})
        if not push:
            continue
        # path rule: entry ->(avoid push) w ->(avoid push, avoid err) return
        pushb = set(push)
        pre = body.reachable_from(0, avoid=pushb)
        rets = set(body.return_blocks())
        lpush, empty_true = local_diff_idiom(body)
        for w, what in sorted(write.items()):
            if w not in pre or w in pushb:
                continue
            bad = unrecorded_return(body, w, pushb | errs, rets, lpush, empty_true)
            f, l = body.loc(w)
            key = "%s|unrecorded-path|%s" % (name, what[0])
            if (name, what[0]) in REC_EXCEPT:
                ck.ob("REC", key, True, REC_EXCEPT[(name, what[0])], nontrivial=False)
                continue
            ck.ob("REC", key, not bad,
                  "UserModel::%s: a normal return is reachable after `%s` without passing push_diff_list" % (name, what[0]), f, l,
                  sample={"op": name, "write": what[0], "unrecorded_return": bool(bad)})
    ck.note("recording_ops", n)


REC_EXCEPT = {}


def local_diff_idiom(body):
    """The local-recording idiom: `let mut diff_list = Vec::new(); .. diff_list.push(Diff::..) ..;
    if diff_list.is_empty() { return Ok(()) } self.push_diff_list(diff_list)`.
    Returns (blocks that push onto a local Vec<Diff>, {(switch block, target)} edges taken when the local
    list is empty)."""
    dl = {i for i, t in enumerate(body.locals) if t.startswith("std::vec::Vec<" + DIFF)}
    lpush, empty_true = set(), set()
    F = body.facts
    for bi, t in body.calls():
        # `self.helper(.., &mut diff_list)?` where the helper pushes a Diff onto that list on every normal return
        c = body.callee(t)
        if F is not None and c in F.heads and F.has(c) and c != body.path:
            for i, a in enumerate(t["args"], 1):
                rt = body.ref_target(a)
                if rt is not None and not place_proj(rt) and rt["l"] in dl and _always_pushes(F, c, i):
                    lpush.add(bi)
    for bi, t in body.calls():
        q = body.callee_q(t) or ""
        if not t["args"]:
            continue
        rt = body.ref_target(t["args"][0])
        if rt is None or place_proj(rt) or rt["l"] not in dl:
            continue
        if q in ("std::vec::Vec::push", "std::vec::Vec::append", "std::vec::Vec::insert") or q.endswith("Extend<T>>::extend") or q.endswith("::extend"):
            lpush.add(bi)
        if q == "std::vec::Vec::is_empty" and not place_proj(t["dest"]):
            res = t["dest"]["l"]
            # the switch consuming the result (possibly through a copy / Not)
            for sb, blk in enumerate(body.blocks):
                tt = blk["t"]
                if tt["k"] != "switch":
                    continue
                p = op_place(tt["o"])
                if p is None or place_proj(p):
                    continue
                src = body.trace(tt["o"])
                neg = False
                if src["kind"] == "rv" and src["rv"]["k"] == "un" and src["rv"]["op"] == "Not":
                    neg = True
                    src = body.trace(src["rv"]["a"])
                if src["kind"] == "call" and src["bi"] == bi:
                    zero_t = [b for v, b in tt["targets"] if v == "0"]
                    true_t = tt["otherwise"] if not neg else (zero_t[0] if zero_t else None)
                    if true_t is not None:
                        empty_true.add((sb, true_t))
    return lpush, empty_true


_AP = {}


def _always_pushes(F, c, param):
    """Every normal return of function c is preceded by a Vec::push (extend / append) onto its `&mut Vec<Diff>` parameter
    number `param`."""
    key = (c, param)
    if key in _AP:
        return _AP[key]
    _AP[key] = False
    hb = F.body(c)
    if param > hb.nargs or not hb.locals[param].replace(" ", "").startswith("&mutstd::vec::Vec<" + DIFF):
        return False
    pushes = set()
    for bi, t in hb.calls():
        q = hb.callee_q(t) or ""
        if not t["args"]:
            continue
        if q in ("std::vec::Vec::push", "std::vec::Vec::append", "std::vec::Vec::insert") or q.endswith("::extend"):
            a0 = op_place(t["args"][0])
            l = a0["l"] if a0 is not None and not place_proj(a0) else None
            for _ in range(4):
                if l is None or l == param:
                    break
                rv = hb.def_rvalue(l)
                if rv is None:
                    l = None
                elif rv["k"] in ("use", "cast") and op_place(rv["o"]) is not None and not place_proj(op_place(rv["o"])):
                    l = op_place(rv["o"])["l"]
                elif rv["k"] == "ref" and all(e[0] == "*" for e in place_proj(rv["p"])):
                    l = rv["p"]["l"]
                else:
                    l = None
            if l == param:
                pushes.add(bi)
    if not pushes:
        return False
    errs = err_blocks(hb)
    rets = set(hb.return_blocks())
    seen, st = set(), [0]
    ok = True
    while st:
        x = st.pop()
        if x in seen or x in pushes or x in errs:
            continue
        seen.add(x)
        if x in rets:
            ok = False
            break
        st.extend(hb.succs(x))
    _AP[key] = ok
    return ok


def unrecorded_return(body, w, avoid, rets, lpush, empty_true):
    """Is a normal return reachable from write block w without passing `avoid` blocks, where the edge
    'local diff list is empty' is infeasible once a local push happened after w?"""
    seen = set()
    st = [(s, w in lpush) for s in body.succs(w)]
    while st:
        x, lp = st.pop()
        if x in avoid or (x, lp) in seen:
            continue
        seen.add((x, lp))
        if x in rets:
            return True
        nlp = lp or x in lpush
        for s in body.succs(x):
            if nlp and (x, s) in empty_true:
                continue
            st.append((s, nlp))
    return False


# ------------------------------------------------------------------------------------------------
PUSH_LAST_EXCEPT = {
    # (function, error source) — why the callee cannot fail at that point
    ("hide_sheet", "? on Model::set_sheet_state"):
        "set_sheet_state fails only when worksheet_mut(sheet) does; worksheet(sheet)? with the same index precedes the push",
    ("unhide_sheet", "? on Model::set_sheet_state"):
        "set_sheet_state fails only when worksheet_mut(sheet) does; worksheet(sheet)? with the same index precedes the push",
    ("delete_defined_name", "? on Model::delete_defined_name"):
        "Model::delete_defined_name fails only when the (upper-cased name, scope) lookup fails; get_defined_name_formula(name, scope)? "
        "performs the identical lookup before the push",
}


def push_last(ck, F):
    """PUSH-LAST (C04 rule 1): no error exit is reachable after the history record was pushed."""
    P = Program(F)
    pushers = set(F.find("UserModel::push_diff_list"))
    if not pushers:
        ck.anchor("UserModel::push_diff_list")
        return
    n_sites = 0
    for path in usermodel_ops(F, vis=None):
        h = F.heads[path]
        if h["name"] in ("push_diff_list",):
            continue
        if not (h.get("output") or "").startswith("std::result::Result"):
            # infallible operation: nothing to check, but count it
            continue
        body = F.body(path)
        pushes = []
        for bi, t in body.calls():
            c = t["fn"].get("r")
            if c in pushers or (c in F.heads and F.heads[c].get("impl_adt") == USERMODEL and P.reachable(c) & pushers
                                and not (F.heads[c].get("output") or "").startswith("std::result::Result")):
                pushes.append(bi)
        if not pushes:
            continue
        errs = err_blocks(body)
        for pb in pushes:
            n_sites += 1
            after = body.strictly_after(pb)
            bad_err = sorted(after & errs)
            reported = set()
            for eb in bad_err:
                src = _err_source(body, eb)
                if src in reported:
                    continue
                reported.add(src)
                f, l = body.loc(eb)
                key = "%s|err-after-push|%s" % (h["name"], src)
                if (h["name"], src) in PUSH_LAST_EXCEPT:
                    ck.ob("PUSH-LAST", key, True, PUSH_LAST_EXCEPT[(h["name"], src)], nontrivial=False)
                    continue
                ck.ob("PUSH-LAST", key, False,
                      "UserModel::%s can still return Err (%s) after push_diff_list: a failed call leaves an undo entry and clears redo" % (h["name"], src), f, l)
            # tail calls whose Result is returned as is
            for bi in sorted(after):
                t = body.term(bi)
                if t["k"] == "call" and not place_proj(t["dest"]) and t["dest"]["l"] == 0:
                    c = t["fn"].get("r")
                    out = F.heads.get(c, {}).get("output", "")
                    if out.startswith("std::result::Result"):
                        src = "tail " + short(F.qname_of(c))
                        f, l = body.loc(bi)
                        key = "%s|err-after-push|%s" % (h["name"], src)
                        if (h["name"], src) in PUSH_LAST_EXCEPT:
                            ck.ob("PUSH-LAST", key, True, PUSH_LAST_EXCEPT[(h["name"], src)], nontrivial=False)
                            continue
                        can_fail = _can_return_err(F, P, c)
                        ck.ob("PUSH-LAST", key, not can_fail,
                              "UserModel::%s returns the Result of %s after push_diff_list: if it fails the undo entry stays" % (h["name"], short(F.qname_of(c))), f, l)
            if not bad_err:
                ck.ob("PUSH-LAST", "%s|push@%s|no-err-after" % (h["name"], _push_ordinal(pushes, pb)), True,
                      sample={"op": h["name"], "err_exits_after_push": 0})
    ck.note("push_sites", n_sites)


def _push_ordinal(pushes, pb):
    return sorted(pushes).index(pb)


def _can_return_err(F, P, path):
    """A local fn can return Err if it (transitively) contains an error block."""
    for p in P.reachable(path):
        b = F.body(p)
        if b is not None and err_blocks(b):
            return True
    return False


def _err_source(body, eb):
    """Name the fallible callee feeding a `?` error block, or 'explicit Err'."""
    t = body.term(eb)
    if t["k"] == "call" and (body.callee_q(t) or "").endswith("from_residual"):
        # residual comes from a Try::branch call on some result
        r = body.trace(t["args"][0])
        # walk back: residual = (branch_result as Break).0 ; branch_result = Try::branch(x) ; x = CALL f
        for _ in range(6):
            if r["kind"] == "place":
                l = r["place"]["l"]
                rv = body.def_rvalue(l)
                if rv is None:
                    break
                if rv["k"] == "call":
                    q = body.callee_q(rv["t"]) or ""
                    if q.endswith("Try>::branch") or q.endswith("::branch"):
                        r = body.trace(rv["t"]["args"][0])
                        continue
                    return "? on " + short(q)
                if rv["k"] == "use":
                    r = body.trace(rv["o"])
                    continue
                break
            if r["kind"] == "call":
                q = body.callee_q(r["t"]) or ""
                if q.endswith("Try>::branch") or q.endswith("::branch"):
                    r = body.trace(r["t"]["args"][0])
                    continue
                return "? on " + short(q)
            break
        return "? (unresolved source)"
    return "explicit Err"


def rec_args(ck, F, rule="REC-ARGS"):
    """The history record describes the operation that was actually applied: where a UserModel operation X calls
    Model::X and pushes a Diff variant, every numeric Diff field that has the same name as a parameter of Model::X comes
    from the same inputs (parameters, fields, arithmetic) as the argument passed for that parameter."""
    from rules_attr import sources
    DIFF = "ironcalc_base::user_model::history::Diff"
    for path in sorted(F.body_paths()):
        h = F.heads[path]
        if h.get("bkind") != "fn" or "user_model" not in path:
            continue
        b = F.body(path)
        aggs = []
        for bi, si, s in b.stmts():
            rv = s["rv"]
            if rv["k"] == "agg" and rv.get("adt") == DIFF:
                aggs.append((bi, si, rv["variant"], dict(zip(rv.get("fields") or [], rv["ops"]))))
        if not aggs:
            continue
        me = b.qname.split("::")[-1]
        for cbi, t in b.calls():
            c = b.callee(t)
            if c not in F.heads or "::Model::" not in (F.qname_of(c) or ""):
                continue
            cb = F.body(c)
            if cb.qname.split("::")[-1] != me:
                continue
            pn = {cb.local_name(i): i - 1 for i in range(1, cb.nargs + 1) if cb.local_name(i)}
            for (abi, asi, var, flds) in aggs:
                if len([k for k in flds if k in pn]) < 2:
                    continue
                for k in flds:
                    if k not in pn or pn[k] >= len(t["args"]) or cb.locals[pn[k] + 1] not in ("i32", "u32", "usize", "f64", "i64"):
                        continue
                    pa = {a for a in sources(b, flds[k]) if a[0] in ("param", "field", "arith")}
                    pc = {a for a in sources(b, t["args"][pn[k]]) if a[0] in ("param", "field", "arith")}
                    if not pa:
                        continue    # per-item records built from a returned list
                    f, l = b.loc(abi, asi)
                    ck.ob(rule, "%s|%s.%s" % (me, var, k), pa == pc,
                          "%s records Diff::%s.%s from %s but passes %s to Model::%s as `%s`: undo/redo would replay a different operation"
                          % (me, var, k, sorted(map(str, pa)), sorted(map(str, pc)), me, k), f, l, sample={"op": me, "variant": var, "field": k})


def queue_append_only(ck, F, rule="QUEUE-APPEND"):
    """Outside flush_send_queue the replication queue only grows: every `&mut` use of UserModel.send_queue is a
    Vec::push, and the only plain stores to the field are the constructors' empty vectors and flush's reset."""
    UM = "ironcalc_base::user_model::common::UserModel"
    n = 0
    for path in sorted(F.body_paths()):
        if "user_model" not in path:
            continue
        b = F.body(path)
        me = b.qname.split("::", 1)[-1]
        # &mut borrows of the field and what receives them
        borrows = {}
        for bi, si, s in b.stmts():
            rv = s["rv"]
            if rv["k"] in ("ref", "rawptr") and rv.get("mut"):
                rp = b.resolve_place(rv["p"])
                fs = [e for e in place_proj(rp) if e[0] == "f"]
                if fs and fs[-1][2] == "send_queue" and fs[-1][3] == UM and place_proj(rp)[-1] is fs[-1] and not place_proj(s["p"]):
                    borrows[s["p"]["l"]] = (bi, si)
            # plain store to the field
            if place_proj(s["p"]):
                rp = b.resolve_place(s["p"])
                fs = [e for e in place_proj(rp) if e[0] == "f"]
                if fs and fs[-1][2] == "send_queue" and fs[-1][3] == UM and place_proj(rp)[-1] is fs[-1]:
                    n += 1
                    f, l = b.loc(bi, si)
                    ck.ob(rule, "%s|store" % me, me.endswith("flush_send_queue"),
                          "%s overwrites send_queue: pending diffs would never reach the replicas" % me, f, l)
        for bi, t in b.calls():
            for a in t["args"][:1]:
                p = op_place(a)
                if p is not None and not place_proj(p) and p["l"] in borrows:
                    last = (b.callee_q(t) or "?").rsplit("::", 1)[-1]
                    n += 1
                    f, l = b.loc(bi)
                    ck.ob(rule, "%s|%s" % (me, last), last == "push" or me.endswith("flush_send_queue"),
                          "%s calls %s on send_queue: only push may touch the queue outside flush_send_queue (a removed entry is a change the replicas never see)" % (me, last),
                          f, l, sample={"fn": me, "method": last})
    ck.note("send_queue_uses", n)


def replay_pure(ck, F, rule="WMC-history"):
    """Replay does not record: the transitive write effects of apply_diff_list and apply_undo_diff_list contain neither
    of the history stacks nor the send queue (a replay arm that calls a recording UserModel entry point instead of the
    Model method of the same name clears the redo stack and duplicates the change)."""
    P = Program(F)
    bad_fields = {(HISTORY, "undo_stack"), (HISTORY, "redo_stack"), (USERMODEL, "send_queue")}
    for fn in ("apply_diff_list", "apply_undo_diff_list"):
        b = ck.need(F.one, "UserModel::" + fn)
        eff = P.effects(b.path)
        hit = sorted(e for e in eff if e in bad_fields)
        # name the call that brings the effect in
        via = None
        if hit:
            for bi, t in b.calls():
                c = b.callee(t)
                if c in F.heads and any(e in P.effects(c) for e in hit):
                    via = (bi, F.qname_of(c).split("::", 1)[-1])
                    break
        f, l = b.loc(via[0]) if via else (b.file, b.line)
        ck.ob(rule, "%s|records-nothing" % fn, not hit,
              "%s can write %s (through %s): replaying a change records it again -- the redo stack is cleared in the middle of a redo and "
              "replicas receive the change twice" % (fn, ["%s.%s" % (e[0].rsplit("::", 1)[-1], e[1]) for e in hit], via[1] if via else "?"), f, l,
              sample={"fn": fn})


# ------------------------------------------------------------------------------------------------ CANON-RECORD / REPLAY-ARGS
def _parsed_text_params(F, P):
    """callee path -> indices of its *text* parameters whose value flows into the formula parser (argument 1 of
    expressions::parser::Parser::parse), directly or through callees.  Memoised least fixed point."""
    from rules_attr import sources
    PARSE = set(F.find("expressions::parser::Parser::parse"))
    memo = {}

    def rec(c, depth=0):
        if c in memo:
            return memo[c]
        memo[c] = set()
        if c not in F.heads or not F.has(c) or depth > 8:
            return memo[c]
        cb = F.body(c)
        names = {cb.local_name(i): i - 1 for i in range(1, cb.nargs + 1)}
        out = set()
        for bi, t in cb.calls():
            c2 = cb.callee(t)
            if c2 in PARSE:
                idxs = {1}
            elif c2 in F.heads and P.reaches(c2, PARSE):
                idxs = rec(c2, depth + 1)
            else:
                continue
            for i in idxs:
                if i < len(t["args"]):
                    for x in sources(cb, t["args"][i], text_calls=True):
                        if x[0] == "param" and x[1] in names:
                            ty = cb.locals[names[x[1]] + 1]
                            if "str" in ty or "String" in ty:
                                out.add(names[x[1]])
        memo[c] = out
        return out
    return PARSE, rec


def _diff_arms(F, fn):
    from mir import enum_switches, arm_region
    b = F.one("UserModel::" + fn)
    sw = [x for x in enum_switches(b, DIFF)]
    if not sw:
        return b, None, {}
    top = max(sw, key=lambda x: len(x[1]))
    return b, top, {var: arm_region(b, top[0], entry) for var, entry in top[1].items()}


def canon_record(ck, F, rule="CANON-RECORD"):
    """What the record stores must mean the same wherever and whenever it is replayed.  The display language is per-user
    view state (UserModel::set_language records nothing and from_bytes takes it as an argument), so a text field of a
    Diff that a replay arm hands to a formula-parsing entry point must be language-independent: at every place the
    variant is recorded, the field has to come from a getter of stored text (one that cannot reach the localized
    printer), not from the caller's typed text and not from a display getter."""
    from rules_attr import sources
    P = Program(F)
    PARSE, parsed = _parsed_text_params(F, P)
    LOC = set(F.find("stringify::to_localized_string")) | set(F.find("Model::internal_formula_to_display"))
    ck.ob(rule, "anchors", bool(PARSE) and bool(LOC), "formula parser / localized printer not found (anchor lost)")
    replayed = {}
    for fn in ("apply_diff_list", "apply_undo_diff_list"):
        b, top, arms = _diff_arms(F, fn)
        for var, region in sorted(arms.items()):
            for bi in sorted(region):
                t = b.term(bi)
                if t["k"] != "call":
                    continue
                c = b.callee(t)
                if c not in F.heads:
                    continue
                for i in parsed(c):
                    if i < len(t["args"]):
                        for x in sources(b, t["args"][i]):
                            if x[0] == "field" and x[1] == DIFF:
                                replayed.setdefault((var, x[2]), (fn, F.qname_of(c).rsplit("::", 1)[-1]))
    ck.ob(rule, "replayed-text-fields", len(replayed) >= 6,
          "only %d Diff text fields found that a replay arm passes to a parsing entry point (expected the cell value, array value and "
          "defined-name formula fields): anchor lost" % len(replayed))
    n = 0
    for path in sorted(F.body_paths()):
        h = F.heads[path]
        if "user_model" not in path or h.get("impl_trait") or h.get("bkind") != "fn":
            continue
        b = F.body(path)
        me = b.qname.split("::")[-1]
        if me in ("clone", "decode_in_place", "decode", "encode"):
            continue
        params = {b.local_name(i) for i in range(1, b.nargs + 1)}
        seen = {}
        for bi, si, s in b.stmts():
            rv = s["rv"]
            if rv["k"] != "agg" or rv.get("adt") != DIFF:
                continue
            flds = dict(zip(rv.get("fields") or [], rv["ops"]))
            for k, o in flds.items():
                if (rv["variant"], k) not in replayed:
                    continue
                sr = sources(b, o, text_calls=True)
                direct = sources(b, o)
                typed = sorted(x[1] for x in direct if x[0] == "param" and x[1] in params and x[1] != "self")
                crate_calls = sorted({x[1] for x in direct if x[0] == "call" and x[1].startswith(("ironcalc_base::", "ironcalc::"))})
                localized = []
                for q in crate_calls:
                    ps = [p for p in F.find(q.split("ironcalc_base::", 1)[-1]) if F.qname_of(p) == q] or F.find(q.split("ironcalc_base::", 1)[-1])
                    if any(p in LOC or P.reaches(p, LOC) for p in ps):
                        localized.append(q.rsplit("::", 1)[-1])
                if typed:
                    origin, ok = "typed:" + ",".join(typed), False
                elif localized:
                    origin, ok = "display:" + ",".join(sorted(localized)), False
                elif crate_calls:
                    origin, ok = "stored:" + ",".join(q.rsplit("::", 1)[-1] for q in crate_calls), True
                else:
                    origin, ok = "untracked", False
                via = replayed[(rv["variant"], k)]
                # under SetCellValue / SetArrayValue even stored (English) text is re-read under the replaying language
                if ok and via[1] in ("set_user_input", "set_user_array_formula"):
                    ok = False
                # keyed by recorder and field (not by where the text came from: an equivalent rewrite of the recorder
                # must not turn a listed finding into a new one)
                key = "%s|%s.%s" % (me, rv["variant"], k)
                idx = seen[key] = seen.get(key, 0) + 1
                if idx > 1:
                    key += "#%d" % idx
                n += 1
                f, l = b.loc(bi, si)
                ck.ob(rule, key, ok,
                      "%s records Diff::%s.%s from %s; %s hands that field to Model::%s, which parses it under the display language of the model that "
                      "replays it -- a replica showing another language, or a redo after set_language, reads a different formula/value"
                      % (me, rv["variant"], k, origin, via[0], via[1]), f, l,
                      sample={"recorder": me, "field": "%s.%s" % (rv["variant"], k), "origin": origin, "replayed_by": via[1]})
    ck.note("recorded_text_fields", n)


def replay_args(ck, F, rule="REPLAY-ARGS"):
    """Replay uses what was recorded: in each arm of apply_diff_list / apply_undo_diff_list, an argument passed to a
    Model/Worksheet method for a parameter that has the same name as a field of the arm's Diff variant comes from that
    field (and from nothing read off the live model).  An arm that recomputes a recorded coordinate from the current
    state, or substitutes another field, replays a different operation whenever the two disagree."""
    from rules_attr import sources
    n = 0
    adt = F.adt(DIFF) if hasattr(F, "adt") else None
    for fn in ("apply_diff_list", "apply_undo_diff_list"):
        b, top, arms = _diff_arms(F, fn)
        ck.ob(rule, "%s|arms" % fn, len(arms) >= 40, "%s: Diff match not found (anchor lost)" % fn, b.file, b.line)
        for var, region in sorted(arms.items()):
            k = 0
            for bi in sorted(region):
                t = b.term(bi)
                if t["k"] != "call":
                    continue
                c = b.callee(t)
                if c not in F.heads or not F.has(c):
                    continue
                q = F.qname_of(c) or ""
                if "::Model::" not in q and "::Worksheet::" not in q:
                    continue
                cb = F.body(c)
                pn = {cb.local_name(i): i - 1 for i in range(1, cb.nargs + 1) if cb.local_name(i)}
                fields = _variant_fields(F, var)
                for name, i in sorted(pn.items()):
                    if name not in fields or i >= len(t["args"]) or name == "self":
                        continue
                    sr = sources(b, t["args"][i])
                    mine = {x[2] for x in sr if x[0] == "field" and x[1] == DIFF}
                    other = sorted(x for x in sr if (x[0] == "field" and x[1] != DIFF) or x[0] == "call" and
                                   x[1].startswith(("ironcalc_base::", "ironcalc::")) or (x[0] == "call" and x[1].rsplit("::", 1)[-1] in ("count", "len", "position")))
                    if fn == "apply_diff_list":
                        # forward: exactly the recorded field (a loop over a recorded extent may add arithmetic, never another field)
                        ok = mine == {name}
                    else:
                        # backward: the like-named field, or an inverse built from recorded fields alone (move back: new_index
                        # <-> sheet_index, column + delta) -- but nothing recomputed from the live workbook
                        ok = name in mine or (bool(mine) and not other)
                    k += 1
                    n += 1
                    f, l = b.loc(bi)
                    ck.ob(rule, "%s|%s|%s(%s)" % (fn, var, q.rsplit("::", 1)[-1], name), ok,
                          "%s, arm %s: passes %s to %s as `%s` instead of the recorded Diff::%s.%s: the replay acts on a position/argument "
                          "recomputed from the current state, not on the one the operation used"
                          % (fn, var, sorted(map(str, sr))[:4], q.rsplit("::", 1)[-1], name, var, name), f, l,
                          sample={"list": fn, "variant": var, "callee": q.rsplit("::", 1)[-1], "param": name})
    ck.note("replay_named_arguments", n)


_VF = {}


def _variant_fields(F, var):
    if not _VF:
        rec = F.adts.get(DIFF) or {}
        for v in rec.get("variants", []):
            _VF[v.get("name")] = {f.get("name") for f in v.get("fields", [])}
    return _VF.get(var, set())


# ------------------------------------------------------------------------------------------------ EFFECT-PARITY (C03)
PARITY_OWNERS = ("ironcalc_base::types::Workbook", "ironcalc_base::types::Worksheet", "ironcalc_base::types::Styles")


def effect_parity(ck, F, rule="EFFECT-PARITY"):
    """What an operation writes, its replay can write: for every public UserModel operation that records Diff variants, each
    table of Workbook / Worksheet / Styles in the operation's transitive write effects (evaluation caches and per-user
    views aside) is also in the write effects of the forward replay arms of those variants.  An operation that extends a
    table the replay never touches (the operation interns a differential style, the diff only carries its index) leaves
    every replica without the entry the recorded index points to."""
    from effects import block_effects
    P = Program(F)
    pt = persistent_types(F)
    b, top, arms = _diff_arms(F, "apply_diff_list")
    ck.ob(rule, "apply_diff_list|arms", len(arms) >= 40, "apply_diff_list: Diff match not found (anchor lost)", b.file, b.line)
    be = block_effects(b.rec, F.adts)
    arm_eff = {}
    for var, region in arms.items():
        es = set()
        for bi in region:
            t = b.term(bi)
            if t["k"] == "call":
                c = b.callee(t)
                if c in F.heads:
                    es |= set(P.effects(c))
            for e, _ in be.get(bi, []):
                es.add(e)
        arm_eff[var] = es
    ev = set()
    for p in F.find("Model::evaluate"):
        ev |= set(P.effects(p))
    n = 0
    for path in sorted(F.body_paths()):
        h = F.heads[path]
        if h.get("impl_adt") != USERMODEL or h.get("bkind") != "fn" or h.get("vis") != "pub":
            continue
        variants = set()
        for q in P.reachable(path) | {path}:
            if "user_model" not in q or not F.has(q):
                continue
            bb = F.body(q)
            for bi, si, s in bb.stmts():
                rv = s["rv"]
                if rv["k"] == "agg" and rv.get("adt") == DIFF:
                    variants.add(rv["variant"])
        if not variants:
            continue
        op = {e for e in P.effects(path) if e[0] in PARITY_OWNERS and is_persistent_effect(e, pt)}
        replay = set()
        for v in variants:
            replay |= arm_eff.get(v, set())
        missing = sorted(e for e in op - replay - ev if e[1] not in ("views",))
        n += 1
        if not missing:
            ck.ob(rule, "%s|tables written are tables replayed" % h["name"], True, "", h["file"], h["line"],
                  sample={"op": h["name"], "variants": sorted(variants)})
        for e in missing:
            ck.ob(rule, "%s|%s.%s" % (h["name"], e[0].rsplit("::", 1)[-1], e[1]), False,
                  "%s writes %s.%s, but the replay arms of the variants it records (%s) cannot: a replica applying the diff never gets that "
                  "entry, so whatever the diff refers to in that table is missing or different there"
                  % (h["name"], e[0].rsplit("::", 1)[-1], e[1], ", ".join(sorted(variants))), h["file"], h["line"],
                  sample={"op": h["name"], "table": "%s.%s" % (e[0].rsplit("::", 1)[-1], e[1])})
    ck.note("recording_operations", n)
