"""Structural edits (C12-C15), metadata displacement (C33), spill bookkeeping (C31), well-formedness guards (C27)."""
from effects import Program, block_effects
from mir import (all_places, arm_region, enum_switches, op_place, place_proj, const_int)
from rules_attr import sources
from rules_um import err_blocks, persistent_types, is_persistent_effect

MODEL = "ironcalc_base::model::Model"
DISPLACE = "ironcalc_base::expressions::parser::stringify::DisplaceData"
SIX = ["insert_rows", "insert_columns", "delete_rows", "delete_columns", "move_rows_action", "move_columns_action"]
MOVERS = ("Model::move_cell", "Worksheet::remove_cell", "Model::move_row_unchecked", "Model::move_column_unchecked")


def spill_reset(ck, F, rule="SPILL-RESET"):
    """reset_dynamic_array_spills(sheet) dominates every cell relocation in the six structural operations
    (move_cell's `debug_assert_eq!(*r, (1, 1))` states this belief; the rule checks it)."""
    for fn in SIX:
        b = ck.need(F.one, "model::Model::" + fn)
        resets = b.calls_to("Model::reset_dynamic_array_spills")
        moves = b.calls_to(*MOVERS)
        direct_removes = []
        for bi, t in b.calls():
            q = b.callee_q(t) or ""
            if q.endswith("HashMap::remove") and t["args"]:
                rt = b.ref_target(t["args"][0])
                if rt and [e for e in place_proj(rt) if e[0] == "f" and e[2] == "sheet_data"]:
                    direct_removes.append((bi, t))
        ck.ob(rule, "%s|has-reset-and-moves" % fn, len(resets) == 1 and len(moves) >= 1,
              "%s: expected one reset_dynamic_array_spills and at least one relocation, found %d / %d" % (fn, len(resets), len(moves)), b.file, b.line)
        if len(resets) != 1:
            continue
        rb = resets[0][0]
        for k, (bi, t) in enumerate(moves + direct_removes):
            f, l = b.loc(bi)
            ck.ob(rule, "%s|reset-dominates %s#%d" % (fn, (b.callee_q(t) or "").rsplit("::", 1)[-1], k), b.dominates(rb, bi),
                  "%s relocates cells (%s) on a path that has not reset the dynamic-array spills first: stale spill cells would be moved as data"
                  % (fn, (b.callee_q(t) or "").rsplit("::", 1)[-1]), f, l,
                  sample={"fn": fn, "relocation": (b.callee_q(t) or "").rsplit("::", 1)[-1], "dominated": b.dominates(rb, bi)})
        # the same sheet is reset as is edited
        sr = sources(b, resets[0][1]["args"][1])
        ck.ob(rule, "%s|reset-same-sheet" % fn, ("param", "sheet") in sr, "%s resets spills of %s, not of its `sheet` parameter" % (fn, sorted(sr)), *b.loc(rb))


def ordered_writes(b, F, P, pt):
    """{block: description} of the persistent writes of a body, placed where they happen: stores, calls whose effect
    summary writes persistent state, and `&mut` borrows handed straight to a mutator.  A `&mut` borrow bound to a named
    variable (`let styles = &mut self.workbook.styles;`) is not itself a write: what is written through it shows up at the
    stores and (re)borrows that use it."""
    named_borrow = set()
    for bi, blk in enumerate(b.blocks):
        for s in blk["s"]:
            rv = s["rv"]
            if rv["k"] in ("ref", "rawptr") and rv.get("mut") and not place_proj(s["p"]) and b.local_name(s["p"]["l"]):
                named_borrow.add((bi, s.get("line", 0)))
    be = block_effects(b.rec, F.adts)
    writes = {}
    for bi, es in be.items():
        for e, line in es:
            if is_persistent_effect(e, pt):
                if (bi, line) in named_borrow and not _store_on_line(b, bi, line):
                    continue
                writes.setdefault(bi, "%s.%s" % (e[0].rsplit("::", 1)[-1], e[1]))
    for bi, t in b.calls():
        c = t["fn"].get("r")
        if c in F.heads:
            pe = [e for e in P.effects(c) if is_persistent_effect(e, pt)]
            if pe:
                writes.setdefault(bi, "call " + F.qname_of(c).rsplit("::", 1)[-1])
    return writes


def _store_on_line(b, bi, line):
    return any(place_proj(s["p"]) and s.get("line", 0) == line for s in b.blocks[bi]["s"])


def validate_first(ck, F, rule="VALIDATE-FIRST", fns=None):
    """In the structural operations no explicit error construction is reachable after the first call or store whose
    effect summary writes persistent state; and the can_* pre-check dominates the first such write."""
    P = Program(F)
    pt = persistent_types(F)
    for fn in (fns or SIX):
        b = ck.need(F.one, "model::Model::" + fn)
        writes = ordered_writes(b, F, P, pt)
        ck.ob(rule, "%s|has-writes" % fn, bool(writes), "%s: no persistent write found (anchor lost?)" % fn, b.file, b.line)
        if not writes:
            continue
        # explicit Err constructions (not `?` propagation)
        explicit = set()
        for bi, si, s in b.stmts():
            rv = s["rv"]
            if rv["k"] == "agg" and rv.get("adt") == "std::result::Result" and rv.get("variant") == "Err":
                explicit.add(bi)
        after = set()
        for w in writes:
            after |= b.strictly_after(w)
        bad = sorted(explicit & after)
        for eb in bad:
            f, l = b.loc(eb)
            ck.ob(rule, "%s|explicit-Err-after-write@%d" % (fn, bad.index(eb)), False,
                  "%s can construct an explicit error after it already wrote persistent state (%s): a failed call leaves a partial edit"
                  % (fn, sorted(set(writes.values()))[:3]), f, l)
        ck.ob(rule, "%s|no-explicit-Err-after-first-write" % fn, not bad, "", b.file, b.line,
              sample={"fn": fn, "explicit_err_sites": len(explicit), "after_write": len(bad), "first_writes": sorted(set(writes.values()))[:3]})
        # can_* pre-check dominates the first write
        base = fn.replace("_action", "")
        can = [c for c in b.calls() if (b.callee_q(c[1]) or "").rsplit("::", 1)[-1].startswith("can_")]
        ok = bool(can) and all(any(b.dominates(cb, w) for cb, _ in can) for w in writes)
        ck.ob(rule, "%s|can_*-precheck-dominates-writes" % fn, ok,
              "%s writes before (or without) its can_* array-formula pre-check" % fn, b.file, b.line,
              sample={"fn": fn, "prechecks": [(b.callee_q(c[1]) or "").rsplit("::", 1)[-1] for c in can]})


def triple(ck, F, rule="TRIPLE"):
    """Every function that displaces cell formulas also displaces links and conditional-format ranges of the same
    sheet, with a DisplaceData of the same variant."""
    P = Program(F)
    dc = set(F.find("model::Model::displace_cells"))
    dl = set(F.find("actions::displace_links"))
    dcf = set(F.find("model::Model::displace_cf_ranges"))
    if not (dc and dl and dcf):
        ck.anchor("displace_cells / displace_links / displace_cf_ranges")
        return
    n = 0
    for path in sorted(F.body_paths()):
        cs = set(F.calls.get(path, []))
        if not (cs & dc):
            continue
        h = F.heads[path]
        if h["name"] in ("displace_cells",):
            continue
        n += 1
        b = F.body(path)
        has_l = bool(cs & dl)
        has_cf = bool(cs & dcf)
        ck.ob(rule, "%s|links-and-cf-follow-cells" % h["name"], has_l and has_cf,
              "%s rewrites cell formulas (displace_cells) but not %s: hyperlinks / conditional formats would stay behind" %
              (h["name"], ", ".join(x for x, ok in (("links", has_l), ("conditional-format ranges", has_cf)) if not ok)), h["file"], h["line"],
              sample={"fn": h["name"], "displace_links": has_l, "displace_cf_ranges": has_cf})
        # same DisplaceData value passed to both
        c1 = b.calls_to("Model::displace_cells")
        c2 = b.calls_to("Model::displace_cf_ranges")
        if c1 and c2:
            s1 = b.ref_target(c1[0][1]["args"][1])
            s2 = b.ref_target(c2[0][1]["args"][2])
            same = s1 is not None and s2 is not None and s1["l"] == s2["l"]
            ck.ob(rule, "%s|same-displace-data" % h["name"], same,
                  "%s passes different DisplaceData values to displace_cells and displace_cf_ranges" % h["name"], *b.loc(c2[0][0]))
            sh = sources(b, c2[0][1]["args"][1])
            ck.ob(rule, "%s|cf-same-sheet" % h["name"], ("param", "sheet") in sh, "%s displaces CF ranges of %s" % (h["name"], sorted(sh)), *b.loc(c2[0][0]))
    ck.note("displacing_functions", n)


def shift_pair(ck, F, rule="SHIFT-PAIR"):
    """Row/column descriptor rebuild: insert shifts descriptors at or after the position by +count, delete drops the
    band and shifts the rest by -count (operand provenance and comparison operands only)."""
    ROW = "ironcalc_base::types::Row"
    for fn, sign, count_name, pos_name in (("insert_rows", "Add", "row_count", "row"), ("delete_rows", "Sub", "row_count", "row")):
        b0 = ck.need(F.one, "model::Model::" + fn)
        found = []
        for b in unit_bodies(F, b0):
            for bi, si, s in b.stmts():
                p = b.resolve_place(s["p"], through_named=False) if place_proj(s["p"]) else s["p"]
                fs = [e for e in place_proj(p) if e[0] == "f"]
                if fs and fs[-1][3] == ROW and fs[-1][2] == "r" and s["rv"]["k"] == "use":
                    sr = sources(b, s["rv"]["o"])
                    found.append((b, bi, si, sr))
        ck.ob(rule, "%s|one-shift-site" % fn, len(found) == 1, "%s: expected one store into Row.r, found %d" % (fn, len(found)), b0.file, b0.line)
        for b, bi, si, sr in found:
            f, l = b.loc(bi, si)
            ok = ("arith", sign) in sr and ("param", count_name) in sr and ("field", ROW, "r") in sr and \
                not [x for x in sr if x[0] == "arith" and x[1] != sign]
            ck.ob(rule, "%s|shift-by %s count" % (fn, "+" if sign == "Add" else "-"), ok,
                  "%s rebuilds Row.r from %s, expected r %s %s" % (fn, sorted(map(str, sr)), "+" if sign == "Add" else "-", count_name), f, l,
                  sample={"fn": fn, "sources": sorted(map(str, sr))})
            # the comparison guarding the shifted branch involves the position parameter (and the count for delete)
            doms = b.dominators_of(bi)
            guard_params = set()
            for d in doms:
                t = b.term(d)
                if t["k"] == "switch" and t["ty"] == "bool":
                    src = b.trace(t["o"])
                    if src["kind"] == "rv" and src["rv"]["k"] == "bin" and src["rv"]["op"] in ("Ge", "Gt", "Lt", "Le"):
                        gs = sources(b, src["rv"]["a"]) | sources(b, src["rv"]["b"])
                        if ("field", ROW, "r") in gs:
                            guard_params |= {x[1] for x in gs if x[0] == "param"}
            want = {pos_name} if fn.startswith("insert") else {pos_name, count_name}
            ck.ob(rule, "%s|shift-guard-uses %s" % (fn, "+".join(sorted(want))), want <= guard_params,
                  "%s shifts a row descriptor under a guard comparing r with %s, expected %s" % (fn, sorted(guard_params), sorted(want)), f, l)


def unit_bodies(F, b, helpers=False):
    """The body of a function followed by the bodies of the closures written in it (a `for` loop rewritten as an
    iterator chain moves its statements there); with helpers=True also the private functions of the same file that it
    calls, and their closures (the body of a match arm moved into a helper)."""
    out = [b]
    for p in sorted(F.body_paths()):
        if p != b.path and F.heads[p].get("root") == b.path:
            out.append(F.body(p))
    if helpers:
        seen = {x.path for x in out}
        for bb in list(out):
            for bi, t in bb.calls():
                c = bb.callee(t)
                hc = F.heads.get(c) if c else None
                if hc is None or not F.has(c) or c in seen or hc.get("file") != b.file or hc.get("vis") in ("pub",) or hc.get("bkind") != "fn":
                    continue
                seen.add(c)
                out.append(F.body(c))
                for p in sorted(F.body_paths()):
                    if p != c and F.heads[p].get("root") == c and p not in seen:
                        seen.add(p)
                        out.append(F.body(p))
    return out


def reentry(ck, F, rule="RE-ENTRY"):
    """Relocated cell *values* must not re-enter through set_user_input / set_user_array_formula from their display
    text (get_localized_text ..): only formula text (get_cell_formula) may. And move_cell must have a path that stores
    the source Cell itself at the target (update_cell with a clone of the fetched cell)."""
    for fn in ("move_cell", "move_column_unchecked", "move_row_unchecked"):
        b = ck.need(F.one, "model::Model::" + fn)
        k = 0
        for bi, t in b.calls_to("Model::set_user_input", "Model::set_user_array_formula"):
            sr = sources(b, t["args"][4] if (b.callee_q(t) or "").endswith("set_user_input") else t["args"][6])
            calls = {x[1].rsplit("::", 1)[-1] for x in sr if x[0] == "call"}
            # formulas legitimately travel as A1 text (relative references are re-anchored at the target);
            # *values* must not: their display text is re-interpreted on entry
            textual = bool(calls & {"get_localized_text", "get_localized_cell_content", "get_text", "unwrap_or_else"})
            k += 1
            f, l = b.loc(bi)
            ck.ob(rule, "%s|%s#%d" % (fn, (b.callee_q(t) or "").rsplit("::", 1)[-1], k), not textual,
                  "%s relocates a cell by re-entering its display text through %s: content is re-interpreted (a quote-prefixed '123 "
                  "becomes the number 123, look-alike text changes type)" % (fn, (b.callee_q(t) or "").rsplit("::", 1)[-1]), f, l,
                  sample={"fn": fn, "text_sources": sorted(calls)})


def value_move(ck, F, rule="RE-ENTRY"):
    b = ck.need(F.one, "model::Model::move_cell")
    ups = b.calls_to("Worksheet::update_cell")
    ok = False
    for bi, t in ups:
        sr = sources(b, t["args"][3])
        if any(x[0] == "call" and x[1].endswith("Worksheet::cell") for x in sr):
            ok = True
    ck.ob(rule, "move_cell|values-moved-as-cells", ok,
          "move_cell has no path that stores the source Cell itself at the target: every cell is re-typed as text", b.file, b.line,
          sample={"update_cell_sites": len(ups), "moves_source_cell": ok})


def move_order(ck, F, rule="MOVE-ORDER"):
    """Block moves iterate single moves in the order that keeps indices valid: reversed iff delta > 0."""
    for fn, single in (("move_rows_action", "Model::move_row_unchecked"), ("move_columns_action", "Model::move_column_unchecked")):
        b = ck.need(F.one, "model::Model::" + fn)
        # the switch on `delta > 0`
        sw = None
        for bi, blk in enumerate(b.blocks):
            t = blk["t"]
            if t["k"] == "switch" and t["ty"] == "bool":
                src = b.trace(t["o"])
                if src["kind"] == "rv" and src["rv"]["k"] == "bin" and src["rv"]["op"] in ("Gt", "Lt", "Ge", "Le"):
                    sa, sb_ = sources(b, src["rv"]["a"]), sources(b, src["rv"]["b"])
                    if ("param", "delta") in sa and const_int(src["rv"]["b"]) == 0 and src["rv"]["op"] == "Gt":
                        zero = [x for v, x in t["targets"] if v == "0"]
                        sw = (bi, t["otherwise"], zero[0] if zero else None)
        ck.ob(rule, "%s|branches-on-delta>0" % fn, sw is not None, "%s does not branch on `delta > 0`" % fn, b.file, b.line)
        if sw is None:
            continue
        bi, pos_t, neg_t = sw
        calls = b.calls_to(single)
        revs = [cb for cb, t in b.calls_to("std::iter::Iterator::rev")]
        pos_region = b.reachable_from(pos_t, avoid={neg_t} if neg_t is not None else ())
        neg_region = b.reachable_from(neg_t, avoid={pos_t}) if neg_t is not None else set()
        pos_calls = [c for c, _ in calls if c in pos_region and c not in neg_region]
        neg_calls = [c for c, _ in calls if c in neg_region and c not in pos_region]
        pos_rev = any(r in pos_region and r not in neg_region for r in revs)
        neg_rev = any(r in neg_region and r not in pos_region for r in revs)
        ck.ob(rule, "%s|delta>0-iterates-reversed" % fn, bool(pos_calls) and pos_rev,
              "%s moves towards higher indices without iterating the block in reverse: a single move overwrites rows/columns not yet moved" % fn, *b.loc(bi),
              sample={"fn": fn, "positive_branch_reversed": pos_rev, "negative_branch_reversed": neg_rev})
        ck.ob(rule, "%s|delta<0-iterates-forward" % fn, bool(neg_calls) and not neg_rev,
              "%s moves towards lower indices while iterating the block in reverse" % fn, *b.loc(bi))


# ------------------------------------------------------------------------------------------------ C33
WSLINKS = ("ironcalc_base::types::Worksheet", "links")
LINK_APPLIERS = {"apply_diff_list", "apply_undo_diff_list", "set_user_input_with_link_diffs"}
# structural operations whose undo is the inverse structural operation (links are displaced back, not captured)
LINK_DISPLACERS = {"insert_rows", "insert_columns", "move_rows_action", "move_columns_action"}


def link_diff(ck, F, rule="LINK-DIFF"):
    """Every UserModel operation that calls a Model function able to add or remove hyperlinks records the change:
    (a) range_link_diffs dominates the call and feeds the pushed diff list, or (b) the call goes through
    set_user_input_with_link_diffs, or (c) the function constructs Diff::SetCellLink itself."""
    from rules_um import USERMODEL, usermodel_ops, DIFF
    P = Program(F)
    n = 0
    for path in usermodel_ops(F, vis=None):
        h = F.heads[path]
        if h["name"] in LINK_APPLIERS:
            continue
        b = F.body(path)
        sites = []
        for bi, t in b.calls():
            c = t["fn"].get("r")
            if c in F.heads and F.heads[c].get("impl_adt") != USERMODEL and WSLINKS in P.effects(c):
                sites.append((bi, t, F.qname_of(c).rsplit("::", 1)[-1]))
        if not sites:
            continue
        rld = b.calls_to("UserModel::range_link_diffs")
        makes_link_diff = any(s["rv"]["k"] == "agg" and s["rv"].get("adt") == DIFF and s["rv"].get("variant") == "SetCellLink" for _, _, s in b.stmts())
        for k, (bi, t, callee) in enumerate(sites):
            n += 1
            f, l = b.loc(bi)
            if callee in LINK_DISPLACERS:
                ck.ob(rule, "%s|%s|displaced-not-removed" % (h["name"], callee), True, nontrivial=False)
                continue
            ok_a = any(b.dominates(rb, bi) for rb, _ in rld)
            ok_c = makes_link_diff
            ck.ob(rule, "%s|%s#%d" % (h["name"], callee, k), ok_a or ok_c,
                  "UserModel::%s calls Model::%s, which can add or remove a cell's hyperlink, without capturing the link change "
                  "(no dominating range_link_diffs, no SetCellLink diff, not through set_user_input_with_link_diffs): undo cannot restore the link"
                  % (h["name"], callee), f, l, sample={"op": h["name"], "callee": callee, "range_link_diffs": ok_a, "SetCellLink": ok_c})
    ck.note("link_sites", n)
    # model side: clearing content removes the links in the same function
    for fn in ("range_clear_contents", "range_clear_all"):
        b = ck.need(F.one, "model::Model::" + fn)
        from effects import direct_effects
        de = direct_effects(b.rec, F.adts)
        ck.ob(rule, "Model::%s|removes-links" % fn, WSLINKS in de or WSLINKS in P.effects(b.path),
              "Model::%s clears cells but never touches Worksheet.links: the hyperlinks of cleared cells would stay" % fn, b.file, b.line)
    su = ck.need(F.one, "model::Model::set_user_input")
    de = P.direct.get(su.path, {})
    ck.ob(rule, "Model::set_user_input|empty-input-removes-link", WSLINKS in de,
          "Model::set_user_input never writes Worksheet.links: clearing a cell by typing nothing would keep its hyperlink", su.file, su.line)


def triple_cut(ck, F, rule="TRIPLE-cut"):
    """The cut branch of paste_from_clipboard consults all three `get_*_updates_for_cut` and records a diff for each kind
    of update it applies."""
    from rules_um import DIFF
    b = ck.need(F.one, "UserModel::paste_from_clipboard")
    wanted = {"get_external_formula_updates_for_cut": "SetCellValue", "get_defined_name_updates_for_cut": "UpdateDefinedName",
              "get_conditional_formatting_updates_for_cut": "UpdateConditionalFormatting"}
    diffs = {s["rv"]["variant"] for _, _, s in b.stmts() if s["rv"]["k"] == "agg" and s["rv"].get("adt") == DIFF}
    calls = {}
    for fn in wanted:
        calls[fn] = b.calls_to("Model::" + fn)
    for fn, dv in wanted.items():
        cs = calls[fn]
        f, l = b.loc(cs[0][0]) if cs else (b.file, b.line)
        ck.ob(rule, "paste_from_clipboard|%s" % fn, len(cs) == 1 and dv in diffs,
              "the cut branch of paste_from_clipboard %s: references to the cut area in %s would not follow the cells (or the rewrite could not be undone)"
              % ("does not call %s" % fn if not cs else "applies %s without recording Diff::%s" % (fn, dv), fn.split("_updates")[0].replace("get_", "").replace("_", " ")), f, l,
              sample={"helper": fn, "diff": dv, "called": len(cs), "recorded": dv in diffs})
    # all three are in the same (cut) branch: dominated by the same condition block
    blocks = [calls[fn][0][0] for fn in wanted if calls[fn]]
    if len(blocks) == 3:
        first = min(blocks)
        ok = all(b.dominates(first, x) or x == first for x in blocks)
        ck.ob(rule, "paste_from_clipboard|same-branch", ok, "the three cut updates are not on the same path", *b.loc(first))


# ------------------------------------------------------------------------------------------------ C31 / C27
CELL = "ironcalc_base::types::Cell"
ERRORT = "ironcalc_base::expressions::token::Error"

OWN_SPILL_EXCEPT = {
    "apply_undo_diff_list[Diff::SetArrayValue]": "undo of an array formula clears exactly the width x height range recorded in the diff (the range the "
                                                 "operation itself filled: a CSE range cannot contain foreign content) and restores old_values right after",
    "paste_from_clipboard": "cut branch clears the anchor's stored block skipping freshly pasted cells; the stored block size is kept consistent "
                            "by prepare_cell_for_user_input (typing over a spill cell resets the anchor), probe: type over a spill cell with "
                            "evaluation paused, cut the anchor: the typed cell survives",
}


def spill_rules(ck, F, rule="SPILL"):
    """Spill bookkeeping in set_cells_with_result / evaluate_cell / undo."""
    sc = ck.need(F.one, "model::Model::set_cells_with_result")
    # (1) both #SPILL! exits precede the first write of the dynamic branch: no Error::SPILL construction is reachable after an update_cell
    spill_blocks = set()
    for bi, si, s in sc.stmts():
        rv = s["rv"]
        if rv["k"] == "agg" and rv.get("adt") == ERRORT and rv.get("variant") == "SPILL":
            spill_blocks.add(bi)
        if rv["k"] == "use" and rv["o"].get("k") and "Error::SPILL" in str(rv["o"]["k"].get("d", "")):
            spill_blocks.add(bi)
    for bi, blk in enumerate(sc.blocks):
        t = blk["t"]
        if t["k"] == "call":
            for a in t["args"]:
                k = a.get("k")
                if k and "Error::SPILL" in str(k.get("d", "")):
                    spill_blocks.add(bi)
    ups = sc.calls_to("Worksheet::update_cell")
    ck.ob(rule, "set_cells_with_result|SPILL-exits-found", len(spill_blocks) >= 2, "expected the two #SPILL! exits (bounds, blocked), found %d" % len(spill_blocks), sc.file, sc.line)
    after = set()
    for bi, t in ups:
        after |= sc.strictly_after(bi)
    bad = spill_blocks & after
    ck.ob(rule, "set_cells_with_result|no-SPILL-after-write", not bad,
          "set_cells_with_result can decide #SPILL! after it already wrote spill cells: a partially written block would remain", sc.file, sc.line,
          sample={"spill_exits": len(spill_blocks), "write_sites": len(ups)})
    # (2) scan loop and write loop range over the same bounds
    ranges = []
    for bi, si, s in sc.stmts():
        rv = s["rv"]
        if rv["k"] == "agg" and rv.get("adt", "").endswith("ops::Range") and len(rv["ops"]) == 2:
            ends = sources(sc, rv["ops"][1])
            names = set()
            for o in rv["ops"]:
                p = op_place(o)
            names = {x[1] for x in ends if x[0] == "param"}
            # locals named array_width / array_height flow in through arithmetic; use their debug names
            ranges.append((bi, frozenset(map(str, ends))))
    from collections import Counter
    cnt = Counter(r for _, r in ranges)
    dyn = [r for r, n in cnt.items() if n >= 2]
    ck.ob(rule, "set_cells_with_result|scan-and-write-same-bounds", len(dyn) >= 2,
          "the blocking scan and the write loop of the dynamic branch do not iterate identical (row, column) ranges: a cell could be written without "
          "having been checked", sc.file, sc.line, sample={"range_shapes": len(cnt), "shared_by_two_loops": len(dyn)})
    # (3) who may construct spill cells
    allowed = {"set_cells_with_result", "get_cell_from_excel", "clone", "decode_in_place"}
    for p in sorted(F.body_paths()):
        if '"variant":"SpillCell"' not in F._raw[p]:
            continue
        b = F.body(p)
        n = sum(1 for _, _, s in b.stmts() if s["rv"]["k"] == "agg" and s["rv"].get("adt") == CELL and s["rv"].get("variant") == "SpillCell")
        if not n:
            continue
        h = F.heads[p]
        ck.ob(rule, "SpillCell-constructor|%s" % F.qname_of(p).split("::", 1)[-1], h["name"] in allowed,
              "%s constructs Cell::SpillCell: spill cells may only be written by the evaluator (and the importer), otherwise a spill cell without anchor can exist"
              % F.qname_of(p), h["file"], h["line"], sample={"constructor": F.qname_of(p), "sites": n})
    # (4) ownership test before clearing cells of an anchor's stored block: a clean-up site is a cell_clear_contents call
    #     nested in two loops (rows x columns) whose result is ignored; inside the same loop body there must be a read of
    #     the `a` (anchor) field of a Cell::SpillCell (directly or in a closure created there) on which the call depends
    from mir import loop_header_of, all_places as _ap
    for qn in ("model::Model::evaluate_cell", "UserModel::apply_undo_diff_list", "UserModel::paste_from_clipboard"):
        b = ck.need(F.one, qn)
        fn = qn.rsplit("::", 1)[-1]
        clears = b.calls_to("Worksheet::cell_clear_contents")
        k = 0
        for bi, t in clears:
            h1 = loop_header_of(b, bi)
            if h1 is None:
                continue
            # nested: the header itself lies in another loop
            outer = None
            for d in b.dominators_of(h1)[1:]:
                if any(b.dominates(d, p_) for p_ in b.preds(d)):
                    outer = d
                    break
            if outer is None:
                continue
            # result ignored (`let _ = ..`): the destination is never read
            dest = t["dest"]["l"]
            used = any(p_["l"] == dest and role == "r" for bj_, si_, p_, role in _ap(b)
                       if not (si_ == "t" and b.term(bj_)["k"] == "drop") and not (si_ != "t" and b.blocks[bj_]["s"][si_]["rv"]["k"] == "discr"))
            if used:
                continue
            # blocks of the inner loop body that can reach the call
            body_blocks = {x for x in b.reachable_from(h1) if bi in b.reachable_from(x, avoid={h1}) or x == bi}
            reads_anchor = False
            for x in body_blocks:
                blk = b.blocks[x]
                places = [s_["p"] for s_ in blk["s"]]
                for s_ in blk["s"]:
                    from mir import rvalue_places
                    places.extend(rvalue_places(s_["rv"]))
                    rv = s_["rv"]
                    if rv["k"] == "agg" and rv.get("agg") == "closure":
                        cb = F.body(rv["def"])
                        if cb is not None:
                            for _, _, p2, _ in _ap(cb):
                                if any(e[0] == "f" and e[3] == CELL and e[4] == "SpillCell" and e[2] == "a" for e in place_proj(p2)):
                                    reads_anchor = True
                for p2 in places:
                    if any(e[0] == "f" and e[3] == CELL and e[4] == "SpillCell" and e[2] == "a" for e in place_proj(p2)):
                        reads_anchor = True
            # the call is conditional inside the loop body (some block of the body branches around it)
            conditional = any(b.term(x)["k"] == "switch" and not all(bi in b.reachable_from(s_, avoid={h1}) for s_ in b.succs(x)) for x in body_blocks if x != bi)
            ok = reads_anchor and conditional
            k += 1
            f, l = b.loc(bi)
            label = fn
            from rules_um import DIFF as _DIFF
            for sbi, tg, wild, info in enum_switches(b, _DIFF):
                for vn, entry in tg.items():
                    if vn is not None and bi in arm_region(b, sbi, entry):
                        label = "%s[Diff::%s]" % (fn, vn)
            if not ok and label in OWN_SPILL_EXCEPT:
                ck.ob(rule, "%s|spill-cleanup|ownership" % label, True, OWN_SPILL_EXCEPT[label], nontrivial=False)
                continue
            ck.ob(rule, "%s|spill-cleanup#%d|ownership" % (label, k), ok,
                  "%s clears cells of a spill block without first testing that the cell is a SpillCell anchored at this formula: user content inside a stale block would be erased"
                  % fn, f, l, sample={"fn": fn, "reads_anchor_field": reads_anchor, "conditional": conditional})


WORKSHEET = "ironcalc_base::types::Worksheet"
NAME_EXCEPT = {
    ("new_sheet", "new_empty_worksheet"): "generated name: the localized base name (a constant per language) plus a counter, looped until no "
                                          "existing name matches case-insensitively; valid by construction (letters and digits, < 31 chars)",
    ("new_empty", "new_empty_worksheet"): "first sheet of a new workbook: a constant per language",
}


def wellformed_guards(ck, F):
    """C27 guards at the writers: NAME-GUARD, ID-FRESH, GRID-GUARD."""
    from rules_sel import validated_at
    P = Program(F)
    # ---------------- NAME-GUARD
    R = "NAME-GUARD"
    sites = []
    for path in sorted(F.body_paths()):
        h = F.heads[path]
        if h["crate"] != "ironcalc_base" or h.get("impl_trait"):
            continue
        cs = " ".join(F.calls.get(path, []))
        if "set_name" not in cs and "new_empty_worksheet" not in cs and '"name"' not in F._raw[path]:
            continue
        b = F.body(path)
        for bi, t in b.calls_to("Worksheet::set_name"):
            sites.append((b, bi, t["args"][1], "set_name"))
        for bi, t in b.calls_to("Model::new_empty_worksheet"):
            sites.append((b, bi, t["args"][0], "new_empty_worksheet"))
        for bi, si, s in b.stmts():
            if place_proj(s["p"]) and s["rv"]["k"] == "use":
                fs = [e for e in place_proj(s["p"]) if e[0] == "f"]
                if fs and fs[-1][3] == WORKSHEET and fs[-1][2] == "name" and h["name"] != "set_name":
                    sites.append((b, bi, s["rv"]["o"], "field-store"))
    ck.ob(R, "sites", len(sites) >= 4, "expected the rename, insert, new-sheet and duplicate name writers, found %d" % len(sites))
    for b, bi, op, kind in sites:
        h = F.heads[b.path]
        f, l = b.loc(bi)
        key = "%s|%s" % (h["name"], kind)
        if (h["name"], kind) in NAME_EXCEPT:
            ck.ob(R, key, True, NAME_EXCEPT[(h["name"], kind)], nontrivial=False)
            continue
        ok = validated_at(b, bi, op, ("is_valid_sheet_name",))
        # uniqueness: the function consults the existing names before the write
        uniq = any(b.dominates(cb, bi) for cb, _ in b.calls_to("Workbook::get_worksheet_names", "Model::get_sheet_index_by_name"))
        ck.ob(R, key + "|valid", ok,
              "%s gives a worksheet a name that did not pass is_valid_sheet_name on every path" % h["name"], f, l,
              sample={"fn": h["name"], "writer": kind, "validated": ok})
        ck.ob(R, key + "|unique", uniq,
              "%s gives a worksheet a name without consulting the existing sheet names first" % h["name"], f, l)
    # ---------------- ID-FRESH
    R = "ID-FRESH"
    n = 0
    for path in sorted(F.body_paths()):
        h = F.heads[path]
        if h["crate"] != "ironcalc_base" or h.get("impl_trait"):
            continue
        b = F.body(path) if ("new_empty_worksheet" in " ".join(F.calls.get(path, [])) or '"sheet_id"' in F._raw[path]) else None
        if b is None:
            continue
        cands = [(bi, t["args"][1], "new_empty_worksheet") for bi, t in b.calls_to("Model::new_empty_worksheet")]
        for bi, si, s in b.stmts():
            if place_proj(s["p"]) and s["rv"]["k"] == "use":
                fs = [e for e in place_proj(s["p"]) if e[0] == "f"]
                if fs and fs[-1][3] == WORKSHEET and fs[-1][2] == "sheet_id":
                    cands.append((bi, s["rv"]["o"], "field-store"))
        for bi, op, kind in cands:
            n += 1
            sr = sources(b, op)
            calls = {x[1].rsplit("::", 1)[-1] for x in sr if x[0] == "call"}
            params = {x[1] for x in sr if x[0] == "param"}
            consts = sr <= {("const",)}
            ok = "get_new_sheet_id" in calls or (params <= {"sheet_id"} and bool(params)) or (consts and h["name"] == "new_empty")
            f, l = b.loc(bi)
            ck.ob(R, "%s|%s" % (h["name"], kind), ok,
                  "%s creates a worksheet whose sheet_id comes from %s, neither get_new_sheet_id() nor a captured id" % (h["name"], sorted(map(str, sr))), f, l,
                  sample={"fn": h["name"], "sources": sorted(map(str, sr))})
    ck.ob(R, "sites", n >= 3, "expected id assignments in new_sheet, insert_sheet, duplicate_sheet, found %d" % n)
    # ---------------- GRID-GUARD
    R = "GRID-GUARD"
    uc = ck.need(F.one, "types::Worksheet::update_cell")
    ins = [(bi, t) for bi, t in uc.calls() if (uc.callee_q(t) or "").endswith("HashMap::insert")]
    ck.ob(R, "update_cell|insert-sites", len(ins) >= 2, "update_cell: expected inserts into the row map and the sheet map", uc.file, uc.line)
    for k, (bi, t) in enumerate(ins):
        okr = any(validated_at(uc, bi, a, ("is_valid_row",)) for a in t["args"][1:2]) or validated_at(uc, bi, {"c": {"l": uc.arg_local("row")}}, ("is_valid_row",))
        okc = validated_at(uc, bi, {"c": {"l": uc.arg_local("column")}}, ("is_valid_column_number",))
        ck.ob(R, "update_cell|insert#%d|row-and-column-validated" % k, okr and okc,
              "update_cell inserts a cell on a path where row/column did not pass is_valid_row / is_valid_column_number", *uc.loc(bi),
              sample={"row_validated": okr, "column_validated": okc})
    # who may insert into sheet_data directly
    allowed = {"update_cell": "validated above",
               "apply_undo_diff_list": "undo of DeleteRows restores whole row maps under the row keys recorded in the diff",
               "decode_in_place": "bitcode decode"}
    for path, d in sorted(P.direct.items()):
        if (WORKSHEET, "sheet_data") not in d:
            continue
        b = F.body(path)
        inserts = False
        for bi, t in b.calls():
            q = b.callee_q(t) or ""
            if q.rsplit("::", 1)[-1] in ("insert", "entry", "extend") and t["args"]:
                rt = b.ref_target(t["args"][0])
                if rt and [e for e in place_proj(rt) if e[0] == "f" and (e[3], e[2]) == (WORKSHEET, "sheet_data")]:
                    inserts = True
        for bi, si, s in b.stmts():
            fs = [e for e in place_proj(s["p"]) if e[0] == "f"]
            if fs and (fs[-1][3], fs[-1][2]) == (WORKSHEET, "sheet_data") and any(e[0] == "*" for e in place_proj(s["p"])):
                inserts = True
        if not inserts:
            continue
        h = F.heads[path]
        ck.ob(R, "sheet_data-inserter|%s" % h["name"], h["name"] in allowed,
              "%s inserts into Worksheet.sheet_data directly, bypassing update_cell's grid validation" % F.qname_of(path), h["file"], h["line"],
              sample={"fn": h["name"]})


def style_last(ck, F, rule="STYLE-LAST"):
    """Model::move_cell re-enters the content at the target (which runs unit inference and may restyle the cell) and
    copies the source style: the style copy comes after every re-entry, so the moved cell keeps its own format."""
    b = ck.need(F.one, "model::Model::move_cell")
    copies = [(bi, t) for bi, t in b.calls_to("Worksheet::set_cell_style")]
    reentries = [(bi, t) for bi, t in b.calls() if (b.callee_q(t) or "").rsplit("::", 1)[-1] in
                 ("set_user_input", "set_user_array_formula", "set_user_input_with_link_diffs", "set_cell_with_formula", "update_cell_with_text",
                  "update_cell_with_number", "update_cell_with_bool", "set_cell_with_string")]
    ck.ob(rule, "move_cell|anchors", len(copies) >= 1 and len(reentries) >= 1,
          "move_cell: expected a style copy and at least one re-entry call, found %d / %d" % (len(copies), len(reentries)), b.file, b.line)
    for rb, rt in reentries:
        name = (b.callee_q(rt) or "").rsplit("::", 1)[-1]
        after_copy = any(rb in b.strictly_after(cb) for cb, _ in copies)
        copy_follows = any(cb in b.strictly_after(rb) for cb, _ in copies)
        f, l = b.loc(rb)
        ck.ob(rule, "move_cell|%s-before-style-copy" % name, copy_follows and not after_copy,
              "move_cell calls %s after (or without a following) copy of the source style: the number format inferred from the "
              "formula's operands overrides the cell's own format when rows/columns are inserted, deleted or moved" % name, f, l,
              sample={"reentry": name})


def shift_pair_columns(ck, F, rule="SHIFT-PAIR"):
    """Column-descriptor rebuild: insert_columns moves Col.min / Col.max by exactly +column_count and delete_columns by
    exactly -column_count (or to the deletion boundary), nothing else -- no clamping, no other transformation -- so that
    the two are inverse on every descriptor they both touch."""
    COL = "ironcalc_base::types::Col"
    for fn, sign in (("insert_columns", "Add"), ("delete_columns", "Sub")):
        b0 = ck.need(F.one, "model::Model::" + fn)
        k = 0
        # the function, its closures, and the private helpers of the same file it calls (their parameters are read as
        # the caller's: `column_start` of a helper that receives `column` is `column`)
        units = [(bb, None) for bb in unit_bodies(F, b0)]
        for cbi, t in b0.calls():
            c = b0.callee(t)
            hc = F.heads.get(c) if c else None
            if hc is not None and F.has(c) and hc.get("file") == b0.file and hc.get("vis") not in ("pub",) and hc.get("bkind") == "fn" and c != b0.path:
                hb = F.body(c)
                pmap = {}
                for i, a in enumerate(t["args"], 1):
                    if i <= hb.nargs and hb.local_name(i):
                        pmap[hb.local_name(i)] = {x[1] for x in sources(b0, a) if x[0] == "param"}
                units.append((hb, pmap))
        for b, pmap in units:
          for bi, si, s in b.stmts():
            if not place_proj(s["p"]) or s["rv"]["k"] != "use":
                continue
            p = b.resolve_place(s["p"], through_named=False)
            fs = [e for e in place_proj(p) if e[0] == "f"]
            if not (fs and fs[-1][3] == COL and fs[-1][2] in ("min", "max")):
                continue
            k += 1
            fld = fs[-1][2]
            sr = sources(b, s["rv"]["o"])
            if pmap is not None:
                tr = set()
                for x in sr:
                    if x[0] == "param" and x[1] in pmap:
                        tr |= {("param", n) for n in pmap[x[1]]}
                    else:
                        tr.add(x)
                sr = tr
            bad = [x for x in sr if x[0] == "call" or (x[0] == "arith" and x[1] != sign and not (fn == "delete_columns" and x[1] == "Sub"))
                   or (x[0] == "field" and (x[1], x[2]) not in ((COL, "min"), (COL, "max"))) or (x[0] == "param" and x[1] not in ("column", "column_count"))]
            shifted = ("param", "column_count") in sr
            if shifted:
                bad += [x for x in sr if x[0] == "field" and x[2] != fld]
            f, l = b.loc(bi, si)
            ck.ob(rule, "%s|Col.%s#%d" % (fn, fld, k), not bad,
                  "%s rebuilds Col.%s from %s: only %s column_count (or the deletion boundary) is allowed, otherwise insert followed by "
                  "delete does not restore the descriptor" % (fn, fld, sorted(map(str, sr)), "+" if sign == "Add" else "-"), f, l,
                  sample={"fn": fn, "field": fld, "sources": sorted(map(str, sr))})
        ck.ob(rule, "%s|Col-stores" % fn, k >= 3, "%s: expected at least 3 stores into Col.min/max, found %d" % (fn, k), b0.file, b0.line)


def full_range_guard(ck, F, rule="FULL-RANGE"):
    """Whole-row / whole-column references (B:B, 3:3) keep their artificial end points: in stringify_reference the
    DisplaceData::Row arm only touches the row when `full_row` is false, the Column arm only touches the column when
    `full_column` is false (sibling arms, mirrored guards)."""
    from mir import enum_switches, arm_region, rvalue_places
    DD = "ironcalc_base::expressions::parser::stringify::DisplaceData"
    b = ck.need(F.one, "stringify::stringify_reference")
    names = {b.local_name(i): i for i in range(1, b.nargs + 1)}
    sws = enum_switches(b, DD)
    ck.ob(rule, "stringify_reference|DisplaceData-switch", len(sws) >= 1 and "full_row" in names and "full_column" in names,
          "stringify_reference: DisplaceData match or the full_row / full_column parameters not found", b.file, b.line)
    if not sws or "full_row" not in names:
        return
    sw_bi, arms = sws[0][0], sws[0][1]
    for variant, flag in (("Row", "full_row"), ("Column", "full_column")):
        entry = arms.get(variant)
        if entry is None:
            ck.ob(rule, "stringify_reference|%s-arm" % variant, False, "no arm for DisplaceData::%s" % variant, b.file, b.line)
            continue
        region = arm_region(b, sw_bi, entry)
        # edges on which the flag is false
        false_edges = []
        for bi in region:
            t = b.blocks[bi]["t"]
            if t["k"] == "switch" and t["ty"] == "bool":
                src = b.trace(t["o"])
                p = op_place(t["o"])
                l = None
                if src["kind"] == "arg":
                    l = src["local"]
                elif p is not None and not place_proj(p):
                    rv = b.def_rvalue(p["l"])
                    q = op_place(rv["o"]) if rv is not None and rv["k"] == "use" else None
                    l = q["l"] if q is not None and not place_proj(q) else p["l"]
                if l == names[flag]:
                    false_edges += [tg for v, tg in t["targets"] if v == "0"]
        # reads of the arm's delta payload
        reads = []
        for bi in sorted(region):
            for s in b.blocks[bi]["s"]:
                if s["rv"]["k"] in ("ref", "rawptr"):
                    continue     # the pattern binding `delta = &payload.delta`, not a read of its value
                for pl in rvalue_places(s["rv"]):
                    rp = b.resolve_place(pl, through_named=True)
                    if [e for e in place_proj(rp) if e[0] == "f" and e[2] == "delta" and e[3] == DD and e[4] == variant]:
                        reads.append(bi)
        reads = sorted(set(reads))
        f, l = b.loc(entry)
        ck.ob(rule, "stringify_reference|%s-arm reads delta" % variant, bool(reads), "DisplaceData::%s arm never reads delta (anchor lost?)" % variant, f, l)
        bad = [r for r in reads if not any(b.dominates(e, r) for e in false_edges)]
        ck.ob(rule, "stringify_reference|%s-arm guarded by !%s" % (variant, flag), not bad,
              "the DisplaceData::%s arm displaces the %s of a reference without testing `%s`: deleting row/column 1 (or the last one) "
              "turns the artificial end point of a whole-%s reference like B:B into #REF!" % (variant, variant.lower(), flag, "column" if variant == "Row" else "row"),
              *(b.loc(bad[0]) if bad else (f, l)), sample={"arm": variant, "flag": flag, "delta_reads": len(reads)})


TAUTOLOGY_EXCEPT = {
    # (caller, callee): reason
    ("cut_paste::cf_range_part_update_for_cut", "ref_is_in_area"):
        "the sqref parts of a conditional format belong to the sheet that owns the format, which the caller has already "
        "matched with area.sheet; only the row/column containment is being asked",
}


def tautology(ck, F, rule="SELF-COMPARE", scope=("cut_paste", "actions", "move_formula")):
    """A helper that compares its argument i with field f of its argument j is not called with argument i = (argument
    j).f: that comparison is then always true and the check it implements is switched off."""
    # 1. helpers and the (i, j, f) they compare
    helpers = {}
    for path in sorted(F.body_paths()):
        h = F.heads[path]
        if h.get("bkind") != "fn" or h["crate"] != "ironcalc_base":
            continue
        raw = F._raw.get(path, "")
        if '"Eq"' not in raw and '"Ne"' not in raw:
            continue
        b = F.body(path)
        if b.nargs < 2:
            continue
        for bi, si, s in b.stmts():
            rv = s["rv"]
            if rv["k"] != "bin" or rv["op"] not in ("Eq", "Ne"):
                continue
            for x, y in ((rv["a"], rv["b"]), (rv["b"], rv["a"])):
                tx = b.trace(x)
                if tx["kind"] != "arg":
                    continue
                py = op_place(y)
                if py is None:
                    continue
                ty = b.trace(y)
                pl = ty.get("place") if ty["kind"] == "place" else None
                if pl is None:
                    continue
                pj = place_proj(pl)
                if 1 <= pl["l"] <= b.nargs and pl["l"] != tx["local"] and len(pj) == 2 and pj[0][0] == "*" and pj[1][0] == "f":
                    helpers.setdefault(path, set()).add((tx["local"], pl["l"], pj[1][2]))
    ck.note("comparing_helpers", len(helpers))
    n = 0
    for path in sorted(F.body_paths()):
        cs = set(F.calls.get(path, []))
        hs = [hp for hp in helpers if hp in cs]
        if not hs:
            continue
        b = F.body(path)
        qn = b.qname.split("::", 1)[-1]
        for bi, t in b.calls():
            c = b.callee(t)
            if c not in helpers:
                continue
            for (i, j, f) in sorted(helpers[c]):
                if max(i, j) > len(t["args"]):
                    continue
                ai, aj = t["args"][i - 1], t["args"][j - 1]
                ti = b.trace(ai)
                rj = b.ref_target(aj)
                if rj is None:
                    tj = b.trace(aj)
                    if tj["kind"] == "place":
                        rj = {"l": tj["place"]["l"], "p": list(place_proj(tj["place"])) + [["*"]]}
                    elif tj["kind"] == "arg":
                        rj = {"l": tj["local"], "p": [["*"]]}
                n += 1
                same = False
                if ti["kind"] == "place" and rj is not None:
                    pi = ti["place"]
                    pji = place_proj(pi)
                    base = {"l": pi["l"], "p": pji[:-1]} if pji and pji[-1][0] == "f" and pji[-1][2] == f else None
                    if base is not None:
                        def norm(p):
                            return (p["l"], tuple((e[0], e[2] if e[0] == "f" else None) for e in place_proj(p)))
                        same = norm(base) == norm(rj) or norm(base) == norm({"l": rj["l"], "p": place_proj(rj) + [["*"]]}) or \
                            (place_proj(base) and place_proj(base)[-1][0] == "*" and norm({"l": base["l"], "p": place_proj(base)[:-1]}) == norm(rj))
                cn = F.qname_of(c).rsplit("::", 1)[-1]
                exc = TAUTOLOGY_EXCEPT.get((qn, cn))
                fl, ln = b.loc(bi)
                if same and exc:
                    ck.ob(rule, "%s|%s(arg%d = arg%d.%s)" % (qn, cn, i, j, f), True, "EXCEPTION: " + exc, nontrivial=False)
                else:
                    ck.ob(rule, "%s|%s(arg%d vs arg%d.%s)" % (qn, cn, i, j, f), not same,
                          "%s calls %s with argument %d taken from argument %d's own `%s`: the comparison inside %s is always true, so cells of "
                          "every other sheet at the same coordinates are treated as if they were in the area" % (qn, cn, i, j, f, cn), fl, ln,
                          sample={"caller": qn, "helper": cn})
    ck.note("helper_call_sites", n)


def dynamic_scalar_extent(ck, F, rule="SPILL"):
    """A dynamic-array anchor that evaluates to a scalar / error owns exactly its own cell: in
    Model::set_cells_with_result, wherever a Cell::ArrayFormula is rebuilt with a `kind` that this function sets to
    ArrayKind::Dynamic, the extent `r` paired with it never comes from the previous extent of the cell (Cell.r): it is
    the constant (1, 1) or the dimensions of the freshly computed array.  Only CSE formulas keep their fixed range."""
    CELL = "ironcalc_base::types::Cell"
    OLD_R = ("field", CELL, "r")
    b = ck.need(F.one, "model::Model::set_cells_with_result")

    def root(l):
        for _ in range(4):
            if b.local_name(l) or len(b.defs().get(l, [])) != 1:
                return l
            rv2 = b.def_rvalue(l)
            q = op_place(rv2["o"]) if rv2 is not None and rv2["k"] == "use" else None
            if q is None or place_proj(q):
                return l
            l = q["l"]
        return l

    def is_dyn_operand(o):
        q = op_place(o)
        if q is None or place_proj(q):
            return False
        for (db, ds) in b.defs().get(q["l"], []):
            if ds != "t":
                rv2 = b.blocks[db]["s"][ds]["rv"]
                if rv2["k"] == "agg" and rv2.get("variant") == "Dynamic":
                    return True
        return False
    n = 0
    for bi, si, s in b.stmts():
        rv = s["rv"]
        if rv["k"] != "agg" or rv.get("adt") != CELL or rv.get("variant") != "ArrayFormula":
            continue
        ops = dict(zip(rv.get("fields") or [], rv["ops"]))
        ko, ro = ops.get("kind"), ops.get("r")
        if ko is None or ro is None or op_place(ko) is None or op_place(ro) is None:
            continue
        kl, rl = root(op_place(ko)["l"]), root(op_place(ro)["l"])
        f, l = b.loc(bi, si)
        pairs = []      # [(description, sources of the extent paired with a Dynamic kind)]
        # (a) kind and r destructured from one tuple: `let (kind, r) = if .. { (Dynamic, (1, 1)) } else { (Cse, (w, h)) }`
        kd = [b.blocks[db]["s"][ds]["rv"] for (db, ds) in b.defs().get(kl, []) if ds != "t"]
        rdv = [b.blocks[db]["s"][ds]["rv"] for (db, ds) in b.defs().get(rl, []) if ds != "t"]
        tup = None
        for x in kd:
            q = op_place(x.get("o", {})) if x["k"] == "use" else None
            if q is not None and place_proj(q) and place_proj(q)[0][0] == "f" and place_proj(q)[0][3] == "tuple" and place_proj(q)[0][1] == 0:
                for y in rdv:
                    q2 = op_place(y.get("o", {})) if y["k"] == "use" else None
                    if q2 is not None and q2["l"] == q["l"] and place_proj(q2) and place_proj(q2)[0][1] == 1:
                        tup = q["l"]
        if tup is not None:
            for (db, ds) in b.defs().get(tup, []):
                if ds == "t":
                    continue
                tv = b.blocks[db]["s"][ds]["rv"]
                if tv["k"] == "agg" and tv.get("agg") == "tuple" and len(tv["ops"]) == 2 and is_dyn_operand(tv["ops"][0]):
                    pairs.append(("tuple arm", sources(b, tv["ops"][1])))
        # (b) kind assigned directly to Dynamic somewhere: whatever extent is stored with it
        elif any(x["k"] == "agg" and x.get("variant") == "Dynamic" for x in kd) or is_dyn_operand(ko):
            pairs.append(("direct", sources(b, ro)))
        if not pairs:
            continue
        n += 1
        bad = [p for p in pairs if OLD_R in p[1]]
        ck.ob(rule, "set_cells_with_result|Dynamic-kind never paired with the old extent#%d" % n, not bad,
              "set_cells_with_result rebuilds an anchor as ArrayKind::Dynamic with the extent it had before (Cell.r): when a formula that "
              "spilled stops returning an array, the released block is still treated as its spill and user content typed there is deleted",
              f, l, sample={"pairing": [p[0] for p in pairs]})
    ck.ob(rule, "set_cells_with_result|rebuild-sites", n >= 1, "no Cell::ArrayFormula rebuild that sets ArrayKind::Dynamic was found (anchor lost?)", b.file, b.line)


def ref_sheet(ck, F, rule="REF-SHEET"):
    """A reference is displaced iff it points into the edited sheet: every Reference that `stringify` hands to
    stringify_reference together with the caller's displace_data carries the node's own sheet_index (both corners of a
    range).  Only the Wrong* nodes, printed with DisplaceData::None, may use a placeholder index."""
    NODE = "ironcalc_base::expressions::parser::Node"
    b = ck.need(F.one, "stringify::stringify")
    n = 0
    for bi, t in b.calls_to("stringify::stringify_reference"):
        if len(t["args"]) < 3:
            continue
        dd = sources(b, t["args"][1])
        displaced = ("param", "displace_data") in dd
        r = b.trace(t["args"][2])
        agg = r["rv"] if r["kind"] == "rv" and r["rv"]["k"] == "agg" else None
        if agg is None:
            rt = b.ref_target(t["args"][2])
            if rt is not None and not place_proj(rt):
                rv = b.def_rvalue(rt["l"])
                agg = rv if rv is not None and rv["k"] == "agg" else None
        f, l = b.loc(bi)
        if agg is None:
            ck.ob(rule, "stringify|reference-arg@%d" % n, not displaced, "Reference argument of stringify_reference not recognised", f, l)
            continue
        ops = dict(zip(agg.get("fields") or [], agg["ops"]))
        si = sources(b, ops["sheet_index"]) if "sheet_index" in ops else set()
        n += 1
        if not displaced:
            ck.ob(rule, "stringify|undisplaced-reference#%d" % n, True, nontrivial=False)
            continue
        ck.ob(rule, "stringify|displaced reference #%d carries the node's sheet" % n, ("field", NODE, "sheet_index") in si and ("const",) not in si,
              "stringify passes a Reference whose sheet_index comes from %s to stringify_reference together with displace_data: the corner is "
              "displaced as if it were on sheet 0, whatever sheet the range is on" % sorted(map(str, si)), f, l, sample={"sheet_index_from": sorted(map(str, si))})
    ck.ob(rule, "stringify|reference-sites", n >= 4, "expected at least 4 stringify_reference call sites in stringify, found %d" % n, b.file, b.line)


def shift_lower_bounds(ck, F, rule="GRID-GUARD"):
    """Shifted descriptors land on the right side of the edit: with the count parameter instantiated to 1, 2, 3 the zone
    engine proves at every shifting store
       insert_rows     new Row.r     >= row + row_count         insert_columns  new Col.min >= column + column_count
       delete_rows     new Row.r     >= row
    (delete_columns' Col.min is rule descriptor_order).  An off-by-one in the guard of the shift breaks the bound."""
    import zones
    from effects import Program
    P = Program(F)
    TABLE = (("insert_rows", ("ironcalc_base::types::Row", "r"), "row_count", "row", lambda k: k, "Add"),
             ("delete_rows", ("ironcalc_base::types::Row", "r"), "row_count", "row", lambda k: 0, "Sub"),
             ("insert_columns", ("ironcalc_base::types::Col", "min"), "column_count", "column", lambda k: k, "Add"))
    for fn, fld, cnt, pos, off, sign in TABLE:
        b0 = ck.need(F.one, "model::Model::" + fn)
        names = {b0.local_name(i): i for i in range(1, b0.nargs + 1)}
        if cnt not in names or pos not in names:
            ck.ob(rule, "%s|params" % fn, False, "%s: parameters %s / %s not found" % (fn, cnt, pos), b0.file, b0.line)
            continue
        units = []
        for b in unit_bodies(F, b0):
            stores = []
            for bi, si, s in b.stmts():
                if not place_proj(s["p"]) or s["rv"]["k"] != "use":
                    continue
                p = b.resolve_place(s["p"], through_named=False)
                pj = place_proj(p)
                if pj and pj[-1][0] == "f" and (pj[-1][3], pj[-1][2]) == fld:
                    sr = sources(b, s["rv"]["o"])
                    if ("arith", sign) in sr and ("param", cnt) in sr:
                        stores.append((bi, si, s))
            if stores:
                units.append((b, stores))
        ck.ob(rule, "%s|shift-stores" % fn, len(units) >= 1, "%s: no shifting store into %s.%s found" % (fn, fld[0].rsplit("::", 1)[-1], fld[1]), b0.file, b0.line)
        n = 0
        for b, stores in units:
            for k in (1, 2, 3):
                if b is b0:
                    A = zones.Analysis(b, P, F, assume={names[cnt]: k})
                    pos_t = "_%d" % names[pos]
                else:
                    # the store sits in a closure: the parameters are its captured variables
                    A = zones.Analysis(b, P, F, assume={"upvar:" + cnt: k})
                    pos_t = A.term_of_place(b._upvars[pos], "i32") if pos in b._upvars else None
                for m, (bi, si, s) in enumerate(stores, 1):
                    ok, checked = pos_t is not None, 0
                    for kk, zin in A.pstate_in.get(bi, {}).items():
                        z = zin.copy()
                        z.close()
                        for j, st in enumerate(b.blocks[bi]["s"]):
                            if j == si:
                                break
                            A.stmt(z, st)
                        if z.bottom:
                            continue
                        checked += 1
                        v = A.lin(z, s["rv"]["o"], "i32")
                        # pos + off(k) <= v
                        if v is None or pos_t is None or not z.entails(pos_t, v[0], v[1] - off(k)):
                            ok = False
                    f, l = b.loc(bi, si)
                    ck.ob(rule, "%s|count=%d|shift-store#%d lower bound" % (fn, k, n + m), ok and checked > 0,
                          "%s (%s = %d) can store a shifted %s.%s below %s%s: a descriptor is moved although it lies before the edit position, "
                          "or by the wrong amount" % (fn, cnt, k, fld[0].rsplit("::", 1)[-1], fld[1], pos, (" + %d" % off(k)) if off(k) else ""),
                          f, l, sample={"fn": fn, "count": k, "states": checked})
            n += len(stores)


def _col_min_sites(b, COL):
    """(locals that are copies of a stored descriptor's Col.min, stores into a new descriptor's Col.min) of a body"""
    mn, stores = [], []
    for bi, si, st in b.stmts():
        if not place_proj(st["p"]) and st["rv"]["k"] == "use":
            src = op_place(st["rv"]["o"])
            if src is not None and place_proj(src):
                pj = place_proj(b.resolve_place(src, through_named=True))
                if pj and pj[-1][0] == "f" and (pj[-1][3], pj[-1][2]) == (COL, "min") and any(e[0] == "*" for e in pj):
                    mn.append(st["p"]["l"])
        if place_proj(st["p"]) and st["rv"]["k"] == "use":
            pj = place_proj(b.resolve_place(st["p"], through_named=False))
            if pj and pj[-1][0] == "f" and (pj[-1][3], pj[-1][2]) == (COL, "min") and not any(e[0] == "*" for e in pj):
                stores.append((bi, si, st))
    return mn, stores


def descriptor_order(ck, F, rule="GRID-GUARD"):
    """Column descriptors stay sorted and disjoint under delete_columns: a descriptor that starts to the right of the
    first deleted column still starts at or after it afterwards -- it cannot land left of the deleted block, on top of
    its left neighbour.  Decided by the zone engine on Model::delete_columns with column_count instantiated to 1, 2 and
    3 (so that column_end = column + column_count - 1 is linear): at every store into `<new descriptor>.min`, if the
    state entails column_start < min then it entails column_start <= stored value.  When the rebuild lives in a private
    helper of the same file, the helper is analysed instead, from an entry state made of what delete_columns' state
    entails about the integer arguments at the call (one level of context-sensitive inlining)."""
    import zones
    from effects import Program
    COL = "ironcalc_base::types::Col"
    b0 = ck.need(F.one, "model::Model::delete_columns")
    P = Program(F)
    names = {b0.local_name(i): i for i in range(1, b0.nargs + 1)}
    if "column_count" not in names or "column" not in names:
        ck.ob(rule, "delete_columns|anchors", False, "delete_columns: parameters column / column_count not found", b0.file, b0.line)
        return
    mn, stores = _col_min_sites(b0, COL)
    target, call_bi = b0, None
    if not stores:
        for bi, t in b0.calls():
            c = b0.callee(t)
            hc = F.heads.get(c) if c else None
            if hc is None or not F.has(c) or hc.get("file") != b0.file or hc.get("vis") in ("pub",):
                continue
            hb = F.body(c)
            m2, s2 = _col_min_sites(hb, COL)
            if s2:
                target, call_bi, mn, stores = hb, bi, m2, s2
                break
    ck.ob(rule, "delete_columns|anchors", len(mn) >= 1 and len(stores) >= 2,
          "delete_columns: the rebuild of the column descriptors (copies of Col.min, at least two stores into a new descriptor's min) was "
          "not found in the function or in a private helper it calls", b0.file, b0.line)
    if not mn or len(stores) < 2:
        return
    b = target
    for k in (1, 2, 3):
        A0 = zones.Analysis(b0, P, F, assume={names["column_count"]: k})
        if b is b0:
            A, cs_t = A0, "_%d" % names["column"]
        else:
            # which helper parameter receives `column` (the first deleted column)?
            t = b0.blocks[call_bi]["t"]
            first = None
            for key, z in (A0.states_at(call_bi) or []):
                for i, a in enumerate(t["args"], 1):
                    la = A0.lin(z, a, "i32") if A0._ty_of_operand(a) == "i32" else None
                    if la is not None and la == ("_%d" % names["column"], 0):
                        first = i
                        break
                    if la is not None and la[1] == 0 and z.entails(la[0], "_%d" % names["column"], 0) and z.entails("_%d" % names["column"], la[0], 0):
                        first = i
                        break
                break
            if first is None:
                ck.ob(rule, "delete_columns|count=%d|helper arguments" % k, False,
                      "the helper %s does not receive the first deleted column as an argument" % b.name, b0.file, b0.line)
                continue
            A = zones.Analysis(b, P, F, entry_rel=A0.call_entry_relations(call_bi))
            cs_t = "_%d" % first
        for n, (bi, si, s) in enumerate(stores, 1):
            ok = True
            checked = 0
            for kk, zin in A.pstate_in.get(bi, {}).items():
                z = zin.copy()
                z.close()
                for j, st in enumerate(b.blocks[bi]["s"]):
                    if j == si:
                        break
                    A.stmt(z, st)
                if z.bottom:
                    continue
                v = A.lin(z, s["rv"]["o"], "i32")
                right_of_start = any(z.entails(cs_t, "_%d" % m, -1) for m in mn)
                if not right_of_start:
                    continue
                checked += 1
                if v is None or not z.entails(cs_t, v[0], v[1]):
                    ok = False
            f, l = b.loc(bi, si)
            ck.ob(rule, "delete_columns|count=%d|min-store#%d stays right of the deleted block" % (k, n), ok,
                  "delete_columns (column_count = %d) can store a descriptor start smaller than column_start for a descriptor that began to the "
                  "right of it: the descriptor lands on its left neighbour (overlapping / unsorted column descriptors)" % k, f, l,
                  sample={"column_count": k, "states_checked": checked, "analysed": b.name})


def full_flags(ck, F, rule="FULL-RANGE"):
    """A range is printed as a whole column / whole row only if *both* corners are absolute and span the sheet: in
    every place where `stringify` computes `full_row` / `full_column` for a range, the value depends on the absolute
    flag and the coordinate of both corners (absolute_row1, absolute_row2, row1, row2 -- resp. the column fields).
    A relative corner is an offset from the formula cell; reading it as an absolute 1 prints A2:A$1048576 as A:A."""
    NODE = "ironcalc_base::expressions::parser::Node"
    b = ck.need(F.one, "stringify::stringify")
    n = 0
    for flag, want in (("full_row", {"absolute_row1", "absolute_row2", "row1", "row2"}), ("full_column", {"absolute_column1", "absolute_column2", "column1", "column2"})):
        locs = [l for l in range(len(b.locals)) if b.local_name(l) == flag]
        for l in locs:
            defs = [(bi, si) for (bi, si) in b.defs().get(l, []) if si != "t"]
            live = [(bi, si) for (bi, si) in defs if not (b.blocks[bi]["s"][si]["rv"]["k"] == "use" and b.blocks[bi]["s"][si]["rv"]["o"].get("k") is not None)]
            if not live:
                continue
            n += 1
            fields = set()
            for (bi, si) in live:
                rv = b.blocks[bi]["s"][si]["rv"]
                from mir import rvalue_operands
                for o in rvalue_operands(rv):
                    fields |= {x[2] for x in sources(b, o) if x[0] == "field" and x[1] == NODE}
                # tests this definition is control dependent on: bool switches that dominate it and whose other edge
                # reaches a `flag = false` definition
                falses = [db for (db, ds) in defs if (db, ds) not in live]
                for d in b.dominators_of(bi):
                    t = b.term(d)
                    if t["k"] == "switch" and t["ty"] == "bool" and any(fb in b.reachable_from(d) for fb in falses):
                        fields |= {x[2] for x in sources(b, t["o"]) if x[0] == "field" and x[1] == NODE}
            f, ln = b.loc(*live[0])
            ck.ob(rule, "stringify|%s#%d depends on both corners" % (flag, n), want <= fields,
                  "`%s` is computed from %s only; it must test %s: a relative corner (an offset) is otherwise mistaken for the absolute "
                  "first/last row or column and the range is printed as a whole column/row" % (flag, sorted(fields & (want | {"x"})), sorted(want - fields)),
                  f, ln, sample={"flag": flag, "reads": sorted(fields)})
    ck.ob(rule, "stringify|full-flag sites", n >= 2, "expected full_row / full_column computations in stringify, found %d" % n, b.file, b.line)


VALIDATE_WIDE_EXCEPT = {}


def validate_first_wide(ck, F, rule="VALIDATE-FIRST"):
    """The same discipline for every editing entry point of the model: in each Result-returning method of Model /
    Worksheet / Styles that a UserModel operation calls directly and that writes persistent state, no explicit error is
    constructed after the first persistent write (evaluation helpers, whose writes are caches, are not entry points)."""
    P = Program(F)
    pt = persistent_types(F)
    UM = "ironcalc_base::user_model::common::UserModel"
    targets = set()
    for path in F.body_paths():
        h = F.heads[path]
        if h.get("impl_adt") != UM and "user_model" not in path:
            continue
        for c in P.edges.get(path, ()):
            hc = F.heads.get(c)
            if hc and hc.get("bkind") == "fn" and hc.get("impl_adt") in ("ironcalc_base::model::Model", "ironcalc_base::types::Worksheet", "ironcalc_base::types::Styles", "ironcalc_base::types::Workbook") \
                    and "Result<" in (hc.get("output") or "") and not hc["name"].startswith(("get_", "evaluate", "is_")):
                targets.add(c)
    n = 0
    for c in sorted(targets):
        b = F.body(c)
        writes = ordered_writes(b, F, P, pt)
        if not writes:
            continue
        n += 1
        explicit = set()
        for bi, si, s in b.stmts():
            rv = s["rv"]
            if rv["k"] == "agg" and rv.get("adt") == "std::result::Result" and rv.get("variant") == "Err":
                explicit.add(bi)
        after = set()
        for w in writes:
            after |= b.strictly_after(w)
        bad = sorted(explicit & after)
        name = F.heads[c]["name"]
        if bad and name in VALIDATE_WIDE_EXCEPT:
            ck.ob(rule, "%s|no-explicit-Err-after-first-write" % name, True, "EXCEPTION: " + VALIDATE_WIDE_EXCEPT[name], nontrivial=False)
            continue
        f, l = b.loc(bad[0]) if bad else (b.file, b.line)
        first = sorted(set(writes.values()))[:3]
        ck.ob(rule, "%s|no-explicit-Err-after-first-write" % name, not bad,
              "%s can return an error it constructs itself after it already wrote persistent state (%s): the failed call leaves a change behind"
              % (name, first), f, l, sample={"fn": name, "first_writes": first})
    ck.note("editing_entry_points", n)


def axis_flags(ck, F, rule="FULL-RANGE"):
    """full_row belongs to the row axis, full_column to the column axis: in stringify_reference an arm of DisplaceData that
    rewrites the local `row` never tests `full_column`, and one that rewrites `column` never tests `full_row` (a whole-
    column range B:B has full_row set and must still follow column moves)."""
    from mir import enum_switches, arm_region
    DD = "ironcalc_base::expressions::parser::stringify::DisplaceData"
    b = ck.need(F.one, "stringify::stringify_reference")
    names = {b.local_name(i): i for i in range(1, b.nargs + 1)}
    # the row / column being printed: the re-assigned locals computed from Reference.row / Reference.column (by
    # provenance, whatever they are called)
    rowl, coll = [], []
    for l in range(b.nargs + 1, len(b.locals)):
        if not b.local_name(l) or len(b.defs().get(l, [])) < 2 or b.locals[l] != "i32":
            continue
        fl = {x[2] for x in sources(b, {"c": {"l": l}}) if x[0] == "field" and x[1].endswith("::Reference")}
        if fl == {"row"}:
            rowl.append(l)
        elif fl == {"column"}:
            coll.append(l)
    sws = enum_switches(b, DD)
    if not sws or "full_row" not in names or not rowl or not coll:
        ck.ob(rule, "stringify_reference|axis anchors", False, "DisplaceData match / flags / row, column locals not found", b.file, b.line)
        return
    sw_bi, arms = sws[0][0], sws[0][1]
    # blocks shared by all arms (the code after the match) are not part of any arm
    regions = {v: arm_region(b, sw_bi, e) for v, e in arms.items() if e is not None}
    shared = set.intersection(*regions.values()) if regions else set()
    for v, reg in sorted(regions.items()):
        own = reg - shared
        writes_row = any(not place_proj(s["p"]) and s["p"]["l"] in rowl for bi in own for s in b.blocks[bi]["s"])
        writes_col = any(not place_proj(s["p"]) and s["p"]["l"] in coll for bi in own for s in b.blocks[bi]["s"])
        tested = set()
        for bi in own:
            t = b.blocks[bi]["t"]
            if t["k"] == "switch" and t["ty"] == "bool":
                tr = b.trace(t["o"])
                if tr["kind"] == "arg":
                    tested.add(b.local_name(tr["local"]))
                else:
                    p = op_place(t["o"])
                    rv = b.def_rvalue(p["l"]) if p is not None and not place_proj(p) else None
                    if rv is not None and rv["k"] == "un":
                        tr2 = b.trace(rv["a"])
                        if tr2["kind"] == "arg":
                            tested.add(b.local_name(tr2["local"]))
        f, l = b.loc(arms[v])
        if writes_row and not writes_col:
            ck.ob(rule, "stringify_reference|%s arm (rows) does not test full_column" % v, "full_column" not in tested,
                  "the DisplaceData::%s arm moves rows but is guarded by `full_column`: whole-row ranges like 2:2 stop following their rows" % v, f, l)
        elif writes_col and not writes_row:
            ck.ob(rule, "stringify_reference|%s arm (columns) does not test full_row" % v, "full_row" not in tested,
                  "the DisplaceData::%s arm moves columns but is guarded by `full_row`: whole-column ranges like B:B stop following their columns" % v, f, l)


def grid_bounds(ck, F, rule="FULL-RANGE"):
    """The printer accepts every cell of the grid: wherever stringify_reference tests the row or column it is about to
    print against a constant range (`(a..b).contains(&row)`), the range covers 1..=LAST_ROW resp. 1..=LAST_COLUMN; and a
    comparison of row/column with a constant near the grid limit rejects nothing inside the grid."""
    import zones
    from effects import Program
    LAST = {"row": 1048576, "column": 16384}
    b = ck.need(F.one, "stringify::stringify_reference")
    A = zones.Analysis(b, Program(F), F)
    n = 0
    for bi, t in b.calls():
        q = b.callee_q(t) or ""
        if q.rsplit("::", 1)[-1] != "contains" or "Range" not in q or len(t["args"]) != 2:
            continue
        rng = A._const_range(t["args"][0])
        xl = A._ref_local(t["args"][1])
        nm = b.local_name(xl) if xl is not None else None
        if rng is None or nm not in LAST:
            continue
        n += 1
        f, l = b.loc(bi)
        ck.ob(rule, "stringify_reference|%s range test covers the grid" % nm, rng[0] <= 1 and rng[1] >= LAST[nm],
              "stringify_reference accepts %s only in %d..=%d: references to %s %d are printed as #REF! although they are valid"
              % (nm, rng[0], rng[1], nm, LAST[nm]), f, l, sample={"axis": nm, "range": list(rng)})
    # plain comparisons with a constant close to the limit
    for bi, si, s in b.stmts():
        rv = s["rv"]
        if rv["k"] != "bin" or rv["op"] not in ("Lt", "Le", "Gt", "Ge"):
            continue
        for x, y, flip in ((rv["a"], rv["b"], False), (rv["b"], rv["a"], True)):
            c = const_int(y)
            tr = b.trace(x)
            p = op_place(x)
            nm = None
            if p is not None and not place_proj(p):
                rvx = b.def_rvalue(p["l"])
                q = op_place(rvx["o"]) if rvx is not None and rvx["k"] == "use" else p
                nm = b.local_name(q["l"]) if q is not None and not place_proj(q) else b.local_name(p["l"])
            if c is None or nm not in LAST or c < LAST[nm] - 2:
                continue
            op = rv["op"]
            if flip:
                op = {"Lt": "Gt", "Le": "Ge", "Gt": "Lt", "Ge": "Le"}[op]
            # the comparison is true for some x in 1..=LAST and false for others only if c cuts inside the grid
            cuts = (op in ("Lt", "Ge") and c <= LAST[nm]) or (op in ("Le", "Gt") and c < LAST[nm])
            n += 1
            f, l = b.loc(bi, si)
            ck.ob(rule, "stringify_reference|%s %s %d does not cut the grid" % (nm, op, c), not cuts,
                  "stringify_reference compares %s %s %d: the last %s of the grid falls on the other side of the test than the rest" % (nm, op, c, nm), f, l)
    ck.note("grid_bound_tests", n)


def cut_skip_same_sheet(ck, F, rule="SPILL"):
    """Cut of a dynamic-array anchor removes its whole spill block; the only cells it may skip are paste targets, which
    are coordinates *on the target sheet*: in UserModel::paste_from_clipboard every membership test against `seen_cells`
    is dominated by the `source_sheet == sheet` comparison."""
    b = ck.need(F.one, "UserModel::paste_from_clipboard")
    # the set of paste-target coordinates: the one HashSet<(i32, i32)> local of the function
    cand = [l for l in range(b.nargs + 1, len(b.locals)) if b.local_name(l) and b.locals[l].replace(" ", "").startswith("std::collections::HashSet<(i32,i32)")]
    seen = cand[0] if len(cand) == 1 else None
    ck.ob(rule, "paste_from_clipboard|seen_cells", seen is not None, "the set of paste targets (a HashSet<(i32, i32)> local) was not found (anchor lost?)", b.file, b.line)
    if seen is None:
        return
    # edges on which source_sheet == sheet holds
    eq_edges = []
    for bi, blk in enumerate(b.blocks):
        t = blk["t"]
        if t["k"] != "switch" or t["ty"] != "bool":
            continue
        tr = b.trace(t["o"])
        if tr["kind"] == "rv" and tr["rv"]["k"] == "bin" and tr["rv"]["op"] in ("Eq", "Ne"):
            sa = {x[1] for x in sources(b, tr["rv"]["a"]) | sources(b, tr["rv"]["b"]) if x[0] == "param"}
            ls = set()
            for o in (tr["rv"]["a"], tr["rv"]["b"]):
                p = op_place(o)
                if p is not None and not place_proj(p):
                    rv = b.def_rvalue(p["l"])
                    q = op_place(rv["o"]) if rv is not None and rv["k"] == "use" else p
                    if q is not None and not place_proj(q):
                        ls.add(b.local_name(q["l"]))
            if {"source_sheet", "sheet"} <= (ls | sa):
                zero = [x for v, x in t["targets"] if v == "0"]
                tgt = t["otherwise"] if tr["rv"]["op"] == "Eq" else (zero[0] if zero else None)
                if tgt is not None:
                    eq_edges.append(tgt)
    k = 0
    for bi, t in b.calls():
        if (b.callee_q(t) or "").rsplit("::", 1)[-1] != "contains" or not t["args"]:
            continue
        rt = b.ref_target(t["args"][0])
        if rt is None or place_proj(rt) or rt["l"] != seen:
            continue
        k += 1
        f, l = b.loc(bi)
        ck.ob(rule, "paste_from_clipboard|seen_cells test #%d under source_sheet == sheet" % k, any(b.dominates(e, bi) for e in eq_edges),
              "paste_from_clipboard skips a source cell because its coordinates are a paste target without checking that source and target "
              "sheet are the same: cutting a spilling anchor to another sheet leaves an orphan spill cell behind", f, l)
    ck.ob(rule, "paste_from_clipboard|seen_cells tests", k >= 1, "no membership test against seen_cells found", b.file, b.line)


# ------------------------------------------------------------------------------------------------ MIRROR
import collections
from mir import rvalue_places
_M_SW={"row":"column","rows":"columns","full_row":"full_column","height":"width","absolute_row":"absolute_column","displace_row":"displace_column","move_row":"move_column","Row":"Column","RowMove":"ColumnMove","CellVertical":"CellHorizontal"}
_M_SW.update({v:k for k,v in list(_M_SW.items())})
_M_TOK={"r":"c","c":"r","row":"column","rows":"columns","column":"row","columns":"rows","col":"row","cols":"rows","height":"width","width":"height"}
def _m_swap(n):
    if n is None: return n
    if n in _M_SW: return _M_SW[n]
    return "_".join(_M_TOK.get(p,p) for p in str(n).split("_"))
def _m_canon(n):
    # canonical spelling so that col/column compare equal
    return "_".join({"col":"column","cols":"columns"}.get(p,p) for p in str(n).split("_"))
def _m_sig(b, blocks, do_swap):
    c=collections.Counter()
    for bi in blocks:
        blk=b.blocks[bi]
        for s in blk["s"]:
            rv=s["rv"]
            key=[rv["k"]]
            if rv["k"]=="bin": key.append(rv["op"])
            names=[]
            for pl in rvalue_places(rv)+[s["p"]]:
                # local variable names are not part of the signature (renaming a local is not a change)
                for e in place_proj(pl):
                    if e[0]=="f" and e[2]: names.append(_m_canon(_m_swap(e[2])) if do_swap else _m_canon(e[2]))
                    if e[0]=="dc": names.append(_m_swap(e[1]) if do_swap else e[1])
            for o in (rv.get("a"),rv.get("b"),rv.get("o")):
                if o and o.get("k"):
                    d=str(o["k"].get("d"))
                    if o["k"].get("s") is not None: d="<str>"
                    if "promoted" in d: d="<promoted>"
                    if do_swap: d=d.replace("LAST_ROW","LAST_X").replace("LAST_COLUMN","LAST_ROW").replace("LAST_X","LAST_COLUMN")
                    if do_swap: d={"1048576_i32":"16384_i32","16384_i32":"1048576_i32"}.get(d,d)
                    names.append(d)
            c[tuple(key+sorted(set(names)))]+=1
        t=blk["t"]
        if t["k"]=="call":
            ln=(b.callee_q(t) or "?").rsplit("::",1)[-1]
            c[("call",_m_canon(_m_swap(ln)) if do_swap else _m_canon(ln))]+=1
        elif t["k"]=="switch":
            c[("switch",t["ty"],len(t["targets"]))]+=1
        elif t["k"]=="return": c[("return",)]+=1
    return c


def _m_atoms(F, b, blocks, do_swap, depth=0):
    """Structure-insensitive signature of a piece of code: the *set* of its comparisons and arithmetic operations (operator
    plus the constants and field names among the operands) and of the functions it calls.  Private helpers defined in the
    same file are looked through one level, so moving the body of one arm into a helper changes nothing; neither do
    renamed bindings, `matches!` vs `match`, merged `if`s or hoisted sub-expressions."""
    out = set()
    for bi in blocks:
        blk = b.blocks[bi]
        for s in blk["s"]:
            rv = s["rv"]
            if rv["k"] not in ("bin", "un"):
                continue
            names = []
            for pl in rvalue_places(rv):
                for e in place_proj(pl):
                    if e[0] == "f" and e[2] and e[3] != "tuple":
                        names.append(_m_canon(_m_swap(e[2])) if do_swap else _m_canon(e[2]))
            for o in (rv.get("a"), rv.get("b"), rv.get("o")):
                if o and o.get("k"):
                    d = str(o["k"].get("d"))
                    if o["k"].get("s") is not None:
                        d = "<str>"
                    if "promoted" in d:
                        d = "<promoted>"
                    if do_swap:
                        d = d.replace("LAST_ROW", "LAST_X").replace("LAST_COLUMN", "LAST_ROW").replace("LAST_X", "LAST_COLUMN")
                        d = {"1048576_i32": "16384_i32", "16384_i32": "1048576_i32"}.get(d, d)
                    names.append(d)
            op = rv.get("op", "").replace("WithOverflow", "")
            if op in ("Eq", "Ne") and set(names) <= {"true", "false", "0_u8", "1_u8"}:
                continue      # a bool test spelled as a comparison
            out.add((rv["k"], op) + tuple(sorted(set(names))))
        t = blk["t"]
        if t["k"] == "call":
            c = b.callee(t)
            q = b.callee_q(t) or "?"
            ln = q.rsplit("::", 1)[-1]
            hc = F.heads.get(c) if c else None
            if depth == 0 and hc is not None and F.has(c) and hc.get("file") == b.file and hc.get("vis") not in ("pub",) and c != b.path:
                hb = F.body(c)
                out |= _m_atoms(F, hb, [i for i in range(len(hb.blocks)) if not hb.is_cleanup(i)], do_swap, depth + 1)
            else:
                out.add(("call", _m_canon(_m_swap(ln)) if do_swap else _m_canon(ln)))
    return out


MIRROR_PAIRS = {
    "struct": ["model::Model::can_delete_rows", "model::Model::can_insert_rows", "model::Model::can_move_rows_action",
               "user_model::common::UserModel::insert_rows"],
    "attrs": ["model::Model::delete_row_style", "model::Model::is_row_hidden", "model::Model::set_row_hidden", "model::Model::set_row_style",
              "model::Model::set_sheet_row_style", "user_model::common::UserModel::set_rows_hidden"],
    "frozen": ["model::Model::get_frozen_rows_count", "model::Model::set_frozen_rows", "types::Worksheet::set_frozen_rows",
               "user_model::common::UserModel::get_frozen_rows_count", "user_model::common::UserModel::set_frozen_rows_count"],
}
MIRROR_ARMS = [("Row", "Column"), ("RowMove", "ColumnMove"), ("CellVertical", "CellHorizontal")]


def _m_swapname(q):
    head, _, last = q.rpartition("::")
    m = {"row": "column", "rows": "columns", "column": "row", "columns": "rows", "col": "row", "cols": "rows"}
    return head + "::" + "_".join(m.get(p, p) for p in last.split("_"))


def mirror_rule(ck, F, groups, rule="MIRROR", arms=False):
    """Row code and column code are mirror images: each armed pair (a function named ..row.. and its ..column.. sibling;
    the Row/Column, RowMove/ColumnMove, CellVertical/CellHorizontal arms of stringify_reference) has the same multiset of
    statements, calls, comparisons, switches and constants once row<->column, height<->width, r<->c, LAST_ROW<->LAST_COLUMN
    are exchanged.  A change made to one side only (a guard dropped, a flag crossed, an off-by-one) breaks the equality."""
    from mir import enum_switches, arm_region
    for g in groups:
        for name in MIRROR_PAIRS[g]:
            b1 = ck.need(F.one, name)
            sq = _m_swapname(b1.qname)
            p2 = F.find(sq.split("::", 1)[-1])
            if not p2:
                ck.ob(rule, "%s|sibling" % name, False, "the column sibling %s of %s was not found" % (sq, name), b1.file, b1.line)
                continue
            b2 = F.body(p2[0])
            s1 = _m_sig(b1, [i for i in range(len(b1.blocks)) if not b1.is_cleanup(i)], True)
            s2 = _m_sig(b2, [i for i in range(len(b2.blocks)) if not b2.is_cleanup(i)], False)
            d1, d2 = list((s1 - s2).items())[:3], list((s2 - s1).items())[:3]
            ck.ob(rule, "%s|mirror of its column sibling" % name.split("::", 1)[-1], s1 == s2,
                  "%s and %s are no longer mirror images: only in the row version %s, only in the column version %s"
                  % (name.rsplit("::", 1)[-1], sq.rsplit("::", 1)[-1], d1, d2), b1.file, b1.line, sample={"pair": name, "statements": sum(s1.values())})
    if arms:
        DD = "ironcalc_base::expressions::parser::stringify::DisplaceData"
        b = ck.need(F.one, "stringify::stringify_reference")
        sws = enum_switches(b, DD)
        if not sws:
            ck.ob(rule, "stringify_reference|arms", False, "DisplaceData match not found", b.file, b.line)
            return
        sw = sws[0]
        regions = {v: arm_region(b, sw[0], e) for v, e in sw[1].items() if e is not None}
        shared = set.intersection(*regions.values())
        for a, c in MIRROR_ARMS:
            if a not in regions or c not in regions:
                ck.ob(rule, "stringify_reference|%s/%s" % (a, c), False, "arm missing", b.file, b.line)
                continue
            sa, sc = _m_atoms(F, b, regions[a] - shared, True), _m_atoms(F, b, regions[c] - shared, False)
            d1, d2 = sorted(sa - sc)[:3], sorted(sc - sa)[:3]
            f, l = b.loc(sw[1][a])
            ck.ob(rule, "stringify_reference|%s arm mirrors %s arm" % (a, c), sa == sc,
                  "the DisplaceData::%s and ::%s arms of stringify_reference are no longer mirror images: only in %s %s, only in %s %s"
                  % (a, c, a, d1, c, d2), f, l, sample={"arms": [a, c], "atoms": len(sa)})


# ------------------------------------------------------------------------------------------------ BAND (C15, C27, C33)
def _band_norm(b, o, pos, depth=0):
    """(base, offset) with base in {"pos", "target"} when operand o is `pos + c` or `pos + delta + c` for the position
    parameter `pos` of a single-row/column move (through copies, checked arithmetic with constants and captured variables);
    None for anything else (the element being tested)."""
    if depth > 10:
        return None
    if o.get("k") is not None:
        return None
    pl = op_place(o)
    if pl is None:
        return None
    sr = sources(b, o)
    ups = {x[1] for x in sr if x[0] == "upvar"}
    if ups and len(ups) == 1 and not any(x[0] in ("field", "call", "param", "arith") for x in sr) and b.facts is not None:
        # a captured local of the enclosing function (`target_row`): normalise it where it is defined
        par = b.facts.heads.get(b.path, {}).get("parent")
        if par and b.facts.has(par):
            pb = b.facts.body(par)
            ls = pb.local_by_name(next(iter(ups)))
            if len(ls) == 1:
                return _band_norm(pb, {"c": {"l": ls[0]}}, pos, depth + 1)
        return None
    params = {x[1] for x in sr if x[0] == "param"}
    if not params or not params <= {pos, "delta"} or any(x[0] in ("field", "call", "upvar") for x in sr):
        return None
    if pos not in params:
        return None
    base = "target" if "delta" in params else "pos"
    # constant offset: follow the definition chain
    off = _band_offset(b, o, 0)
    if off is None:
        return None
    return (base, off)


def _band_offset(b, o, depth):
    if depth > 10:
        return None
    if o.get("k") is not None:
        return None
    pl = op_place(o)
    if pl is None:
        return None
    pj = place_proj(pl)
    l = pl["l"]
    if 1 <= l <= b.nargs:
        return 0          # a parameter, or (for a closure) a captured variable read through the environment
    ds = b.defs().get(l, [])
    if len(ds) != 1 or ds[0][1] == "t":
        return None
    rv = b.blocks[ds[0][0]]["s"][ds[0][1]]["rv"]
    if rv["k"] in ("use", "cast"):
        return _band_offset(b, rv["o"], depth + 1)
    if rv["k"] == "ref":
        return _band_offset(b, {"c": rv["p"]}, depth + 1)
    if rv["k"] == "bin":
        op = rv["op"].replace("WithOverflow", "").replace("Unchecked", "")
        ca, cb = const_int(rv["a"]), const_int(rv["b"])
        if op == "Add":
            if cb is not None:
                r = _band_offset(b, rv["a"], depth + 1)
                return None if r is None else r + cb
            if ca is not None:
                r = _band_offset(b, rv["b"], depth + 1)
                return None if r is None else r + ca
            ra, rb = _band_offset(b, rv["a"], depth + 1), _band_offset(b, rv["b"], depth + 1)
            return None if ra is None or rb is None else ra + rb       # pos + delta
        if op == "Sub" and cb is not None:
            r = _band_offset(b, rv["a"], depth + 1)
            return None if r is None else r - cb
        return None
    return None


def _band_sign(b, bi):
    """'up' / 'down' when block bi only runs under `delta > 0` / `delta < 0` (nearest such test whose true edge dominates
    it); None otherwise."""
    best = None
    for d in sorted(b.dominators_of(bi)):
        t = b.term(d)
        if t["k"] != "switch" or t["ty"] != "bool" or d == bi:
            continue
        tr = b.trace(t["o"])
        if tr["kind"] != "rv" or tr["rv"]["k"] != "bin" or tr["rv"]["op"] not in ("Gt", "Lt"):
            continue
        rv = tr["rv"]
        if const_int(rv["b"]) != 0:
            continue
        if {x[1] for x in sources(b, rv["a"]) if x[0] == "param"} != {"delta"}:
            continue
        true_t = t["otherwise"]
        false_t = [x for v, x in t["targets"] if v == "0"]
        if b.dominates(true_t, bi):
            best = "down" if rv["op"] == "Gt" else "up"
        elif false_t and b.dominates(false_t[0], bi) and false_t[0] != true_t:
            # the else branch of `if delta > 0 { .. } else { .. }` (a zero delta returned earlier)
            best = "up" if rv["op"] == "Gt" else "down"
    return best


def band_agree(ck, F, rule="BAND"):
    """One move, one band: when a single row (column) moves by `delta`, the rows between its old and its new position
    shift by one.  move_row_unchecked / move_column_unchecked describe that band several times -- the loop that relocates
    the cells, the closure that relocates hyperlinks, the rebuild of the row descriptors -- as ranges or as pairs of
    comparisons.  Each description is normalised to an inclusive interval [lo, hi] over {pos, target = pos + delta} with
    constant offsets (`x > pos` -> lo = pos + 1, `pos + 1..=target` -> [pos + 1, target] ...), per direction of the move;
    all descriptions of one function, and of its row/column sibling, must be the same interval."""
    table = {}
    for fn, pos in (("move_row_unchecked", "row"), ("move_column_unchecked", "column")):
        b0 = ck.need(F.one, "model::Model::" + fn)
        for b in unit_bodies(F, b0):
            unit0 = "cells" if b is b0 else "links closure"
            # (a) comparisons element OP bound
            acc = {}
            for bi, blk in enumerate(b.blocks):
                t = blk["t"]
                if t["k"] != "switch" or t["ty"] != "bool":
                    continue
                tr = b.trace(t["o"])
                if tr["kind"] != "rv" or tr["rv"]["k"] != "bin" or tr["rv"]["op"] not in ("Lt", "Le", "Gt", "Ge"):
                    continue
                rv = tr["rv"]
                na, nb = _band_norm(b, rv["a"], pos), _band_norm(b, rv["b"], pos)
                if (na is None) == (nb is None):
                    continue
                op = rv["op"]
                if na is not None:       # bound OP element  ->  element OP' bound
                    op = {"Lt": "Gt", "Le": "Ge", "Gt": "Lt", "Ge": "Le"}[op]
                    bound, elem = na, rv["b"]
                else:
                    bound, elem = nb, rv["a"]
                sign = _band_sign(b, bi)
                if sign is None:
                    continue
                es = sources(b, elem)
                unit = unit0
                if any(x[0] == "field" and x[1].endswith("::Row") and x[2] == "r" for x in es):
                    unit = "row descriptors"
                elif any(x[0] == "field" and x[1].endswith("::Col") for x in es):
                    unit = "column descriptors"
                lo_hi = acc.setdefault((unit, sign), {"lo": set(), "hi": set(), "loc": b.loc(bi)})
                if op == "Gt":
                    lo_hi["lo"].add((bound[0], bound[1] + 1))
                elif op == "Ge":
                    lo_hi["lo"].add(bound)
                elif op == "Lt":
                    lo_hi["hi"].add((bound[0], bound[1] - 1))
                elif op == "Le":
                    lo_hi["hi"].add(bound)
            # (b) inclusive ranges pos+1..=target
            for bi, t in b.calls():
                q = b.callee_q(t) or ""
                if not q.endswith("RangeInclusive::<Idx>::new") and not q.endswith("RangeInclusive::new"):
                    continue
                if len(t["args"]) != 2:
                    continue
                lo, hi = _band_norm(b, t["args"][0], pos), _band_norm(b, t["args"][1], pos)
                sign = _band_sign(b, bi)
                if lo is None or hi is None or sign is None:
                    continue
                lo_hi = acc.setdefault(("cells loop", sign), {"lo": set(), "hi": set(), "loc": b.loc(bi)})
                lo_hi["lo"].add(lo)
                lo_hi["hi"].add(hi)
            for (unit, sign), v in acc.items():
                table[(fn, unit, sign)] = (frozenset(v["lo"]), frozenset(v["hi"]), v["loc"])
    ck.ob(rule, "descriptions", len(table) >= 8, "only %d descriptions of the shifted band found in move_row_unchecked / move_column_unchecked "
          "(expected cells loop, links closure and row descriptors, in both directions): anchor lost" % len(table))
    for sign in ("down", "up"):
        items = {k: v for k, v in table.items() if k[2] == sign}
        if not items:
            continue
        # the reference interval: the most common description
        from collections import Counter
        cnt = Counter((v[0], v[1]) for v in items.values())
        ref = cnt.most_common(1)[0][0]
        for (fn, unit, sg), (lo, hi, loc) in sorted(items.items()):
            def show(x):
                return sorted("%s%+d" % (bse, off) if off else bse for bse, off in x)
            ck.ob(rule, "%s|%s|delta %s 0" % (fn, unit, ">" if sign == "down" else "<"), (lo, hi) == ref,
                  "%s: the %s shift the band [%s, %s] when delta %s 0, the other descriptions of the same move shift [%s, %s]: one of them is off by "
                  "one, so what it relocates (cells, links or descriptors) parts from the rest"
                  % (fn, unit, show(lo), show(hi), ">" if sign == "down" else "<", show(ref[0]), show(ref[1])), loc[0], loc[1],
                  sample={"fn": fn, "unit": unit, "direction": sign, "lo": show(lo), "hi": show(hi)})


# ------------------------------------------------------------------------------------------------ FLAG-MATCH (C09, C16)
def flag_match(ck, F, rule="FLAG-MATCH"):
    """Each coordinate is resolved with its own `$` flag: in the two printers (stringify, to_string_moved), wherever a branch
    on a Node field `absolute_<k>` (k = row, column, row1, column1, row2, column2) selects between two integer values -- the
    absolute coordinate and the coordinate offset by the formula's cell -- those values are computed from the field `<k>` and
    from no other coordinate of the node.  `reference_column2 = if absolute_column1 { column2 } else { column2 + ctx }`
    resolves the second corner with the first corner's flag: ranges like $A1:B2 are then judged inside or outside a cut area,
    or displaced, by the wrong cell."""
    NODE = "ironcalc_base::expressions::parser::Node"
    COORDS = ("row", "column", "row1", "column1", "row2", "column2")
    n = 0
    for q in ("stringify::stringify", "move_formula::to_string_moved"):
        b = ck.need(F.one, q)
        pname = q.rsplit("::", 1)[-1]
        k = {}
        for bi, blk in enumerate(b.blocks):
            t = blk["t"]
            if t["k"] != "switch" or t["ty"] != "bool":
                continue
            fl = {x[2] for x in sources(b, t["o"]) if x[0] == "field" and x[1] == NODE}
            if len(fl) != 1:
                continue
            flag = next(iter(fl))
            if not flag.startswith("absolute_") or flag[len("absolute_"):] not in COORDS:
                continue
            want = flag[len("absolute_"):]
            # the integer variable that both arms assign (the value selected by the flag), straight-line code up to the merge
            arms_assign = []
            for tgt in [x for _, x in t["targets"]] + [t["otherwise"]]:
                assigned = {}
                cur, steps = tgt, 0
                while cur is not None and steps < 4:
                    steps += 1
                    for s in b.blocks[cur]["s"]:
                        if place_proj(s["p"]) or b.locals[s["p"]["l"]] != "i32":
                            continue
                        rv = s["rv"]
                        ops = [rv["o"]] if rv["k"] in ("use", "cast") else ([rv["a"], rv["b"]] if rv["k"] == "bin" else [])
                        cf = set()
                        for o in ops:
                            cf |= {x[2] for x in sources(b, o) if x[0] == "field" and x[1] == NODE and x[2] in COORDS}
                        assigned.setdefault(s["p"]["l"], set()).update(cf)
                    nt = b.blocks[cur]["t"]
                    if nt["k"] == "call" and not place_proj(nt["dest"]) and b.locals[nt["dest"]["l"]] == "i32":
                        # `*column2 + ctx.column` on references is a call to <&i32 as Add>::add
                        cf = set()
                        for o in nt["args"]:
                            cf |= {x[2] for x in sources(b, o) if x[0] == "field" and x[1] == NODE and x[2] in COORDS}
                        assigned.setdefault(nt["dest"]["l"], set()).update(cf)
                    elif nt["k"] not in ("goto", "assert"):
                        break
                    nx = b.succs(cur)
                    if len(nx) != 1 or len(b.preds(nx[0])) > 1:
                        break
                    cur = nx[0]
                arms_assign.append(assigned)
            common = set(arms_assign[0]) if arms_assign else set()
            for aa in arms_assign[1:]:
                common &= set(aa)
            coords = set()
            for l in common:
                for aa in arms_assign:
                    coords |= aa[l]
            found = bool(coords)
            if not found:
                continue
            n += 1
            idx = k[flag] = k.get(flag, 0) + 1
            f, l = b.loc(bi)
            ck.ob(rule, "%s|%s#%d selects a value of %s" % (pname, flag, idx, want), coords == {want},
                  "%s branches on %s to choose between values computed from %s: the coordinate `%s` must be resolved with its own flag"
                  % (pname, flag, sorted(coords), want), f, l, sample={"printer": pname, "flag": flag, "coordinates": sorted(coords)})
    ck.ob(rule, "sites", n >= 6, "only %d flag-selected coordinates found in the printers (anchor lost?)" % n)


# ------------------------------------------------------------------------------------------------ CUT (C13, C14)
def _cut_norm(b, o, depth=0):
    """(frozenset of parameter names, constant offset) when the operand is a sum of parameters (of the function, or
    captured by a closure of it) plus a constant; None otherwise."""
    if o.get("k") is not None:
        return None
    sr = sources(b, o)
    if any(x[0] in ("field", "call") for x in sr):
        return None
    ups = {x[1] for x in sr if x[0] == "upvar"}
    if ups:
        if len(ups) == 1 and not any(x[0] in ("param", "arith") for x in sr) and b.facts is not None and depth < 3:
            par = b.facts.heads.get(b.path, {}).get("parent")
            if par and b.facts.has(par):
                pb = b.facts.body(par)
                ls = pb.local_by_name(next(iter(ups)))
                if len(ls) == 1:
                    return _cut_norm(pb, {"c": {"l": ls[0]}}, depth + 1)
        return None
    params = frozenset(x[1] for x in sr if x[0] == "param")
    if not params or any(x[0] == "arith" and x[1] not in ("Add", "Sub") for x in sr):
        return None
    if b.facts is not None and b.facts.heads.get(b.path, {}).get("bkind") == "closure":
        own = {b.local_name(i) for i in range(2, b.nargs + 1)}
        if params & own:
            return None       # the closure's own argument is the element being classified, not a boundary
    off = _band_offset(b, o, 0)
    if off is None:
        return None
    return (params, off)


def cut_agree(ck, F, rule="CUT"):
    """One edit, one set of boundaries: insert_rows / delete_rows / insert_columns / delete_columns decide for cells, links,
    conditional-format ranges and descriptors which side of the edit an element is on by comparing its coordinate with `pos`
    or `pos + count`.  Every such comparison in the function and its closures is normalised to a cut point (`x < B` and
    `x >= B` cut at B, `x <= B` and `x > B` cut at B + 1); all comparisons against the same combination of parameters must
    cut at the same point.  A link closure that drops `r <= row + row_count` where the descriptors shift `r >= row + row_count`
    treats the first surviving row both ways."""
    n = 0
    # (delete_columns is left out: its descriptor rebuild compares two intervals and legitimately cuts at several points;
    #  GRID-GUARD descriptor_order decides it with the zone engine instead)
    for fn in ("insert_rows", "delete_rows", "insert_columns"):
        b0 = ck.need(F.one, "model::Model::" + fn)
        cuts = {}
        for b in unit_bodies(F, b0):
            for bi, blk in enumerate(b.blocks):
                t = blk["t"]
                if t["k"] != "switch" or t["ty"] != "bool":
                    continue
                tr = b.trace(t["o"])
                if tr["kind"] != "rv" or tr["rv"]["k"] != "bin" or tr["rv"]["op"] not in ("Lt", "Le", "Gt", "Ge"):
                    continue
                rv = tr["rv"]
                na, nb = _cut_norm(b, rv["a"]), _cut_norm(b, rv["b"])
                if (na is None) == (nb is None):
                    continue
                if (na is None and rv["a"].get("k") is not None) or (nb is None and rv["b"].get("k") is not None):
                    continue      # a test of the parameters against a constant (grid limit), not a classification of an element
                op = rv["op"]
                if na is not None:
                    op = {"Lt": "Gt", "Le": "Ge", "Gt": "Lt", "Ge": "Le"}[op]
                    bound = na
                else:
                    bound = nb
                cut = bound[1] + (1 if op in ("Le", "Gt") else 0)
                cuts.setdefault(bound[0], []).append((cut, b.loc(bi), "closure" if b is not b0 else "body"))
        for base, items in sorted(cuts.items(), key=lambda kv: sorted(kv[0])):
            from collections import Counter
            ref = Counter(c for c, _, _ in items).most_common(1)[0][0]
            for k, (cut, loc, where) in enumerate(items, 1):
                n += 1
                ck.ob(rule, "%s|vs %s|#%d" % (fn, "+".join(sorted(base)), k), cut == ref,
                      "%s (%s): a comparison against %s cuts at %s%+d where the other comparisons of the same edit cut at %s%+d: the element exactly "
                      "at the boundary is on one side for some of the things that move (cells, links, descriptors) and on the other for the rest"
                      % (fn, where, "+".join(sorted(base)), "+".join(sorted(base)), cut, "+".join(sorted(base)), ref), loc[0], loc[1],
                      sample={"fn": fn, "bound": sorted(base), "cut": cut})
    ck.ob(rule, "comparisons", n >= 10, "only %d boundary comparisons found in the insert/delete functions (anchor lost?)" % n)
