"""QUOTE (C22): every character allowed in a sheet name that the lexer would not read as part of an
unquoted sheet prefix makes quote_name quote the name.

Both sides are *interpreted from the MIR* with the finite-domain path interpreter and concrete character
predicates: the per-character loop body of name_needs_quoting, the loop body of
Lexer::consume_identifier and the first-character dispatch of Lexer::next_token. Code points are
partitioned into classes by everything those bodies can observe (the character constants they mention and
the char predicates they call); one representative per class is interpreted, which covers all Unicode
scalar values."""
import sys

from mir import const_str, op_place, place_proj
from pathx import Interp, UNKNOWN, parse_char_literal
from tabx import collect, describe_operand

PRED = {
    "is_alphanumeric": lambda c: chr(c).isalnum(),
    "is_alphabetic": lambda c: chr(c).isalpha(),
    "is_ascii_digit": lambda c: 48 <= c <= 57,
    "is_ascii_alphabetic": lambda c: (65 <= c <= 90) or (97 <= c <= 122),
    "is_ascii_alphanumeric": lambda c: (65 <= c <= 90) or (97 <= c <= 122) or (48 <= c <= 57),
    "is_numeric": lambda c: chr(c).isnumeric(),
    "is_whitespace": lambda c: chr(c).isspace(),
    "is_ascii_uppercase": lambda c: 65 <= c <= 90,
    "is_ascii_lowercase": lambda c: 97 <= c <= 122,
    "is_digit": lambda c: 48 <= c <= 57,
}


def _char_consts(body, F):
    """All char constants a body (and its promoteds) mentions, including SwitchInt targets on a char."""
    out = set()
    bodies = [body] + [F.body(p) for p in F.body_paths() if p.startswith(body.path + "::{promoted")]
    for b in bodies:
        for bi, blk in enumerate(b.blocks):
            ops = []
            for s in blk["s"]:
                from mir import rvalue_operands
                ops.extend(rvalue_operands(s["rv"]))
            from mir import term_operands
            ops.extend(term_operands(blk["t"]))
            for o in ops:
                k = o.get("k")
                if k and k.get("ty") == "char":
                    cp = parse_char_literal(k.get("v", k.get("d")))
                    if cp is not None:
                        out.add(cp)
            t = blk["t"]
            if t["k"] == "switch" and t["ty"] == "char":
                for v, _ in t["targets"]:
                    out.add(int(v))
    return out


def _preds_used(body):
    out = set()
    for bi, t in body.calls():
        q = body.callee_q(t) or ""
        if "char::methods" in q:
            out.add(q.rsplit("::", 1)[-1])
    return out


def _promoted_array(body, F, idx):
    pb = F.body("%s::{promoted#%d}" % (body.path, idx))
    if pb is None:
        return None
    out = []
    for bi, si, s in pb.stmts():
        rv = s["rv"]
        if rv["k"] == "agg" and rv.get("agg") == "array":
            for o in rv["ops"]:
                k = o.get("k")
                if k and k.get("ty") == "char":
                    out.append(parse_char_literal(k.get("v", k.get("d"))))
    return out


def make_hook(body, F, unknown_preds):
    def hook(interp, t, argv, st, env):
        q = interp.b.callee_q(t) or ""
        last = q.rsplit("::", 1)[-1]
        if "char::methods" in q and argv:
            v = argv[0]
            if isinstance(v, tuple) and v[0] == "ref":
                v = interp.eval_place(v[1], st, env)
            if isinstance(v, int) and not isinstance(v, bool):
                f = PRED.get(last)
                if f is None:
                    unknown_preds.add(last)
                    return UNKNOWN
                return f(v)
            return UNKNOWN
        if q.endswith("slice::contains") and len(argv) == 2:
            arr, needle = argv
            if isinstance(needle, tuple) and needle[0] == "ref":
                needle = interp.eval_place(needle[1], st, env)
            cands = None
            if isinstance(arr, tuple) and arr[0] == "ref":
                arr = interp.eval_place(arr[1], st, env)
            if isinstance(arr, tuple) and arr[0] == "promoted":
                cands = _promoted_array(interp.b, F, arr[1])
            if cands is not None and isinstance(needle, int):
                return needle in cands
            return UNKNOWN
        return UNKNOWN
    return hook


def _bound_from(b, src):
    """{type: place key} of the locals a body binds from the value `src` holds (pattern bindings of an Option payload,
    a dereferenced index result) -- found by dataflow, so that renaming the bindings changes nothing."""
    from mir import place_str
    out = {}
    for bi, si, s in b.stmts():
        rv = s["rv"]
        if rv["k"] == "use" and not place_proj(s["p"]):
            p = op_place(rv["o"])
            if p is not None and p["l"] == src and place_proj(p):
                out.setdefault(b.locals[s["p"]["l"]], place_str(s["p"], b))
    return out



def quote_rule(ck, F):
    R = "QUOTE"
    nq = ck.need(F.one, "expressions::utils::name_needs_quoting")
    ci = ck.need(F.one, "expressions::lexer::Lexer::consume_identifier")
    nt = ck.need(F.one, "expressions::lexer::Lexer::next_token")
    vs = ck.need(F.one, "new_empty::is_valid_sheet_name")
    # invalid sheet-name characters (excluded from the obligation)
    invalid = set()
    for bi, si, s in vs.stmts():
        rv = s["rv"]
        if rv["k"] == "agg" and rv.get("agg") == "array":
            for o in rv["ops"]:
                k = o.get("k")
                if k and k.get("ty") == "char":
                    invalid.add(parse_char_literal(k.get("v", k.get("d"))))
    ck.ob(R, "is_valid_sheet_name|invalid-set", len(invalid) >= 5, "invalid character list not found", vs.file, vs.line,
          sample={"invalid": "".join(chr(c) for c in sorted(invalid))})
    consts = _char_consts(nq, F) | _char_consts(ci, F) | _char_consts(nt, F)
    preds = _preds_used(nq) | _preds_used(ci) | _preds_used(nt)
    unknown_preds = set()
    ck.assume("Python str.isalnum/isalpha/isnumeric/isspace stand in for Rust's char::is_alphanumeric/is_alphabetic/is_numeric/is_whitespace")
    # ---- partition all scalar values
    classes = {}
    predfs = [(p, PRED[p]) for p in sorted(preds) if p in PRED]
    for p in preds:
        if p not in PRED:
            unknown_preds.add(p)
    for c in range(0x110000):
        if 0xD800 <= c <= 0xDFFF:
            continue
        if c in consts:
            sig = ("const", c)
        else:
            sig = tuple(f(c) for _, f in predfs)
        if sig not in classes:
            classes[sig] = [c, 0]
        classes[sig][1] += 1
    ck.note("char_classes", len(classes))
    ck.note("code_points", sum(v[1] for v in classes.values()))
    # ---- interpreters
    # name_needs_quoting: loop header = block calling Enumerate::next; Some-arm entry binds `char` and `i`
    hdr = [bi for bi, t in nq.calls() if (nq.callee_q(t) or "").endswith("Iterator>::next")]
    if len(hdr) != 1:
        ck.anchor("name_needs_quoting: per-character loop not found")
        return
    sw = nq.succs(hdr[0])[0]
    tg = nq.switch_targets_by_variant(sw)
    entry = tg.get("Some")
    Inq = Interp(nq, F, call_hook=make_hook(nq, F, unknown_preds))
    nq_t = nq.term(hdr[0])
    bnd = _bound_from(nq, nq_t["dest"]["l"]) if not place_proj(nq_t["dest"]) else {}
    if "char" not in bnd or "usize" not in bnd:
        ck.anchor("name_needs_quoting: the (index, character) bindings of the loop were not found")
        return
    k_char, k_idx = bnd["char"], bnd["usize"]

    def needs_quote(c, pos):
        ps = Inq.run({k_char: c, k_idx: pos}, start=entry, stops={hdr[0]})
        res = set()
        for p in ps:
            if p.events and p.events[-1][0] == "stop":
                res.add(False)
            elif p.ret is True:
                res.add(True)
            else:
                res.add(None)
        return res

    # consume_identifier: loop body from the block that indexes chars[position]
    idx = [bi for bi, t in ci.calls() if (ci.callee_q(t) or "").endswith("Index<I>>::index")]
    if not idx:
        ck.anchor("consume_identifier: character read not found")
        return
    start_ci = ci.succs(idx[0])[0]
    # loop header: the comparison position < len dominating the read
    from mir import loop_header_of
    hdr_ci = loop_header_of(ci, idx[0])
    Ici = Interp(ci, F, call_hook=make_hook(ci, F, unknown_preds))
    ci_t = ci.term(idx[0])
    bnd_ci = _bound_from(ci, ci_t["dest"]["l"]) if not place_proj(ci_t["dest"]) else {}
    if "char" not in bnd_ci:
        ck.anchor("consume_identifier: the binding of the character read was not found")
        return
    k_next = bnd_ci["char"]

    def ident_rest(c):
        ps = Ici.run({k_next: c}, start=start_ci, stops={hdr_ci} if hdr_ci is not None else ())
        res = set()
        for p in ps:
            if p.events and p.events[-1][0] == "stop":
                res.add(True)      # position += 1 and loop again
            else:
                res.add(False)     # break
        return res

    # next_token: from the arm that binds `char` until the first Lexer::consume_* call / token construction
    rn = [bi for bi, t in nt.calls() if (nt.callee_q(t) or "").endswith("Lexer::read_next_char")]
    if len(rn) != 1:
        ck.anchor("next_token: read_next_char not found")
        return
    sw2 = nt.succs(rn[0])[0]
    tg2 = nt.switch_targets_by_variant(sw2)
    entry2 = tg2.get("Some") if tg2 else None
    if entry2 is None:
        ck.anchor("next_token: Some(char) arm not found")
        return
    stops2 = {bi for bi, t in nt.calls() if (nt.callee_q(t) or "").startswith("ironcalc_base::expressions::lexer::Lexer::") and
              (nt.callee_q(t) or "").rsplit("::", 1)[-1] not in ("read_next_char",)}
    Int = Interp(nt, F, call_hook=make_hook(nt, F, unknown_preds), max_paths=64)
    nt_t = nt.term(rn[0])
    bnd_nt = _bound_from(nt, nt_t["dest"]["l"]) if not place_proj(nt_t["dest"]) else {}
    if "char" not in bnd_nt:
        ck.anchor("next_token: the binding of the character read was not found")
        return
    k_first = bnd_nt["char"]

    def ident_first(c):
        ps = Int.run({k_first: c}, start=entry2, stops=stops2)
        res = set()
        for p in ps:
            if p.events and p.events[-1][0] == "stop":
                q = nt.callee_q(nt.term(p.events[-1][1])) or ""
                res.add(q.endswith("Lexer::consume_identifier"))
            else:
                res.add(False)
        return res

    # ---- obligations per class
    nonascii_bad = []
    for sig, (c, count) in sorted(classes.items(), key=lambda x: x[1][0]):
        if c in invalid:
            continue
        rest = ident_rest(c)
        first = ident_first(c)
        q0 = needs_quote(c, 0)
        q1 = needs_quote(c, 1)
        amb = None in q0 or None in q1 or len(rest) != 1 or len(first) != 1 or len(q0) != 1 or len(q1) != 1
        label = "U+%04X %r" % (c, chr(c)) if sig[0] == "const" else "class%s e.g. U+%04X %r (%d code points)" % (
            "".join("+" + p if v else "-" + p for (p, _), v in zip(predfs, sig)), c, chr(c), count)
        if amb:
            ck.ob(R, "undetermined|%s" % label, False, "interpretation did not determine the decision for %s: rest=%s first=%s quote=%s/%s" % (label, rest, first, q0, q1),
                  nq.file, nq.line)
            continue
        rest, first, q0, q1 = rest.pop(), first.pop(), q0.pop(), q1.pop()
        # a character the lexer cannot continue an unquoted sheet prefix with must trigger quoting anywhere
        ok_rest = rest or q1
        ck.ob(R, "inside|%s" % label, ok_rest,
              "a sheet name containing %s is printed unquoted, but the lexer's identifier path stops at that character: the printed reference does not read back as that sheet" % label,
              nq.file, nq.line, sample={"char": label, "lexer_continues": rest, "quoted": q1})
        ok_first = first or q0
        ck.ob(R, "leading|%s" % label, ok_first,
              "a sheet name starting with %s is printed unquoted, but the lexer does not start an identifier there" % label,
              nq.file, nq.line, sample={"char": label, "lexer_starts_identifier": first, "quoted": q0})
    for p in sorted(unknown_preds):
        ck.ob(R, "unknown-predicate|%s" % p, False, "char predicate %s is not modelled by the checker" % p)
    # ---- escaping of the quote character
    qn = ck.need(F.one, "expressions::utils::quote_name")
    cs = ck.need(F.one, "expressions::lexer::Lexer::consume_single_quote_string")
    enc = None
    for bi, t in qn.calls():
        if (qn.callee_q(t) or "").endswith("str::replace"):
            a = describe_operand(qn, t["args"][1])
            b = describe_operand(qn, t["args"][2])
            enc = (a, b)
    dec = None
    for bi, t in cs.calls():
        if (cs.callee_q(t) or "").endswith("str::replace"):
            a = describe_operand(cs, t["args"][1])
            b = describe_operand(cs, t["args"][2])
            dec = (a, b)

    def val(d):
        if d[0] == "str":
            return d[1]
        if d[0] == "const":
            cp = parse_char_literal(d[1])
            return chr(cp) if cp is not None else None
        return None
    ok = enc is not None and dec is not None and val(enc[0]) == "'" and val(enc[1]) == "''" and val(dec[0]) == "''" and val(dec[1]) == "'"
    ck.ob(R, "escape|quote-doubling-inverse", ok, "quote_name escapes %s, consume_single_quote_string unescapes %s" % (enc, dec), qn.file, qn.line,
          sample={"escape": str(enc), "unescape": str(dec)})
