"""PANIC (C11, C25): inventory of potentially panicking terminators reachable from the text / import entry points, each
discharged by an enumerated local idiom, a reasoned single-site exception, or reported.

Armed site classes (panic in debug *and* release builds): slice/Vec/str indexing and slicing, MIR bounds checks, unsigned
subtraction underflow (it feeds indices), division / remainder by zero, unwrap/expect, explicit panics, Vec/String
positional mutators. Signed-integer overflow asserts exist only with overflow-checks (debug) and are inventoried, not armed."""
from effects import Program
from mir import const_int, op_place, place_proj, place_str
import zones
from rules_attr import sources

UNSIGNED = ("usize", "u8", "u16", "u32", "u64", "u128")
POS_MUTATORS = ("remove", "insert", "swap_remove", "drain", "split_off", "split_at", "split_at_mut", "replace_range", "copy_from_slice", "swap")


def reachable_bodies(F, P, entries, stops, skip_dirs=("/functions/",)):
    roots = []
    missing = []
    for e in entries:
        r = F.find(e)
        if not r:
            missing.append(e)
        roots += r
    stop = set()
    for s in stops:
        stop |= set(F.find(s))
    reach = set()
    st = list(roots)
    while st:
        x = st.pop()
        if x in reach or x in stop or x not in F.heads:
            continue
        if any(d in F.heads[x]["file"] for d in skip_dirs):
            continue
        reach.add(x)
        st.extend(P.edges.get(x, ()))
    return reach, missing


def panic_sites(F, b):
    """[(block, class, detail dict)]"""
    out = []
    for bi, blk in enumerate(b.blocks):
        t = blk["t"]
        if t.get("cleanup"):
            continue
        mac = t.get("mac", "")
        if t["k"] == "assert":
            kind = t["kind"]
            if kind in ("Misaligned", "NullPtr", "InvalidEnum"):
                continue
            if kind == "BoundsCheck":
                out.append((bi, "bounds", {"len": t["ops"][0], "index": t["ops"][1]}))
            elif kind in ("DivisionByZero", "RemainderByZero"):
                dv = zones.divisor_of_assert(b, bi)
                out.append((bi, "divzero", {"divisor": dv if dv is not None else t["ops"][0], "unknown": dv is None}))
            elif kind.startswith("Overflow(Sub)"):
                ty = _op_ty(b, t["ops"][0])
                if ty in UNSIGNED:
                    out.append((bi, "usub", {"a": t["ops"][0], "b": t["ops"][1], "ty": ty}))
            continue
        if t["k"] != "call":
            continue
        q = b.callee_q(t) or ""
        last = q.rsplit("::", 1)[-1]
        if "panicking::" in q or q.endswith("::begin_panic") or last in ("unreachable_display",):
            if "debug_assert" in mac:
                continue   # compiled out of release builds; states a belief (checked by other rules where relevant)
            out.append((bi, "explicit", {"mac": mac or last}))
        elif last in ("unwrap", "expect") and ("option::Option" in q or "result::Result" in q):
            out.append((bi, "unwrap", {"recv": t["args"][0], "what": last}))
        elif last in ("index", "index_mut") and ("Index" in q):
            ity = t["fn"].get("targs", [])
            out.append((bi, "index", {"base": t["args"][0], "index": t["args"][1], "q": q, "targs": ity}))
        elif last in POS_MUTATORS and ("vec::Vec" in q or "string::String" in q or "slice::" in q or "str::" in q):
            if last == "drain" and False:
                continue
            out.append((bi, "mutator", {"fn": last, "args": t["args"], "q": q}))
    return out


def _op_ty(b, o):
    pl = op_place(o)
    if pl is not None and not place_proj(pl):
        return b.locals[pl["l"]]
    k = o.get("k")
    return k.get("ty") if k else None


# ------------------------------------------------------------------------------------------------ discharge
LEN_ALIASES = {
    # struct field that always equals the length of a sibling field (established by len_invariant below)
    ("ironcalc_base::expressions::lexer::Lexer", "len"): ("ironcalc_base::expressions::lexer::Lexer", "chars"),
    ("ironcalc_base::formatter::lexer::Lexer", "len"): ("ironcalc_base::formatter::lexer::Lexer", "chars"),
}


def _le(A, bi, x, y, c=0):
    """x + cx - (y + cy) <= c  for linear forms x=(t,cx), y=(t,cy)"""
    if x is None or y is None:
        return False
    return A.query_le(bi, x[0], y[0], c - x[1] + y[1])


def discharge(F, b, A, bi, cls, d):
    """Returns the name of the argument that discharges the site, else None."""
    z = A.state_at_term.get(bi)
    if z is None or z.bottom:
        return "unreachable in the abstract semantics"
    if cls == "bounds":
        ix, ln = A.lin(z, d["index"], "usize"), A.lin(z, d["len"], "usize")
        if _le(A, bi, ix, ln, -1):
            return "zone: index < len"
        return None
    if cls == "index":
        base, ix = d["base"], d["index"]
        if "HashMap" in d["q"] or "BTreeMap" in d["q"]:
            return None
        lt = A.len_term(base)
        if lt is None:
            return None
        A._touch(z, lt)
        ln = (lt, 0)
        idx_ty = _op_ty(b, ix) or ""
        t0 = (d.get("targs") or [""])[0]
        is_str = t0 in ("str", "std::string::String", "&str", "&std::string::String") or "for str>" in d["q"] or "string::String as" in d["q"]
        if "Range" in idx_ty:
            p = op_place(ix)
            if p is None or place_proj(p):
                return None
            l = p["l"]
            st = ("m:_%d.start" % l, 0) if ("m:_%d.start" % l) in A.info else None
            en = ("m:_%d.end" % l, 0) if ("m:_%d.end" % l) in A.info else None
            ok = False
            if idx_ty.startswith("std::ops::RangeFull"):
                ok = True
            elif idx_ty.startswith("std::ops::RangeFrom"):
                ok = _le(A, bi, st, ln, 0)
            elif idx_ty.startswith("std::ops::RangeTo<"):
                ok = _le(A, bi, en, ln, 0)
            elif idx_ty.startswith("std::ops::Range<"):
                ok = _le(A, bi, st, en, 0) and _le(A, bi, en, ln, 0)
            if not ok:
                return None
            if is_str:
                return None if not _boundaries_ok(F, b, A, bi, st, en, lt) else "zone: start <= end <= len; ends on char boundaries"
            return "zone: start <= end <= len"
        if is_str:
            return None
        if _le(A, bi, A.lin(z, ix, "usize"), ln, -1):
            return "zone: index < len"
        return None
    if cls == "usub":
        a, c = A.lin(z, d["a"], d["ty"]), A.lin(z, d["b"], d["ty"])
        if _le(A, bi, c, a, 0):
            return "zone: subtrahend <= minuend"
        return None
    if cls == "divzero":
        c = const_int(d["divisor"])
        if d.get("unknown"):
            return None
        if c is not None and c != 0:
            return "constant non-zero divisor"
        ty = _op_ty(b, d["divisor"])
        dv = A.lin(z, d["divisor"], ty)
        if dv and (_le(A, bi, ("0", 0), dv, -1) or _le(A, bi, dv, ("0", 0), -1)):
            return "zone: divisor != 0"
        return None
    if cls == "unwrap":
        r = b.trace(d["recv"])
        if r["kind"] == "rv" and r["rv"]["k"] == "agg" and r["rv"].get("variant") in ("Some", "Ok"):
            return "unwrap of a value just built as Some/Ok"
        if r["kind"] == "call":
            q = b.callee_q(r["t"]) or ""
            args_const = all(a.get("k") is not None or (b.trace(a)["kind"] == "const") for a in r["t"]["args"])
            if args_const and q.rsplit("::", 1)[-1] in ("from_ymd_opt", "from_hms_opt", "new", "from_u32", "from_digit", "from_timestamp", "with_ymd_and_hms"):
                return "constructor with constant arguments (%s)" % q.rsplit("::", 1)[-1]
        return None
    if cls == "mutator":
        fn, args = d["fn"], d["args"]
        if fn == "insert" and "string::String" in d["q"] and len(args) == 3 and const_int(args[1]) == 0:
            return "String::insert at byte 0 (always a boundary, always <= len)"
        lt = A.len_term(args[0]) if args else None
        if lt is None:
            return None
        A._touch(z, lt)
        ln = (lt, 0)
        if fn in ("remove", "swap_remove") and len(args) == 2 and "string::String" not in d["q"]:
            return "zone: index < len" if _le(A, bi, A.lin(z, args[1], "usize"), ln, -1) else None
        if fn in ("insert", "split_off", "split_at", "split_at_mut") and len(args) >= 2 and "string::String" not in d["q"] and "str::" not in d["q"]:
            return "zone: index <= len" if _le(A, bi, A.lin(z, args[1], "usize"), ln, 0) else None
        if fn == "swap" and len(args) == 3:
            ok = _le(A, bi, A.lin(z, args[1], "usize"), ln, -1) and _le(A, bi, A.lin(z, args[2], "usize"), ln, -1)
            return "zone: both indices < len" if ok else None
        return None
    return None


def _boundaries_ok(F, b, A, bi, st, en, lt):
    """A str slice end is a char boundary when it is provably 0 or len(s); anything else is left to triage."""
    def edge(v):
        if v is None:
            return True
        if _le(A, bi, v, ("0", 0), 0):
            return True
        if _le(A, bi, (lt, 0), v, 0) and _le(A, bi, v, (lt, 0), 0):
            return True
        pf = "pfx:" + A.info[lt]["s"]
        if pf in A.info and _le(A, bi, (pf, 0), v, 0) and _le(A, bi, v, (pf, 0), 0):
            return True     # the length of a literal prefix that `starts_with` found at the front of this string
        return False
    return edge(st) and edge(en)


# ------------------------------------------------------------------------------------------------ rule
C11_ENTRIES = ["parser::Parser::parse", "parser::Parser::parse_at_cursor", "lexer::util::get_tokens", "lexer::util::get_tokens_with_locale",
               "lexer::util::cycle_reference", "formatter::format::format_number", "formatter::format::parse_formatted_number",
               "model::Model::set_user_input", "model::Model::formula_completion", "model::Model::cycle_reference"]
C11_STOPS = ["model::Model::evaluate"]


def panic_rule(ck, F, rule, entries, stops, excepts, skip_dirs=("/functions/",), crates=None, floor_sites=0):
    P = Program(F)
    reach, missing = reachable_bodies(F, P, entries, stops, skip_dirs)
    for m in missing:
        ck.anchor("entry point %s" % m)
    n = 0
    undischarged = []
    per_class = {}
    for p in sorted(reach):
        if crates and F.heads[p]["crate"] not in crates:
            continue
        b = F.body(p)
        sites = panic_sites(F, b)
        if not sites:
            continue
        A = zones.Analysis(b, P, F, LEN_ALIASES)
        qn = b.qname.split("::", 1)[-1]
        ords = {}
        for bi, cls, d in sites:
            n += 1
            ords[cls] = ords.get(cls, 0) + 1
            per_class[cls] = per_class.get(cls, 0) + 1
            key = "%s|%s#%d" % (qn, cls, ords[cls])
            how = discharge(F, b, A, bi, cls, d)
            f, l = b.loc(bi)
            if how:
                ck.ob(rule, key, True, sample={"site": key, "discharged_by": how})
                continue
            if (qn, "%s#%d" % (cls, ords[cls])) in excepts:
                ck.ob(rule, key, True, excepts[(qn, "%s#%d" % (cls, ords[cls]))], nontrivial=False)
                continue
            undischarged.append((key, f, l, cls))
            ck.ob(rule, key, False, "potential panic (%s) not discharged by a guard idiom: %s" % (cls, _describe(b, cls, d)), f, l)
    ck.note("panic_sites", n)
    ck.note("per_class", per_class)
    ck.note("reachable_bodies", len(reach))
    return undischarged


def _describe(b, cls, d):
    try:
        if cls == "index":
            return "%s[%s]" % (place_str(b.resolve_place(op_place(d["base"])), b) if op_place(d["base"]) else "?", sorted(map(str, sources(b, d["index"])))[:3])
        if cls == "usub":
            return "%s - %s" % (sorted(map(str, sources(b, d["a"])))[:2], sorted(map(str, sources(b, d["b"])))[:2])
        if cls == "unwrap":
            return "%s on %s" % (d["what"], sorted(map(str, sources(b, d["recv"])))[:2])
        if cls == "bounds":
            return "index %s, len %s" % (sorted(map(str, sources(b, d["index"])))[:2], sorted(map(str, sources(b, d["len"])))[:2])
        if cls == "mutator":
            return d["fn"]
        if cls == "explicit":
            return d["mac"]
    except Exception as e:   # descriptive only
        return "?"
    return cls
