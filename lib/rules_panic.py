"""PANIC (C11, C25): inventory of potentially panicking terminators reachable from the text / import entry points, each
discharged by an enumerated local idiom, a reasoned single-site exception, or reported.

Armed site classes (panic in debug *and* release builds): slice/Vec/str indexing and slicing, MIR bounds checks, unsigned
subtraction underflow (it feeds indices), division / remainder by zero, unwrap/expect, explicit panics, Vec/String
positional mutators. Signed-integer overflow asserts exist only with overflow-checks (debug) and are inventoried, not armed."""
from effects import Program
from mir import const_int, op_place, place_proj, place_str
import zones
from rules_attr import sources

UNSIGNED = ("usize", "u8", "u16", "u32", "u64", "u128")
POS_MUTATORS = ("remove", "insert", "swap_remove", "drain", "split_off", "split_at", "split_at_mut", "replace_range", "copy_from_slice", "swap")


def reachable_bodies(F, P, entries, stops, skip_dirs=("/functions/",)):
    roots = []
    missing = []
    for e in entries:
        r = F.find(e)
        if not r:
            missing.append(e)
        roots += r
    stop = set()
    for s in stops:
        stop |= set(F.find(s))
    reach = set()
    st = list(roots)
    while st:
        x = st.pop()
        if x in reach or x in stop or x not in F.heads:
            continue
        if any(d in F.heads[x]["file"] for d in skip_dirs):
            continue
        reach.add(x)
        st.extend(P.edges.get(x, ()))
    return reach, missing


def panic_sites(F, b):
    """[(block, class, detail dict)]"""
    out = []
    for bi, blk in enumerate(b.blocks):
        t = blk["t"]
        if t.get("cleanup"):
            continue
        mac = t.get("mac", "")
        if t["k"] == "assert":
            kind = t["kind"]
            if kind in ("Misaligned", "NullPtr", "InvalidEnum"):
                continue
            if kind == "BoundsCheck":
                out.append((bi, "bounds", {"len": t["ops"][0], "index": t["ops"][1]}))
            elif kind in ("DivisionByZero", "RemainderByZero"):
                dv = zones.divisor_of_assert(b, bi)
                out.append((bi, "divzero", {"divisor": dv if dv is not None else t["ops"][0], "unknown": dv is None}))
            elif kind.startswith("Overflow(Sub)"):
                ty = _op_ty(b, t["ops"][0])
                if ty in UNSIGNED:
                    out.append((bi, "usub", {"a": t["ops"][0], "b": t["ops"][1], "ty": ty}))
            continue
        if t["k"] != "call":
            continue
        q = b.callee_q(t) or ""
        last = q.rsplit("::", 1)[-1]
        if "panicking::" in q or q.endswith("::begin_panic") or last in ("unreachable_display",):
            if "debug_assert" in mac:
                continue   # compiled out of release builds; states a belief (checked by other rules where relevant)
            out.append((bi, "explicit", {"mac": mac or last}))
        elif last in ("unwrap", "expect") and ("option::Option" in q or "result::Result" in q):
            out.append((bi, "unwrap", {"recv": t["args"][0], "what": last}))
        elif last in ("index", "index_mut") and ("Index" in q or str(t["fn"].get("trait", "")).startswith("std::ops::Index") or str(t["fn"].get("d", "")).startswith("std::ops::Index")):
            ity = t["fn"].get("targs", [])
            out.append((bi, "index", {"base": t["args"][0], "index": t["args"][1], "q": q, "targs": ity}))
        elif last in ("step_by", "chunks", "chunks_exact", "windows", "rchunks", "chunks_mut") and len(t["args"]) == 2:
            out.append((bi, "nonzero", {"arg": t["args"][1], "fn": last}))
        elif last in POS_MUTATORS and ("vec::Vec" in q or "string::String" in q or "slice::" in q or "str::" in q):
            if last == "drain" and False:
                continue
            out.append((bi, "mutator", {"fn": last, "args": t["args"], "q": q}))
    return out


def _op_ty(b, o):
    pl = op_place(o)
    if pl is not None and not place_proj(pl):
        return b.locals[pl["l"]]
    k = o.get("k")
    return k.get("ty") if k else None


# ------------------------------------------------------------------------------------------------ discharge
# Struct invariants (field_x - field_y <= c) the engine can assume at entry / after calls once every writer is shown to
# re-establish them (zones.Analysis.inv_failures).  `position <= len(chars)` of the formula lexer was tried: 10 of its
# writers advance `position` by the length of text that `starts_with` just matched, which the zone domain cannot follow,
# and only 3 sites needed it -- so it is not assumed; those 3 sites are reasoned exceptions instead.
INVARIANTS = {}

LEXER = "ironcalc_base::expressions::lexer::Lexer"


def _fld(kind, arg, adt, field):
    return (kind, arg, [["f", -1, field, adt, None]], True)


# Entry assumptions of private functions, in the callee's terms; PRE checks them at every call site (and that the
# callee is private, so there are no other call sites).
PRECONDITIONS = {
    # called right after read_next_char() returned Some('#'): one character has been consumed
    "expressions::lexer::Lexer::consume_error": [(None, _fld("m", 1, LEXER, "position"), -1),
                                                 (_fld("m", 1, LEXER, "position"), _fld("len", 1, LEXER, "chars"), 0)],
    "expressions::lexer::Lexer::consume_identifier": [(_fld("m", 1, LEXER, "position"), _fld("len", 1, LEXER, "chars"), 0)],
}

LEN_ALIASES = {
    # struct field that always equals the length of a sibling field (established by len_invariant below)
    ("ironcalc_base::expressions::lexer::Lexer", "len"): ("ironcalc_base::expressions::lexer::Lexer", "chars"),
    ("ironcalc_base::formatter::lexer::Lexer", "len"): ("ironcalc_base::formatter::lexer::Lexer", "chars"),
}


def _le(z, bi, x, y, c=0):
    """x + cx - (y + cy) <= c  for linear forms x=(t,cx), y=(t,cy) in zone z"""
    if x is None or y is None:
        return False
    return z.entails(x[0], y[0], c - x[1] + y[1])


def _field_of_operand(b, o, depth=0):
    """(owner adt, field) when operand o is (a reference to / a deref / chars().count() of) a place ending in a field."""
    cur = o
    for _ in range(10):
        p = op_place(cur)
        if p is None:
            return None
        rp = b.resolve_place(p)
        fs = [e for e in place_proj(rp) if e[0] == "f"]
        if fs and place_proj(rp)[-1][0] in ("f", "*"):
            e = fs[-1]
            if e[3] and e[3] != "tuple":
                return (e[3], e[2])
        r = b.trace(cur)
        if r["kind"] == "call" and r["t"]["args"]:
            q = (b.callee_q(r["t"]) or "").rsplit("::", 1)[-1]
            if q in ("count", "chars", "deref", "as_str", "len", "as_ref", "borrow"):
                cur = r["t"]["args"][0]
                continue
        return None
    return None


def _const_str(b, o):
    from mir import const_str
    cur = o
    for _ in range(6):
        sv = const_str(cur)
        if sv is not None:
            return sv
        p = op_place(cur)
        if p is None or b.local_name(p["l"]) or len(b.defs().get(p["l"], [])) != 1:
            return None
        rv = b.def_rvalue(p["l"])
        if rv is None:
            return None
        if rv["k"] in ("use", "cast"):
            cur = rv["o"]
        elif rv["k"] == "ref":
            cur = {"c": {"l": rv["p"]["l"]}}
        else:
            return None
    return None


def _data_min_len(F, pair, chars=False):
    """Minimum length, over every shipped language / locale table, of the string or list stored in field `pair`."""
    from tables import load_tables
    T = load_tables(F)
    adt, f = pair
    vals = []

    def walk(x, tyname):
        if isinstance(x, dict):
            for k, v in x.items():
                if k == f and tyname == adt.rsplit("::", 1)[-1]:
                    vals.append(v)
                walk(v, DATA_TYPES.get((tyname, k), ""))
        elif isinstance(x, list):
            for v in x:
                walk(v, tyname)
    for lang in T["languages"].values():
        walk(lang, "Language")
    for loc in T["locales"].values():
        walk(loc, "Locale")
    if not vals:
        return None
    return min(len(v) for v in vals)


# field -> type name of the nested table structs (only what the data discharges need)
DATA_TYPES = {("Language", "errors"): "Errors", ("Language", "booleans"): "Booleans", ("Language", "functions"): "Functions",
              ("Locale", "dates"): "Dates", ("Locale", "numbers"): "NumbersProperties", ("NumbersProperties", "symbols"): "NumbersSymbols"}
DATA_ADTS = ("ironcalc_base::language::Errors", "ironcalc_base::locale::Dates")


def _data_discharge(F, b, cls, d):
    """Sites whose operand is a length taken from the generated language / locale tables."""
    if cls == "usub" and const_int(d["b"]) is not None:
        pair = _field_of_operand(b, d["a"])
        if pair and pair[0] in DATA_ADTS:
            m = _data_min_len(F, pair)
            if m is not None and m >= const_int(d["b"]):
                return "data: %s.%s has at least %d characters in every shipped table" % (pair[0].rsplit("::", 1)[-1], pair[1], m)
    if cls == "unwrap":
        r = b.trace(d["recv"])
        if r["kind"] == "call":
            q = b.callee_q(r["t"]) or ""
            if q.endswith(("locale::get_locale", "language::get_language")) and r["t"]["args"]:
                sv = _const_str(b, r["t"]["args"][0])
                from tables import load_tables
                T = load_tables(F)
                tab = T["locales"] if q.endswith("get_locale") else T["languages"]
                if sv is not None and sv in tab:
                    return "data: id %r is a key of the shipped table" % sv
    return None


def discharge(F, b, A, bi, cls, d):
    """Returns the name of the argument that discharges the site (in every partition of the abstract state), else None."""
    dd = _data_discharge(F, b, cls, d)
    if dd:
        return dd
    outs = A.states_at(bi)
    if outs is None or all(z.bottom for _, z in outs):
        return "unreachable in the abstract semantics"
    how = None
    for key, z in outs:
        if z.bottom:
            continue
        how = _discharge_in(F, b, A, z, bi, cls, d)
        if how is None:
            return None
    return how


def _discharge_in(F, b, A, z, bi, cls, d):
    if cls == "bounds":
        ix, ln = A.lin(z, d["index"], "usize"), A.lin(z, d["len"], "usize")
        if _le(z, bi, ix, ln, -1):
            return "zone: index < len"
        return None
    if cls == "index":
        base, ix = d["base"], d["index"]
        if "HashMap" in d["q"] or "BTreeMap" in d["q"]:
            return None
        lt = A.len_term(base)
        if lt is None:
            return None
        A._touch(z, lt)
        for pr in A.info[lt]["pairs"]:
            if pr and pr[0] in DATA_ADTS:
                m = _data_min_len(F, pr)
                if m:
                    z = z.copy()
                    z.add("0", lt, -m)      # every shipped table has at least m entries in this list
        ln = (lt, 0)
        idx_ty = _op_ty(b, ix) or ""
        t0 = (d.get("targs") or [""])[0]
        is_str = t0 in ("str", "std::string::String", "&str", "&std::string::String") or "for str>" in d["q"] or "string::String as" in d["q"] or d["q"].startswith("core::str::")
        if "Range" in idx_ty:
            p = op_place(ix)
            if p is None or place_proj(p):
                return None
            l = p["l"]
            st = ("m:_%d.start" % l, 0) if ("m:_%d.start" % l) in A.info else None
            en = ("m:_%d.end" % l, 0) if ("m:_%d.end" % l) in A.info else None
            ok = False
            if idx_ty.startswith("std::ops::RangeFull"):
                ok = True
            elif idx_ty.startswith("std::ops::RangeFrom"):
                ok = _le(z, bi, st, ln, 0)
            elif idx_ty.startswith("std::ops::RangeTo<"):
                ok = _le(z, bi, en, ln, 0)
            elif idx_ty.startswith("std::ops::Range<"):
                ok = _le(z, bi, st, en, 0) and _le(z, bi, en, ln, 0)
            if not ok:
                return None
            if is_str:
                if _ascii_guarded(b, bi, base):
                    return "zone: start <= end <= len; the string passed is_ascii() (every byte is a boundary)"
                return None if not _boundaries_ok(F, b, A, z, bi, st, en, lt) else "zone: start <= end <= len; ends on char boundaries"
            return "zone: start <= end <= len"
        if is_str:
            return None
        if _le(z, bi, A.lin(z, ix, "usize"), ln, -1):
            return "zone: index < len"
        return None
    if cls == "usub":
        a, c = A.lin(z, d["a"], d["ty"]), A.lin(z, d["b"], d["ty"])
        if _le(z, bi, c, a, 0):
            return "zone: subtrahend <= minuend"
        return None
    if cls == "divzero":
        c = const_int(d["divisor"])
        if d.get("unknown"):
            return None
        if c is not None and c != 0:
            return "constant non-zero divisor"
        ty = _op_ty(b, d["divisor"])
        dv = A.lin(z, d["divisor"], ty)
        if dv and (_le(z, bi, ("0", 0), dv, -1) or _le(z, bi, dv, ("0", 0), -1)):
            return "zone: divisor != 0"
        return None
    if cls == "nonzero":
        c = const_int(d["arg"])
        if c is not None:
            return "constant non-zero argument" if c > 0 else None
        v = A.lin(z, d["arg"], "usize")
        return "zone: argument >= 1" if _le(z, bi, ("0", 0), v, -1) else None
    if cls == "unwrap":
        g = _guarded_unwrap(b, bi, d)
        if g:
            return g
        r = b.trace(d["recv"])
        if r["kind"] == "rv" and r["rv"]["k"] == "agg" and r["rv"].get("variant") in ("Some", "Ok"):
            return "unwrap of a value just built as Some/Ok"
        if r["kind"] == "call":
            q = b.callee_q(r["t"]) or ""
            args_const = all(a.get("k") is not None or (b.trace(a)["kind"] == "const") for a in r["t"]["args"])
            if args_const and q.rsplit("::", 1)[-1] in ("from_ymd_opt", "from_hms_opt", "new", "from_u32", "from_digit", "from_timestamp", "with_ymd_and_hms"):
                return "constructor with constant arguments (%s)" % q.rsplit("::", 1)[-1]
        return None
    if cls == "mutator":
        fn, args = d["fn"], d["args"]
        if fn == "insert" and "string::String" in d["q"] and len(args) == 3 and const_int(args[1]) == 0:
            return "String::insert at byte 0 (always a boundary, always <= len)"
        lt = A.len_term(args[0]) if args else None
        if lt is None:
            return None
        A._touch(z, lt)
        ln = (lt, 0)
        if fn in ("remove", "swap_remove") and len(args) == 2 and "string::String" not in d["q"]:
            return "zone: index < len" if _le(z, bi, A.lin(z, args[1], "usize"), ln, -1) else None
        if fn in ("insert", "split_off", "split_at", "split_at_mut") and len(args) >= 2 and "string::String" not in d["q"] and "str::" not in d["q"]:
            return "zone: index <= len" if _le(z, bi, A.lin(z, args[1], "usize"), ln, 0) else None
        if fn == "swap" and len(args) == 3:
            ok = _le(z, bi, A.lin(z, args[1], "usize"), ln, -1) and _le(z, bi, A.lin(z, args[2], "usize"), ln, -1)
            return "zone: both indices < len" if ok else None
        return None
    return None


def _bool_edge_dominates(b, call_bi, want_true, site_bi):
    """The bool returned by the call ending block call_bi is switched on (directly, or through one `Not`) and the edge
    on which it is `want_true` dominates site_bi."""
    t = b.blocks[call_bi]["t"]
    if place_proj(t["dest"]) or t.get("to") is None:
        return False
    dl = t["dest"]["l"]
    nb = t["to"]
    tt = b.blocks[nb]["t"]
    if tt["k"] != "switch" or tt["ty"] != "bool":
        return False
    neg = False
    p = op_place(tt["o"])
    if p is None:
        return False
    l = p["l"]
    for st in reversed(b.blocks[nb]["s"]):
        if not place_proj(st["p"]) and st["p"]["l"] == l:
            rv = st["rv"]
            if rv["k"] == "un" and rv["op"] == "Not":
                neg = not neg
                l = op_place(rv["a"])["l"]
            elif rv["k"] == "use" and op_place(rv["o"]) is not None:
                l = op_place(rv["o"])["l"]
            else:
                return False
    if l != dl:
        return False
    zero = [x for v, x in tt["targets"] if v == "0"]
    f_t, t_t = (zero[0] if zero else None), tt["otherwise"]
    tgt = t_t if (want_true != neg) else f_t
    return tgt is not None and tgt != (f_t if tgt == t_t else t_t) and len(b.preds(tgt)) == 1 and b.dominates(tgt, site_bi)


def _ascii_guarded(b, bi, base_op):
    """the str being sliced was tested with is_ascii() and the true edge of that test dominates the site"""
    who = _atom(b, base_op)
    for cbi, t in b.calls():
        if (b.callee_q(t) or "").endswith("::is_ascii") and t["args"] and _atom(b, t["args"][0]) == who and who != "expr":
            if _bool_edge_dominates(b, cbi, True, bi):
                return True
    return False


def _guarded_unwrap(b, bi, d):
    """unwrap()/expect() of
       * `node.attribute(K)` dominated by the true edge of `node.has_attribute(K)` (same node, same literal K);
       * a local Option/Result dominated by the false edge of `is_none()/is_err()` or the true edge of
         `is_some()/is_ok()` on that same local, which is not reassigned in between."""
    r = b.trace(d["recv"])
    if r["kind"] == "call":
        q = b.callee_q(r["t"]) or ""
        if q.endswith("Node::attribute") and len(r["t"]["args"]) == 2:
            key = _const_str(b, r["t"]["args"][1])
            node = _atom(b, r["t"]["args"][0])
            if key is not None:
                for cbi, t in b.calls():
                    cq = b.callee_q(t) or ""
                    if cq.endswith("Node::has_attribute") and len(t["args"]) == 2 and _const_str(b, t["args"][1]) == key \
                            and _atom(b, t["args"][0]) == node and _bool_edge_dominates(b, cbi, True, bi):
                        return "dominated by has_attribute(%r) on the same node" % key
    # a local moved into unwrap
    p = op_place(d["recv"])
    if p is None or place_proj(p):
        return None
    l = p["l"]
    rv = b.def_rvalue(l)
    if rv is not None and rv["k"] == "use" and op_place(rv["o"]) is not None and not place_proj(op_place(rv["o"])) and len(b.defs().get(l, [])) == 1:
        l = op_place(rv["o"])["l"]
    if len(b.defs().get(l, [])) != 1:
        return None
    for cbi, t in b.calls():
        cq = (b.callee_q(t) or "")
        last = cq.rsplit("::", 1)[-1]
        if last in ("is_err", "is_none", "is_ok", "is_some") and len(t["args"]) == 1:
            rt = b.ref_target(t["args"][0])
            if rt is not None and not place_proj(rt) and rt["l"] == l:
                if _bool_edge_dominates(b, cbi, last in ("is_ok", "is_some"), bi):
                    return "dominated by the %s() test of the same value" % last
    return None


def _boundaries_ok(F, b, A, z, bi, st, en, lt):
    """A str slice end is a char boundary when it is provably 0 or len(s); anything else is left to triage."""
    def edge(v):
        if v is None:
            return True
        if _le(z, bi, v, ("0", 0), 0):
            return True
        if _le(z, bi, (lt, 0), v, 0) and _le(z, bi, v, (lt, 0), 0):
            return True
        pf = "pfx:" + A.info[lt]["s"]
        if pf in A.info and _le(z, bi, (pf, 0), v, 0) and _le(z, bi, v, (pf, 0), 0):
            return True     # the length of a literal prefix that `starts_with` found at the front of this string
        # an ASCII byte was just seen at this offset or right before it: bytes[v] == b'_' or bytes[v - 1] == b'x'
        for k in ascii_tests:
            kv = (k, 0)
            if (_le(z, bi, kv, v, 0) and _le(z, bi, v, kv, 0)) or (_le(z, bi, kv, v, -1) and _le(z, bi, v, kv, 1)):
                return True
        return False
    ascii_tests = _ascii_byte_tests(b, A, bi, lt)
    return edge(st) and edge(en)


def _ascii_byte_tests(b, A, bi, lt):
    """zone terms k such that `bytes[k] == <ASCII literal>` was tested on an edge dominating block bi, where `bytes` is
    as_bytes() of the string whose length term is lt"""
    out = []
    for sb, blk in enumerate(b.blocks):
        t = blk["t"]
        if t["k"] != "switch" or t["ty"] != "bool" or t.get("cleanup"):
            continue
        c = A._cmp_of(sb, t["o"])
        if c is None or c[0] not in ("Eq",):
            continue
        for x, y in ((c[1], c[2]), (c[2], c[1])):
            cv = const_int(y)
            if cv is None:
                k = y.get("k")
                d = str(k.get("d")) if k else ""
                if d.startswith("b'") or d.endswith("_u8"):
                    try:
                        cv = int(d.split("_")[0])
                    except ValueError:
                        cv = None
            if cv is None or not (0 <= cv < 128):
                continue
            px = op_place(x)
            if px is None or place_proj(px):
                continue
            rv = None
            for st in reversed(blk["s"]):
                if not place_proj(st["p"]) and st["p"]["l"] == px["l"]:
                    rv = st["rv"]
                    break
            if rv is None or rv["k"] != "use":
                continue
            src = op_place(rv["o"])
            if src is None:
                continue
            pj = place_proj(src)
            if not pj or pj[-1][0] != "i":
                continue
            # the indexed slice must be the bytes of the same string
            base_local = src["l"]
            bt = b.trace({"c": {"l": base_local}})
            same = False
            if bt["kind"] == "call" and (b.callee_q(bt["t"]) or "").endswith("as_bytes") and bt["t"]["args"]:
                l2 = A.len_term(bt["t"]["args"][0])
                same = l2 == lt
            else:
                # a `&[u8]` parameter that every caller fills with as_bytes() of the string parameter (zones.param_views)
                rb = b.resolve_place({"l": base_local}, through_named=True)["l"] if not (1 <= base_local <= b.nargs) else base_local
                if rb in getattr(A, "param_views", {}):
                    l2 = A.len_term({"c": {"l": A.param_views[rb]}})
                    same = l2 == lt
            if not same:
                continue
            edge_t = t["otherwise"]
            if len(b.preds(edge_t)) == 1 and b.dominates(edge_t, bi):
                out.append("_%d" % pj[-1][1])
    return out


# ------------------------------------------------------------------------------------------------ rule
C11_ENTRIES = ["parser::Parser::parse", "parser::Parser::parse_at_cursor", "lexer::util::get_tokens", "lexer::util::get_tokens_with_locale",
               "lexer::util::cycle_reference", "formatter::format::format_number", "formatter::format::parse_formatted_number",
               "model::Model::set_user_input", "model::Model::formula_completion", "model::Model::cycle_reference"]
C11_STOPS = ["model::Model::evaluate"]

_LEXER_INV = ("needs the formula lexer's invariant position <= len(chars) at entry; every writer of `position` keeps it (it only "
              "advances over characters it has read or that starts_with matched), but 10 of those steps are beyond the zone "
              "domain, so the invariant is assumed here, not proved")
_DIGITS = ("index computed from ParsePart.digit_count / Digit.index, which formatter::parser assigns as a running count of the "
           "digit tokens of the same part (index < digit_count); that cross-module relation is not derived here. Triage: "
           "3,000,000 random format codes x 26 values x 6 locales through format_number raised no panic")
_PF = ("parsed_formulas has one entry per worksheet (pushed/removed together with workbook.worksheets); the sheet index was "
       "validated against workbook.worksheets a few lines earlier; the equality of the two lengths is backed structurally by rule "
       "LEN-PAIR (every resize of worksheets reaches a rebuild of parsed_formulas; parse_formulas pushes once per worksheet)")
C25_ENTRIES = ["import::load_from_xlsx_bytes", "import::load_from_xlsx", "import::load_from_icalc", "model::Model::from_workbook", "model::Model::from_bytes"]
C25_STOPS = ["model::Model::evaluate", "model::Model::evaluate_cell", "model::Model::evaluate_node_in_context", "model::Model::evaluate_conditional_formatting"]
_ESC = ("byte offsets delimited by ASCII bytes just tested (`_`, `x` before, `_` after) or advanced by 7 ASCII bytes / "
        "len_utf8() of the char just read: always char boundaries; that string-content argument is outside the zone domain")
C25_EXCEPTIONS = {
    ("import::styles::parse_indexed_colors::{closure#3}", "index:(*raw)[..]"):
        "`raw[2..]` in a match arm whose guard is `raw.len() == 8 && raw.is_ascii()` on the same attribute value; guard and arm bind "
        "`raw` separately (by reference / by copy), which the term naming of the zone engine does not unify",
    ("import::shared_strings::decode_xlsx_escapes", "index:(*s)[..]#2"): _ESC,
    ("import::conditional_formatting::load_conditional_formatting", "usub:iter - priority"):
        "`max_p + 1 - cf.priority` where max_p is the maximum of cf.priority over the very list being iterated",
    ("import::worksheets::load_sheet", "mutator:insert"):
        "Vec::insert at an index previously obtained as `shared_formulas.len() - 1` after a push or as a position in the same vector, which only grows: index <= len",
    ("colors::get_indexed_color", "bounds:[index] of expr"):
        "guards only `index > 63`; every caller on the import path (import::util::get_color_indexed) returns early for a negative index before calling it",
    ("expressions::lexer::Lexer::consume_column_reference", "index:(*self).chars[..]#2"): _LEXER_INV,
    ("expressions::parser::static_analysis::args_signature_let::{closure#0}", "usub:arg_count - 1"):
        "`arg_count - 1` inside the closure mapped over 0..arg_count: it only runs when arg_count >= 1, and is created after the `arg_count < 3` early return",
    ("language::get_languages::{closure#0}", "unwrap:expect(decode)"): "decodes the embedded language.bin; C34 (DERIVE-CLOSURE, BYTES-SHAPE, source_matches_bin) shows the bytes are the encoding of this type",
    ("locale::get_locales::{closure#0}", "unwrap:expect(decode)"): "decodes the embedded locales.bin; same argument as language.bin (C34)",
}
_TOK = ("offsets are MarkedToken.start/end produced by get_tokens_with_locale for this very text (character positions the "
        "lexer reached, <= its length) shifted by the leading '='; that cross-function relation is not derived here")
_CTT = ("cycle_token_text scans its own slice: `bang` is a position found by iter().skip(i).position(..) so i + bang + 1 <= n, "
        "and part_start <= i <= n in the endpoint loop; the Iterator::position relation is outside the zone domain")
C11_EXCEPTIONS = {
    ("expressions::lexer::Lexer::consume_column_reference", "index:(*self).chars[..]#2"): _LEXER_INV,
    ("expressions::lexer::util::cycle_reference", "index:(*body)[..]"): _TOK,
    ("expressions::lexer::util::cycle_reference", "index:(*body)[..]#2"): _TOK,
    ("expressions::lexer::util::cycle_reference", "index:(*body)[..]#3"): _TOK,
    ("formatter::format::format_number", "index:int_part[..]"): _DIGITS,
    ("formatter::format::format_number", "index:int_part[..]#2"): _DIGITS,
    ("formatter::format::format_number", "index:exponent_part[..]"): _DIGITS,
    ("formatter::format::format_number", "index:exponent_part[..]#2"): _DIGITS,
    ("formatter::format::get_fract_part", "usub:precision - 1"): "length of `format!(\"{:.N$}\", x.fract())` collected into chars: a formatted float has at least one digit",
    ("language::get_languages::{closure#0}", "unwrap:expect(decode)"): "decodes the embedded language.bin; C34 (DERIVE-CLOSURE, BYTES-SHAPE, source_matches_bin) shows the bytes are the encoding of this type",
    ("locale::get_locales::{closure#0}", "unwrap:expect(decode)"): "decodes the embedded locales.bin; same argument as language.bin (C34)",
    ("model::Model::set_cell_with_formula", "index:(*self).parsed_formulas[..]"): _PF,
    ("model::Model::set_user_input", "index:(*self).parsed_formulas[..]"): _PF,
    ("model::Model::set_user_input", "index:parsed_formulas[..]"): "index returned by set_cell_with_formula: the position of the entry it just found or pushed in the same vector",
}


_ENGINES = {}


# The one struct invariant that is assumed, never proved (its ten writers are not inductive in the zone domain, §0.6):
# Lexer.position <= len(Lexer.chars).  It is used only to *narrow* the exceptions that cite it: such a site passes when the
# zone engine discharges it with the invariant assumed at entry and after every call -- so the site's own arithmetic (how far
# a local scanner may run past the position) is still checked, and only the invariant itself is taken on trust.
ASSUMED_INVARIANTS = {LEXER: [("position", "m", "chars", "len", 0)]}
_ENGINES_INV = {}


def engine_inv(F, P):
    e = _ENGINES_INV.get(F.dir)
    if e is None:
        pre = {}
        for suffix, cons in PRECONDITIONS.items():
            for path in F.find(suffix):
                pre[path] = cons
        e = _ENGINES_INV[F.dir] = zones.Engine(F, P, LEN_ALIASES, ASSUMED_INVARIANTS, preconditions=pre, postconditions={})
    return e


def engine(F, P):
    e = _ENGINES.get(F.dir)
    if e is None:
        pre = {}
        for suffix, cons in PRECONDITIONS.items():
            for path in F.find(suffix):
                pre[path] = cons
        # postconditions `len(returned Vec) >= argument i` (zones.Engine.post, rule post_rule) were used to triage
        # add_implicit_intersection: they exposed the fixed-size signatures (fix 12a1e9e); nothing needs them now
        post = {}
        e = _ENGINES[F.dir] = zones.Engine(F, P, LEN_ALIASES, INVARIANTS, preconditions=pre, postconditions=post)
    return e


def panic_rule(ck, F, rule, entries, stops, excepts, skip_dirs=("/functions/",), crates=None, floor_sites=0, scope_filter=None):
    P = Program(F)
    E = engine(F, P)
    reach, missing = reachable_bodies(F, P, entries, stops, skip_dirs)
    for m in missing:
        ck.anchor("entry point %s" % m)
    n = 0
    undischarged = []
    pending = []
    per_class = {}
    used = set()
    def exc_ok(p, b, bi, cls, d, reason):
        # an exception that cites the lexer invariant excuses the site only if the site is discharged under that invariant
        if reason is not _LEXER_INV:
            return True
        A2 = engine_inv(F, P).analysis(p)
        return (not A2.gave_up) and bool(discharge(F, b, A2, bi, cls, d))

    for p in sorted(reach):
        if crates and F.heads[p]["crate"] not in crates:
            continue
        b = F.body(p)
        sites = panic_sites(F, b)
        if not sites:
            continue
        A = E.analysis(p)
        qn = b.qname.split("::", 1)[-1]
        ords = {}
        for bi, cls, d in sites:
            n += 1
            per_class[cls] = per_class.get(cls, 0) + 1
            desc = _describe(b, cls, d)
            ords[(cls, desc)] = ords.get((cls, desc), 0) + 1
            inst = "%s:%s" % (cls, desc) + ("#%d" % ords[(cls, desc)] if ords[(cls, desc)] > 1 else "")
            key = "%s|%s" % (qn, inst)
            how = None if A.gave_up else discharge(F, b, A, bi, cls, d)
            f, l = b.loc(bi)
            if how:
                ck.ob(rule, key, True, sample={"site": key, "discharged_by": how})
                continue
            if (qn, inst) in excepts and exc_ok(p, b, bi, cls, d, excepts[(qn, inst)]):
                used.add((qn, inst))
                ck.ob(rule, key, True, "ASSUMED: " + excepts[(qn, inst)], nontrivial=False)
                continue
            pending.append((qn, cls, inst, key, f, l, desc, (p, b, bi, cls, d)))
    # second pass: an excepted site whose operands were renamed keeps its exception -- when, for one function and one
    # site class, the sites still open and the table entries not yet used are equally many, they are the same sites
    open_by = {}
    for it in pending:
        open_by.setdefault((it[0], it[1]), []).append(it)
    free_by = {}
    for k in sorted(set(excepts) - used):
        free_by.setdefault((k[0], k[1].split(":", 1)[0]), []).append(k)
    for grp, items in sorted(open_by.items()):
        free = free_by.get(grp, [])
        if free and len(free) == len(items) and all(exc_ok(*it[7], excepts[k]) for it, k in zip(items, free)):
            for it, k in zip(items, free):
                used.add(k)
                ck.ob(rule, it[3], True, "ASSUMED (entry %r, operands renamed): %s" % (k[1], excepts[k]), nontrivial=False)
            continue
        for qn, cls, inst, key, f, l, desc, _site in items:
            # the code of an excepted site was moved into another function of the same file (a closure body turned into
            # a named helper): same class, same descriptor, and the entry's own function no longer has the site
            moved = [k for k in sorted(set(excepts) - used)
                     if k[1].split("#")[0] == inst.split("#")[0] and _same_file(F, k[0], _site[0]) and exc_ok(*_site, excepts[k])]
            if len(moved) == 1:
                used.add(moved[0])
                ck.ob(rule, key, True, "ASSUMED (entry %s|%s, code moved within the file): %s" % (moved[0][0], moved[0][1], excepts[moved[0]]), nontrivial=False)
                continue
            undischarged.append((key, f, l, cls))
            ck.ob(rule, key, False, "potential panic (%s) reachable from a text/import entry point and not discharged: %s" % (cls, desc), f, l)
    stale = [k for k in sorted(set(excepts) - used) if scope_filter is None or scope_filter(k)]
    # an entry whose site is gone (removed, or now proved) excuses nothing: reported in the evidence, not a violation
    ck.note("stale_exceptions", ["%s|%s" % k for k in stale])
    ck.note("panic_sites", n)
    ck.note("per_class", per_class)
    ck.note("reachable_bodies", len(reach))
    return undischarged


def _same_file(F, qn, path):
    """the function named qn (as in the exception table) is defined in the file of body `path`"""
    f = F.heads[path]["file"]
    for p in F.find(qn.split("::{closure")[0].split("::{promoted")[0]):
        if F.heads[p]["file"] == f:
            return True
    # the entry's function may be gone entirely (its body was the thing moved): compare module paths
    return qn.rsplit("::", 1)[0].split("::{closure")[0].rsplit("::", 1)[0] in F.qname_of(path)


def _atom(b, o):
    """one short, stable name for an operand: a field, parameter or callee it comes from"""
    best = None
    for a in sorted(sources(b, o), key=str):
        if a[0] in ("field", "param"):
            return str(a[-1])
        if a[0] == "call" and best is None:
            best = a[1].rsplit("::", 1)[-1]
    return best or "expr"


def _describe(b, cls, d):
    try:
        if cls == "index":
            bp = op_place(d["base"])
            base = place_str(b.resolve_place(bp), b) if bp else "?"
            if base.startswith("_") or base.startswith("(*_"):
                base = _atom(b, d["base"])
            return "%s[..]" % base
        if cls == "usub":
            return "%s - %s" % (_atom(b, d["a"]), _atom(b, d["b"]) if const_int(d["b"]) is None else const_int(d["b"]))
        if cls == "unwrap":
            return "%s(%s)" % (d["what"], _atom(b, d["recv"]))
        if cls == "bounds":
            return "[%s] of %s" % (_atom(b, d["index"]), _atom(b, d["len"]))
        if cls == "mutator":
            return d["fn"]
        if cls == "explicit":
            return d["mac"]
        if cls == "divzero":
            return "/ %s" % _atom(b, d["divisor"])
        if cls == "nonzero":
            return "%s(%s)" % (d["fn"], _atom(b, d["arg"]))
    except Exception:   # descriptive only
        return "?"
    return cls


def pre_rule(ck, F, rule="PRE"):
    """Every assumed entry condition holds at every call site of its (private) callee."""
    P = Program(F)
    E = engine(F, P)
    for callee, cons in sorted(E.pre.items()):
        h = F.heads[callee]
        qn = F.qname_of(callee).split("::", 1)[-1]
        ck.ob(rule, "%s|private" % qn, h.get("vis") not in ("pub",), "%s is public: its entry condition cannot be checked at unknown call sites" % qn, h["file"], h["line"])
        callers = P.callers_of([callee])
        ck.ob(rule, "%s|has-callers" % qn, bool(callers), "%s has no call site" % qn, h["file"], h["line"])
        for c in sorted(callers):
            A = E.analysis(c)
            cq = F.qname_of(c).split("::", 1)[-1]
            bad = [x for x in A.pre_failures if x[1] == callee]
            n = sum(1 for bi, t in A.b.calls() if A.b.callee(t) == callee)
            ck.ob(rule, "%s|call-site in %s" % (qn, cq), not bad and not A.gave_up and n > 0,
                  "%s calls %s where its assumed entry condition %s is not established" % (cq, qn, [_spec_str(x[2]) for x in bad][:2]),
                  A.b.file, A.b.loc(bad[0][0])[1] if bad else A.b.line, sample={"callee": qn, "caller": cq, "call_sites": n})


def post_rule(ck, F, rule="POST"):
    """len(returned Vec) >= arg_count at every return of the argument-signature functions (assumed at their call sites)."""
    P = Program(F)
    E = engine(F, P)
    for path in sorted(E.post):
        A = E.analysis(path)
        qn = F.qname_of(path).split("::", 1)[-1]
        ck.ob(rule, "%s|len(result) >= arg_count" % qn, not A.post_failures and not A.gave_up,
              "%s can return a signature vector shorter than its arg_count argument" % qn, A.b.file,
              A.b.loc(A.post_failures[0][0])[1] if A.post_failures else A.b.line, sample={"fn": qn})


def _spec_str(con):
    def s(x):
        if x is None:
            return "0"
        return "%s(arg%d.%s)" % (x[0], x[1], ".".join(str(e[2]) for e in x[2]))
    return "%s - %s <= %d" % (s(con[0]), s(con[1]), con[2])


def range_expansion_capped(ck, F, rule="LOOP-BOUND"):
    """'runs without bound': wherever the importer expands a cell range read from the file (the result of parse_range)
    into one map entry per cell, a comparison of the cell count with a constant cap dominates the loops -- as
    load_hyperlinks does with MAX_HYPERLINK_RANGE_CELLS.  A `ref="A1:XFD1048576"` otherwise costs 1.7e10 insertions."""
    n = 0
    for path in sorted(F.body_paths()):
        h = F.heads[path]
        if h["crate"] != "ironcalc" or "/import/" not in h["file"]:
            continue
        cs = F.calls.get(path, [])
        if not any(c.endswith("parse_range") for c in cs):
            continue
        b = F.body(path)
        # loop heads driven by an iterator over a range whose bounds come from parse_range
        loops = []
        for bi, t in b.calls():
            q = b.callee_q(t) or ""
            if q.rsplit("::", 1)[-1] != "next" or "range" not in q.lower():
                continue
            sr = sources(b, t["args"][0]) if t["args"] else set()
            if any(x[0] == "call" and x[1].endswith("parse_range") for x in sr):
                loops.append(bi)
        if not loops:
            continue
        # only loops that insert into a map / push into a vector per cell
        for lb in loops:
            body_blocks = b.reachable_from(lb)
            grows = [cb for cb, ct in b.calls() if cb in body_blocks and (b.callee_q(ct) or "").rsplit("::", 1)[-1] in ("insert", "push") and lb in b.reachable_from(cb)]
            if not grows:
                continue
            n += 1
            capped = False
            for d in b.dominators_of(lb):
                tt = b.term(d)
                if tt["k"] == "switch" and tt["ty"] == "bool":
                    src = b.trace(tt["o"])
                    if src["kind"] == "rv" and src["rv"]["k"] == "bin" and src["rv"]["op"] in ("Gt", "Ge", "Lt", "Le"):
                        sa, sb_ = sources(b, src["rv"]["a"]), sources(b, src["rv"]["b"])
                        both = sa | sb_
                        if any(x[0] == "call" and x[1].endswith("parse_range") for x in both) and ("arith", "Mul") in both and \
                                (src["rv"]["a"].get("k") is not None or src["rv"]["b"].get("k") is not None):
                            capped = True
            f, l = b.loc(lb)
            qn = b.qname.split("::", 1)[-1]
            k = sum(1 for x in loops if x <= lb)
            ck.ob(rule, "%s|range-loop#%d capped" % (qn, k), capped,
                  "%s expands a range taken from the file into one entry per cell with no cap on the number of cells: a `ref` spanning the whole "
                  "sheet makes the import run (and allocate) without practical bound" % qn, f, l, sample={"fn": qn})
    ck.note("range_expansion_loops", n)


def len_pair(ck, F, rule="LEN-PAIR"):
    """Backs the ASSUMED sites that index Model.parsed_formulas with a sheet index validated against
    Workbook.worksheets: the two vectors have the same length because (a) every function that resizes
    `workbook.worksheets` (push / insert / remove) reaches a rebuild of the parsed structures
    (reset_parsed_structures / parse_formulas) on every path from the resize to a normal return, and (b) parse_formulas
    starts from an empty vector and pushes exactly once per iteration of its loop over the worksheets."""
    P = Program(F)
    WB = ("ironcalc_base::types::Workbook", "worksheets")
    rebuild = set(F.find("Model::reset_parsed_structures")) | set(F.find("Model::parse_formulas"))
    ck.ob(rule, "anchors", bool(rebuild), "reset_parsed_structures / parse_formulas not found")
    n = 0
    for path in sorted(F.body_paths()):
        h = F.heads[path]
        if h["crate"] != "ironcalc_base" or "/test" in h["file"]:
            continue
        raw = F._raw.get(path, "")
        if '"worksheets"' not in raw:
            continue
        b = F.body(path)
        resizes = []
        for bi, t in b.calls():
            last = (b.callee_q(t) or "").rsplit("::", 1)[-1]
            if last not in ("push", "insert", "remove", "swap_remove", "pop", "truncate", "clear", "drain", "retain") or not t["args"]:
                continue
            if "vec::Vec" not in (b.callee_q(t) or ""):
                continue
            rt = b.ref_target(t["args"][0])
            if rt is None:
                continue
            fs = [e for e in place_proj(rt) if e[0] == "f"]
            if fs and (fs[-1][3], fs[-1][2]) == WB and place_proj(rt)[-1] is fs[-1]:
                resizes.append((bi, last))
        for bi, last in resizes:
            n += 1
            rebuilds = {cb for cb, ct in b.calls() if b.callee(ct) in F.heads and (b.callee(ct) in rebuild or P.reaches(b.callee(ct), rebuild))}
            # a return reachable from the resize without passing a rebuild?
            seen, st, leak = set(), list(b.succs(bi)), None
            rets = set(b.return_blocks())
            while st:
                x = st.pop()
                if x in seen or x in rebuilds:
                    continue
                seen.add(x)
                if x in rets:
                    leak = x
                    break
                st.extend(b.succs(x))
            f, l = b.loc(bi)
            qn = b.qname.split("::", 1)[-1]
            ck.ob(rule, "%s|%s worksheets -> rebuild" % (qn, last), leak is None,
                  "%s changes the number of worksheets (%s) and can return without rebuilding parsed_formulas: the two vectors get "
                  "different lengths and `parsed_formulas[sheet]` panics for a valid sheet" % (qn, last), f, l, sample={"fn": qn, "op": last})
    # (b) shape of parse_formulas
    for p in sorted(F.find("Model::parse_formulas")):
        b = F.body(p)
        PF = ("ironcalc_base::model::Model", "parsed_formulas")
        pushes = []
        for bi, t in b.calls():
            if (b.callee_q(t) or "").endswith("Vec::push") and t["args"]:
                rt = b.ref_target(t["args"][0])
                fs = [e for e in place_proj(rt) if e[0] == "f"] if rt is not None else []
                if fs and (fs[-1][3], fs[-1][2]) == PF and place_proj(rt)[-1] is fs[-1]:
                    pushes.append(bi)
        from mir import loop_header_of
        heads = {loop_header_of(b, x) for x in pushes}
        ck.ob(rule, "parse_formulas|one push per worksheet", len(pushes) == 1 and None not in heads,
              "parse_formulas: expected exactly one push onto parsed_formulas, inside the loop over the worksheets (found %d)" % len(pushes), b.file, b.line)
    ck.ob(rule, "resize-sites", n >= 3, "expected at least 3 resizes of workbook.worksheets, found %d" % n)
