"""Rule runner: obligations, reports, floors (fail closed), known findings, evidence."""
import json
import os
import sys
import time

VERIF = os.path.dirname(os.path.dirname(os.path.abspath(__file__)))
KNOWN = os.path.join(VERIF, "known_findings.json")


class Abort(Exception):
    pass


class Check:
    def __init__(self, pid, tier="quick"):
        self.pid = pid
        self.tier = tier
        self.t0 = time.time()
        self.rules = {}        # rule -> {'text':..., 'n':0, 'nontrivial':set(), 'fail':[], 'floor':0}
        self.reports = []      # dicts
        self.samples = []
        self.assumptions = []
        self.trusted = ["rustc nightly front end + MIR construction (icfacts driver reads tcx.optimized_mir at "
                        "mir-opt-level=0)", "icq Python query library (CFG, dominators, provenance)"]
        self.anchor_errors = []
        self.notes = {}
        self.explanation = ""
        self.exhaustive = {}

    # ------------------------------------------------------------------ declaration
    def rule(self, name, text, floor=0, exhaustive=False):
        self.rules[name] = {"text": text, "n": 0, "keys": set(), "fail": 0, "floor": floor}
        if exhaustive:
            self.exhaustive[name] = True
        return name

    def assume(self, text):
        if text not in self.assumptions:
            self.assumptions.append(text)

    def trust(self, text):
        if text not in self.trusted:
            self.trusted.append(text)

    def note(self, k, v):
        self.notes[k] = v

    # ------------------------------------------------------------------ obligations
    def ob(self, rule, key, ok, msg="", file="", line=0, sample=None, nontrivial=True):
        """One obligation instance. key identifies the construct (no line numbers)."""
        r = self.rules[rule]
        r["n"] += 1
        if nontrivial:
            r["keys"].add(key)
        if sample is not None and len([s for s in self.samples if s.get("rule") == rule]) < 4:
            self.samples.append({"rule": rule, "instance": key, "detail": sample, "holds": bool(ok)})
        elif len([s for s in self.samples if s.get("rule") == rule]) < 2:
            self.samples.append({"rule": rule, "instance": key, "detail": msg or "holds", "holds": bool(ok)})
        if not ok and any(w in msg for w in ("anchor lost", " not found", "not recognised")):
            # the construct the rule is about is gone or renamed: fail closed (exit 2), do not claim a violation
            self.anchor_errors.append("%s|%s: %s" % (rule, key, msg))
            return
        if not ok:
            r["fail"] += 1
            self.reports.append({"rule": rule, "key": "%s|%s" % (rule, key), "msg": msg,
                                 "file": file, "line": line})
        return ok

    def anchor(self, what, ok=False):
        if not ok:
            self.anchor_errors.append(what)

    def need(self, fn, *a):
        """Resolve an anchor; on failure record it and raise Abort for this rule."""
        from facts import AnchorMissing
        try:
            return fn(*a)
        except AnchorMissing as e:
            self.anchor_errors.append(str(e))
            raise Abort(str(e))

    # ------------------------------------------------------------------ finish
    def finish(self):
        known = {}
        fixed = {}
        if os.path.exists(KNOWN):
            for e in json.load(open(KNOWN)).get("findings", []):
                if e.get("property") != self.pid:
                    continue
                if e.get("status") == "fixed":
                    fixed[e["key"]] = e
                else:
                    known[e["key"]] = e
        for name, r in self.rules.items():
            if r["n"] < r["floor"]:
                self.anchor_errors.append("rule %s examined %d instances, floor is %d" % (name, r["n"], r["floor"]))
        out = []
        viol = []
        kf = []
        seen = set()
        for rep in self.reports:
            if rep["key"] in seen:
                continue
            seen.add(rep["key"])
            where = "%s:%s" % (os.path.relpath(rep["file"], "/repo") if rep["file"].startswith("/") else rep["file"], rep["line"])
            if rep["key"] in known:
                kf.append(rep)
                out.append("KNOWN-FINDING: property=%s %s  [%s] %s" % (self.pid, rep["key"], where, known[rep["key"]].get("what", rep["msg"])))
            else:
                viol.append(rep)
                out.append("REPORT %s %s: %s" % (where, rep["key"], rep["msg"]))
        stale = [k for k in known if k not in seen]
        for k in stale:
            out.append("NOTE: listed known finding no longer reported: %s" % k)
        wall = time.time() - self.t0
        n_ob = sum(r["n"] for r in self.rules.values())
        n_distinct = sum(len(r["keys"]) for r in self.rules.values())
        n_fail = sum(r["fail"] for r in self.rules.values())
        cov = {
            "explanation": self.explanation,
            "evaluations": n_ob,
            "distinct_nontrivial": n_distinct,
            "rule": "one evaluation = one obligation instance of a static rule on a program construct of /repo's current "
                    "tree (a call site, a match arm, a table cell, a CFG path); distinct = distinct construct keys "
                    "(rule|function|instance, no line numbers); non-trivial = the construct carries the obligation "
                    "(vacuous instances are not counted)",
            "obligations": n_ob,
            "discharged": n_ob - n_fail,
            "known_findings_reported": len(kf),
            "checker_cmd": "./check %s --tier %s" % (self.pid, self.tier),
            "trusted_base": self.trusted,
            "samples": self.samples[:24] or [{"note": "no instance"}],
            "rules": {n: {"text": r["text"], "instances": r["n"], "distinct": len(r["keys"]),
                          "failing": r["fail"], "floor": r["floor"],
                          "exhaustive": bool(self.exhaustive.get(n))} for n, r in self.rules.items()},
            "exhaustive": bool(self.rules) and all(self.exhaustive.get(n) for n in self.rules),
            "notes": self.notes,
        }
        ev = {
            "property_id": self.pid,
            "tier": self.tier,
            "seed": int(os.environ.get("VERIF_SEED", "0") or 0),
            "level": "other",
            "coverage": cov,
            "assumptions": self.assumptions,
            "wall_s": round(wall, 3),
            "violations": len(viol),
        }
        os.makedirs(os.path.join(VERIF, "evidence"), exist_ok=True)
        with open(os.path.join(VERIF, "evidence", self.pid + ".json"), "w") as fh:
            json.dump(ev, fh, indent=1, sort_keys=True)
            fh.write("\n")
        for name, r in self.rules.items():
            print("RULE %-18s instances=%-5d distinct=%-5d failing=%-3d floor=%d" % (name, r["n"], len(r["keys"]), r["fail"], r["floor"]))
        for l in out:
            print(l)
        if self.anchor_errors:
            for a in self.anchor_errors:
                print("ANCHOR-MISSING property=%s %s" % (self.pid, a))
            if not viol:
                print("RESULT %s: UNDECIDED (anchor missing; failing closed)" % self.pid)
                return 2
        if viol:
            os.makedirs(os.path.join(VERIF, "replay"), exist_ok=True)
            rp = os.path.join(VERIF, "replay", "%s.json" % self.pid)
            with open(rp, "w") as fh:
                json.dump({"property": self.pid, "violations": viol}, fh, indent=1)
            print("VIOLATION property=%s replay=%s" % (self.pid, rp))
            print("RESULT %s: %d violation(s), %d known finding(s), %d obligations" % (self.pid, len(viol), len(kf), n_ob))
            return 1
        print("RESULT %s: holds on %d obligations (%d distinct), %d known finding(s), %.1fs" % (self.pid, n_ob, n_distinct, len(kf), wall))
        return 0
