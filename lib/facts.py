"""Fact acquisition: (re)run the icfacts rustc driver over /repo's *current working tree* and
load the fact files lazily.  Nothing here executes IronCalc code; the driver stops after
type-check + MIR construction (`cargo check`)."""
import fcntl
import hashlib
import json
import os
import re
import shutil
import subprocess
import sys
import time

VERIF = os.path.dirname(os.path.dirname(os.path.abspath(__file__)))
REPO = os.environ.get("IRONCALC_REPO", "/repo")
CACHE = os.path.join(VERIF, ".cache")
DRIVER_DIR = os.path.join(VERIF, "icfacts")
DRIVER = os.path.join(DRIVER_DIR, "target", "debug", "icfacts")
CRATES = ["ironcalc_base", "ironcalc"]
FLOORS = {"ironcalc_base": 4500, "ironcalc": 300}  # counted on the pinned tree: 5360 / 338 bodies


def _env():
    e = dict(os.environ)
    e["CARGO_NET_OFFLINE"] = "true"
    return e


def tree_key():
    h = hashlib.sha256()
    roots = [os.path.join(REPO, "base"), os.path.join(REPO, "xlsx")]
    files = [os.path.join(REPO, "Cargo.toml"), os.path.join(REPO, "Cargo.lock")]
    for r in roots:
        for dp, dn, fn in os.walk(r):
            dn[:] = sorted(d for d in dn if d not in ("target", "node_modules", ".git"))
            # test data (xlsx files, etc.) is not compiled; only sources, manifests and include_bytes! inputs
            for f in sorted(fn):
                if f.endswith((".rs", ".toml", ".bin", ".xml", ".json")):
                    files.append(os.path.join(dp, f))
    for f in sorted(files):
        try:
            with open(f, "rb") as fh:
                data = fh.read()
        except OSError:
            continue
        h.update(os.path.relpath(f, REPO).encode())
        h.update(b"\0")
        h.update(hashlib.sha256(data).digest())
    # the driver itself is part of the key
    try:
        with open(os.path.join(DRIVER_DIR, "src", "main.rs"), "rb") as fh:
            h.update(hashlib.sha256(fh.read()).digest())
    except OSError:
        pass
    return h.hexdigest()[:24]


def build_driver():
    src = os.path.join(DRIVER_DIR, "src", "main.rs")
    if os.path.exists(DRIVER) and os.path.getmtime(DRIVER) >= os.path.getmtime(src):
        return
    r = subprocess.run(["cargo", "build", "--offline"], cwd=DRIVER_DIR, env=_env(),
                       stdout=subprocess.PIPE, stderr=subprocess.STDOUT, text=True)
    if r.returncode != 0 or not os.path.exists(DRIVER):
        sys.stderr.write(r.stdout)
        raise SystemExit("SETUP-ERROR: cannot build icfacts driver")


def _sysroot():
    r = subprocess.run(["rustc", "+nightly", "--print", "sysroot"], stdout=subprocess.PIPE, text=True, env=_env())
    return r.stdout.strip()


def ensure_facts(verbose=True):
    """Returns the directory holding <crate>.jsonl for the current tree, extracting if needed."""
    os.makedirs(CACHE, exist_ok=True)
    key = tree_key()
    out = os.path.join(CACHE, "facts", key)
    done = os.path.join(out, "DONE")
    if os.path.exists(done):
        return out
    lock = open(os.path.join(CACHE, "extract.lock"), "w")
    fcntl.flock(lock, fcntl.LOCK_EX)
    try:
        if os.path.exists(done):
            return out
        t0 = time.time()
        build_driver()
        if os.path.exists(out):
            shutil.rmtree(out)
        os.makedirs(out)
        target = os.path.join(CACHE, "target")
        # cargo's freshness cache would skip the wrapper: drop the members' fingerprints
        fp = os.path.join(target, "debug", ".fingerprint")
        if os.path.isdir(fp):
            for d in os.listdir(fp):
                if d.startswith("ironcalc"):
                    shutil.rmtree(os.path.join(fp, d), ignore_errors=True)
        env = _env()
        env["LD_LIBRARY_PATH"] = os.path.join(_sysroot(), "lib") + ":" + env.get("LD_LIBRARY_PATH", "")
        env["RUSTFLAGS"] = "-Zmir-opt-level=0 -Coverflow-checks=on -Awarnings"
        env["RUSTC_WORKSPACE_WRAPPER"] = DRIVER
        env["ICFACTS_OUT"] = out
        env["ICFACTS_CRATES"] = ",".join(CRATES)
        env["CARGO_TARGET_DIR"] = target
        cmd = ["cargo", "+nightly", "check", "--offline", "-p", "ironcalc_base", "-p", "ironcalc", "--lib"]
        r = subprocess.run(cmd, cwd=REPO, env=env, stdout=subprocess.PIPE, stderr=subprocess.STDOUT, text=True)
        if r.returncode != 0:
            sys.stderr.write(r.stdout[-6000:])
            raise SystemExit("EXTRACT-ERROR: cargo check of /repo failed (tree does not compile?)")
        for c in CRATES:
            f = os.path.join(out, c + ".jsonl")
            if not os.path.exists(f):
                raise SystemExit("EXTRACT-ERROR: fact file missing for %s (driver was skipped)" % c)
        open(done, "w").write("%.1f\n" % (time.time() - t0))
        if verbose:
            sys.stderr.write("[facts] extracted %s in %.1fs\n" % (key, time.time() - t0))
        # keep only the six most recent fact sets (several trees may be under analysis at once)
        root = os.path.join(CACHE, "facts")
        ds = sorted((os.path.getmtime(os.path.join(root, d)), d) for d in os.listdir(root))
        for _, d in ds[:-6]:
            shutil.rmtree(os.path.join(root, d), ignore_errors=True)
        return out
    finally:
        fcntl.flock(lock, fcntl.LOCK_UN)
        lock.close()


_PATH_RE = re.compile(r'^\{"kind":"(\w+)","path":"((?:[^"\\]|\\.)*)"')


class Facts:
    """Lazy view of the fact files. Bodies are parsed on first access."""

    def __init__(self, directory=None):
        self.dir = directory or ensure_facts()
        self._raw = {}     # path -> raw json line (bodies)
        self.heads = {}    # path -> header dict (no MIR)
        self.by_qname = {}
        self._bodies = {}
        self.adts = {}
        self.impls = []
        self.calls = {}    # path -> list of call strings
        self.summary = {}
        for c in CRATES:
            with open(os.path.join(self.dir, c + ".jsonl"), encoding="utf-8") as fh:
                for line in fh:
                    if line.startswith('{"kind":"body"'):
                        i = line.index(',"nargs":')
                        h = json.loads(line[:i] + "}")
                        h["crate"] = c
                        self._raw[h["path"]] = line
                        self.heads[h["path"]] = h
                        q = qname(h)
                        h["qname"] = q
                        self.by_qname.setdefault(q, []).append(h["path"])
                        continue
                    r = json.loads(line)
                    k = r["kind"]
                    if k == "adt":
                        if r["path"] not in self.adts or r.get("local"):
                            self.adts[r["path"]] = r
                    elif k == "impl":
                        r["crate"] = c
                        self.impls.append(r)
                    elif k == "calls":
                        self.calls[r["path"]] = r["calls"]
                    elif k == "summary":
                        self.summary[r["crate"]] = r
        # closures / promoteds are named under the qualified name of their root function
        for path, h in self.heads.items():
            root = h.get("root")
            if root is None and h.get("bkind") == "promoted":
                root = path[: path.rindex("::{promoted#")]
            if root and root in self.heads and path.startswith(root):
                rq = self.heads[root].get("qname") or qname(self.heads[root])
                q = rq + strip_generics(path[len(root):])
                self.by_qname[h["qname"]].remove(path)
                h["qname"] = q
                h["root"] = root
                self.by_qname.setdefault(q, []).append(path)
        for c in CRATES:
            n = self.summary.get(c, {}).get("bodies", 0)
            if n < FLOORS[c]:
                raise SystemExit("ANCHOR-MISSING: crate %s has %d bodies, floor %d" % (c, n, FLOORS[c]))

    def body_paths(self):
        return self._raw.keys()

    def has(self, path):
        return path in self._raw

    def body(self, path):
        b = self._bodies.get(path)
        if b is None:
            raw = self._raw.get(path)
            if raw is None:
                return None
            from mir import Body
            b = Body(json.loads(raw), self)
            self._bodies[path] = b
        return b

    def find(self, suffix):
        """All body paths whose qualified name (Type::method, module::function, with generics
        stripped) equals `suffix` or ends with '::'+suffix."""
        out = []
        for q, ps in self.by_qname.items():
            if q == suffix or q.endswith("::" + suffix):
                out.extend(ps)
        return out

    def qname_of(self, path):
        h = self.heads.get(path)
        return h["qname"] if h else strip_generics(path)

    def one(self, suffix):
        r = [p for p in self.find(suffix)]
        if len(r) != 1:
            raise AnchorMissing("anchor %r resolves to %d bodies: %s" % (suffix, len(r), r[:5]))
        return self.body(r[0])

    def adt(self, suffix):
        r = [a for p, a in self.adts.items() if p == suffix or p.endswith("::" + suffix)]
        if len(r) != 1:
            raise AnchorMissing("ADT anchor %r resolves to %d" % (suffix, len(r)))
        return r[0]


def qname(h):
    """Qualified, generics-free name: `crate::module::Type::method` for inherent methods,
    `<crate::module::Type as Trait>::method` for trait impls, the def path otherwise; closures and
    promoteds keep their `::{closure#n}` suffix under the qualified name of their root."""
    p = strip_generics(h["path"])
    if h.get("impl_adt") and h.get("name"):
        base = strip_generics(h["impl_adt"])
        if h.get("impl_trait"):
            return "<%s as %s>::%s" % (base, strip_generics(h["impl_trait"]), h["name"])
        return "%s::%s" % (base, h["name"])
    return p


class AnchorMissing(Exception):
    pass


_GEN_RE = re.compile(r"::<[^<>]*(?:<[^<>]*(?:<[^<>]*>[^<>]*)*>[^<>]*)*>")


def strip_generics(p):
    """model::Model::<'a>::evaluate -> model::Model::evaluate"""
    prev = None
    while prev != p:
        prev = p
        p = _GEN_RE.sub("", p)
    return p


if __name__ == "__main__":
    d = ensure_facts()
    print(d)
