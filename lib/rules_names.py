"""Name tables: functions and errors in every language (C23), literal tables (C09 rule 3)."""
from mir import enum_switches, const_str, rvalue_operands
from tabx import chain_table, collect, match_table, describe_operand
from tables import load_tables

FUNCTION = "ironcalc_base::functions::Function"
FUNCTIONS = "ironcalc_base::language::Functions"
ERROR = "ironcalc_base::expressions::token::Error"
ERRORS = "ironcalc_base::language::Errors"


def function_tables(ck, F):
    """Returns (lookup: [(field, variant)], printer: {variant: field}) and checks TABLE-code."""
    fadt = ck.need(F.adt, "functions::Function")
    ladt = ck.need(F.adt, "language::Functions")
    variants = [v["name"] for v in fadt["variants"]]
    fields = [f["name"] for f in ladt["variants"][0]["fields"]]
    ck.note("function_variants", len(variants))
    R = "TABLE-code"
    ck.ob(R, "Function|variant-count-equals-field-count", len(variants) == len(fields),
          "Function has %d variants but language::Functions has %d fields" % (len(variants), len(fields)), fadt.get("file", ""), fadt.get("line", 0))
    # ---- lookup: field -> variant
    lk = ck.need(F.one, "language::Functions::lookup")
    chain = chain_table(lk)
    lookup = []
    for q, ops, coll, ft, bi in chain:
        fld = [o for o in ops if o[0] == "field" and o[1] == FUNCTIONS]
        var = [v for a, v in (coll or {}).get("variants", []) if a == FUNCTION]
        key = [o for o in ops if o[0] == "local"]
        ok = len(fld) == 1 and len(var) == 1 and len(key) == 1 and key[0][1] == "key"
        f, l = lk.loc(bi)
        ck.ob(R, "lookup|step %s" % (fld[0][2] if fld else "?"), ok,
              "lookup step compares %s and yields %s" % (ops, var), f, l, nontrivial=True,
              sample={"field": fld[0][2] if fld else None, "variant": var[0] if var else None})
        if ok:
            lookup.append((fld[0][2], var[0]))
    ck.ob(R, "lookup|covers-all-fields", sorted(f for f, _ in lookup) == sorted(fields),
          "fields not looked up: %s; looked up twice or unknown: %s" % (sorted(set(fields) - {f for f, _ in lookup}),
                                                                        sorted({f for f, _ in lookup if [x for x, _ in lookup].count(f) > 1})), lk.file, lk.line)
    ck.ob(R, "lookup|hits-all-variants-once", sorted(v for _, v in lookup) == sorted(variants),
          "variants unreachable from lookup: %s; reachable twice: %s" % (sorted(set(variants) - {v for _, v in lookup}),
                                                                        sorted({v for _, v in lookup if [x for _, x in lookup].count(v) > 1})), lk.file, lk.line)
    up = lk.calls_to("str::to_uppercase")
    ck.ob(R, "lookup|key-is-uppercased", len(up) == 1, "lookup key is not name.to_uppercase()", lk.file, lk.line)
    # ---- printer: variant -> field
    pr = ck.need(F.one, "functions::Function::to_localized_name")
    sw = enum_switches(pr, FUNCTION)
    printer = {}
    if len(sw) != 1:
        ck.anchor("to_localized_name: match over Function")
    else:
        bi, tg, wild, info = sw[0]
        f, l = pr.loc(bi)
        ck.ob(R, "to_localized_name|no-wildcard", not wild, "wildcard arm in to_localized_name", f, l)
        mt = match_table(pr, bi)
        lk_map = dict(lookup)
        inv = {v: f_ for f_, v in lookup}
        for v in variants:
            c = mt.get(v)
            fl = [x for a, x in (c or {}).get("fields", []) if a == FUNCTIONS]
            ok = c is not None and len(fl) == 1
            if ok:
                printer[v] = fl[0]
            ck.ob(R, "to_localized_name|%s" % v, ok and inv.get(v) == fl[0],
                  "Function::%s prints field `%s` but lookup maps field `%s` to it" % (v, fl[0] if fl else None, inv.get(v)), f, l,
                  sample={"variant": v, "printed_field": fl[0] if fl else None, "lookup_field": inv.get(v)})
    # ---- into_iter lists every variant once
    it = ck.need(F.one, "functions::Function::into_iter")
    listed = []
    bodies = [it] + [F.body(p) for p in F.body_paths() if p.startswith(it.path + "::{promoted")]
    for b in bodies:
        for bi, si, s in b.stmts():
            rv = s["rv"]
            if rv["k"] == "agg" and rv.get("agg") == "adt" and rv["adt"] == FUNCTION:
                listed.append(rv["variant"])
    ck.ob(R, "into_iter|lists-every-variant-once", sorted(listed) == sorted(variants),
          "into_iter misses %s, repeats %s" % (sorted(set(variants) - set(listed)), sorted({v for v in listed if listed.count(v) > 1})), it.file, it.line)
    # ---- evaluate_function dispatch
    ev = ck.need(F.one, "Model::evaluate_function")
    sw = enum_switches(ev, FUNCTION)
    if not sw:
        ck.anchor("evaluate_function: match over Function")
    else:
        bi, tg, wild, info = max(sw, key=lambda x: len(x[1]))
        f, l = ev.loc(bi)
        ck.ob(R, "evaluate_function|no-wildcard", not wild, "evaluate_function has a wildcard arm: an unhandled function would be silently mis-evaluated", f, l)
        ck.ob(R, "evaluate_function|arm-per-variant", all(v in tg for v in variants),
              "evaluate_function has no arm for %s" % [v for v in variants if v not in tg][:6], f, l)
    return lookup, printer, variants, fields


def xlsx_names(ck, F, printer, T):
    """to_xlsx_string literals, stripped of the future-function prefixes, equal the English name of their own
    variant; the wildcard arm prints the English name; the parser strips exactly those prefixes."""
    R = "TABLE-code"
    en = T["languages"]["en"]["functions"]
    xs = ck.need(F.one, "functions::Function::to_xlsx_string")
    sw = enum_switches(xs, FUNCTION)
    if len(sw) != 1:
        ck.anchor("to_xlsx_string: match over Function")
        return
    bi, tg, wild, info = sw[0]
    mt = match_table(xs, bi)
    f, l = xs.loc(bi)
    prefixes = set()
    for v, c in mt.items():
        if v is None:
            ok = "ironcalc_base::functions::Function::to_localized_name" in c["calls"] and \
                 "ironcalc_base::language::get_default_language" in c["calls"]
            ck.ob(R, "to_xlsx_string|default-arm-is-english-name", ok,
                  "default arm of to_xlsx_string is not to_localized_name(default language)", f, l)
            continue
        lit = c["strs"][0] if len(c["strs"]) == 1 else None
        name = lit
        pre = ""
        for p in ("_xlfn._xlws.", "_xlfn."):
            if lit and lit.startswith(p):
                name = lit[len(p):]
                pre = p
                break
        prefixes.add(pre)
        want = en.get(printer.get(v, ""), None)
        ck.ob(R, "to_xlsx_string|%s" % v, lit is not None and name == want,
              "Function::%s is exported as %r but its English name is %r: the exported formula would parse back to another function or #NAME?" % (v, lit, want),
              f, l, sample={"variant": v, "xlsx": lit, "english": want})
    # the parser strips the same prefixes
    pp = ck.need(F.one, "Parser::parse_primary")
    trims = set()
    for cb, t in pp.calls_to("str::trim_start_matches"):
        d = describe_operand(pp, t["args"][1])
        if d[0] == "str":
            trims.add(d[1])
    for p in sorted(prefixes - {""}):
        ck.ob(R, "parse_primary|strips %s" % p, p in trims, "export prefix %r is not stripped by parse_primary (strips %s)" % (p, sorted(trims)), pp.file, pp.line)


def ident_class(F):
    """(first-char predicates, rest-char predicates) of the lexer's identifier path, read off the MIR."""
    ci = F.one("Lexer::consume_identifier")
    preds = {(ci.callee_q(t) or "").rsplit("::", 1)[-1] for _, t in ci.calls() if "char::methods" in (ci.callee_q(t) or "")}
    extra = set()
    for bi, si, s in ci.stmts():
        rv = s["rv"]
        if rv["k"] == "bin" and rv["op"] == "Eq" and rv.get("ty") == "char":
            for o in (rv["a"], rv["b"]):
                k = o.get("k")
                if k and k.get("ty") == "char":
                    extra.add(_char_of(k))
    return preds, extra


PY_PRED = {"is_alphabetic": lambda c: c.isalpha(), "is_alphanumeric": lambda c: c.isalnum(), "is_numeric": lambda c: c.isnumeric(),
           "is_ascii_alphabetic": lambda c: c.isascii() and c.isalpha(), "is_ascii_alphanumeric": lambda c: c.isascii() and c.isalnum(),
           "is_ascii_digit": lambda c: c in "0123456789", "is_ascii_uppercase": lambda c: c.isascii() and c.isupper(),
           "is_ascii_lowercase": lambda c: c.isascii() and c.islower(), "is_uppercase": lambda c: c.isupper(), "is_lowercase": lambda c: c.islower()}


def ident_first_class(F):
    """(predicates, literal characters) under which Lexer::next_token starts an identifier: the char tests whose true edge
    leads, through unconditional jumps only, to the call of consume_identifier."""
    nt = F.one("expressions::lexer::Lexer::next_token")
    targets = {bi for bi, t in nt.calls() if (nt.callee_q(t) or "").endswith("Lexer::consume_identifier")}

    def leads(tt):
        cur, steps = tt, 0
        while cur is not None and steps < 6:
            if cur in targets:
                return True
            t = nt.blocks[cur]["t"]
            if t["k"] not in ("goto", "assert"):
                return False
            nx = nt.succs(cur)
            if len(nx) != 1:
                return False
            cur = nx[0]
            steps += 1
        return False
    preds, lits = set(), set()
    for bi, blk in enumerate(nt.blocks):
        t = blk["t"]
        if t["k"] != "switch" or t["ty"] != "bool":
            continue
        true_t = t["otherwise"]
        if not leads(true_t):
            continue
        tr = nt.trace(t["o"])
        if tr["kind"] == "call":
            q = nt.callee_q(tr["t"]) or ""
            if "char::methods" in q:
                preds.add(q.rsplit("::", 1)[-1])
        elif tr["kind"] == "rv" and tr["rv"]["k"] == "bin" and tr["rv"]["op"] == "Eq":
            for o in (tr["rv"]["a"], tr["rv"]["b"]):
                k = o.get("k")
                if k and k.get("ty") == "char":
                    lits.add(_char_of(k))
    return preds, lits


def _char_of(k):
    d = str(k.get("v", k.get("d")))
    if len(d) >= 3 and d[0] == "'" and d[-1] == "'":
        inner = d[1:-1]
        if inner.startswith("\\"):
            return {"\\\\": "\\", "\\'": "'", "\\n": "\n", "\\t": "\t", "\\r": "\r"}.get(inner, inner)
        return inner
    return d


def table_data(ck, F, lookup, printer, T, tier):
    """TABLE-data: per language, over the decoded language table."""
    R = "TABLE-data"
    preds, extra = ident_class(F)
    ck.ob(R, "lexer|identifier-class", preds == {"is_alphanumeric"} and extra >= {"_", "."},
          "identifier class read from consume_identifier is %s + %s" % (sorted(preds), sorted(extra)))
    ck.assume("Python str.isalnum / str.upper stand in for char::is_alphanumeric / str::to_uppercase on the name tables")
    fpreds, flits = ident_first_class(F)
    ck.ob(R, "lexer|identifier-start-class", bool(fpreds) and all(p in PY_PRED for p in fpreds),
          "the tests under which next_token starts an identifier were not found or use an unknown predicate: %s + %s" % (sorted(fpreds), sorted(flits)))

    def starts_identifier(c):
        return any(PY_PRED[p](c) for p in fpreds if p in PY_PRED) or c in flits
    errs_adt = F.adt("language::Errors")
    err_fields = [f["name"] for f in errs_adt["variants"][0]["fields"]]
    # order in which consume_error tests the names
    ce = F.one("Lexer::consume_error")
    order = [[o for o in ops if o[0] == "field" and o[1] == ERRORS][0][2] for q, ops, c, ft, bi in chain_table(ce)
             if [o for o in ops if o[0] == "field" and o[1] == ERRORS]]
    ck.ob(R, "consume_error|tests-every-error-name", sorted(order) == sorted(err_fields),
          "consume_error tests %s, table has %s" % (order, err_fields), ce.file, ce.line)
    for lang, L in sorted(T["languages"].items()):
        fn = L["functions"]
        names = {}
        for field, variant in lookup:
            n = fn.get(field)
            ck.ob(R, "%s|%s|present" % (lang, field), n is not None and n != "", "language %s has no name for %s" % (lang, field),
                  nontrivial=True, sample={"lang": lang, "field": field, "name": n})
            if not n:
                continue
            ok_up = n == n.upper()
            ck.ob(R, "%s|%s|uppercase-fixed-point" % (lang, field), ok_up,
                  "%s name %r of %s is not its own to_uppercase(): lookup uppercases the key and can never match it" % (lang, n, variant))
            ok_lex = starts_identifier(n[0]) and all(c.isalnum() or c in extra for c in n)
            ck.ob(R, "%s|%s|lexes-as-identifier" % (lang, field), ok_lex,
                  "%s name %r of %s is not a single identifier token" % (lang, n, variant))
            names.setdefault(n, []).append(variant)
        for n, vs in sorted(names.items()):
            if len(vs) > 1:
                ck.ob(R, "%s|distinct|%s" % (lang, n), False,
                      "in language %s functions %s share the name %r: first-match lookup returns %s for all of them" % (lang, vs, n, vs[0]))
        ck.ob(R, "%s|function-names-pairwise-distinct" % lang, all(len(v) == 1 for v in names.values()),
              "duplicate names in %s" % lang, sample={"lang": lang, "distinct_names": len(names)})
        # booleans
        B = L["booleans"]
        inv = {v: f for f, v in lookup}
        for bname, var in ((B["true"], "True"), (B["false"], "False")):
            clash = [v for v in names.get(bname, []) if v != var]
            ck.ob(R, "%s|boolean %s|no-clash" % (lang, var), not clash,
                  "boolean literal %r of %s is also the name of %s" % (bname, lang, clash))
        ck.ob(R, "%s|booleans-distinct" % lang, B["true"] != B["false"], "true and false have the same literal in %s" % lang)
        # errors
        E = L["errors"]
        vals = [E[f] for f in err_fields]
        ck.ob(R, "%s|error-names-distinct" % lang, len(set(vals)) == len(vals), "error names collide in %s: %s" % (lang, vals),
              sample={"lang": lang, "errors": vals})
        for i, a in enumerate(order):
            for b in order[i + 1:]:
                ck.ob(R, "%s|prefix %s<%s" % (lang, a, b), not E[b].startswith(E[a]),
                      "in %s error %r (tested first by consume_error) is a prefix of %r, which can never be lexed" % (lang, E[a], E[b]))
            ck.ob(R, "%s|error %s|starts-with-hash" % (lang, a), E[a].startswith("#"), "error name %r does not start with '#'" % E[a])


def error_tables(ck, F, T):
    """Field <-> variant tables of the four error codecs agree; English literals agree (C09 rule 3 / C23)."""
    R = "TABLE-errors"
    eadt = ck.need(F.adt, "token::Error")
    variants = [v["name"] for v in eadt["variants"]]
    # variant -> field (printer)
    pl = ck.need(F.one, "token::Error::to_localized_error_string")
    sw = enum_switches(pl, ERROR)
    v2f = {}
    if len(sw) == 1:
        mt = match_table(pl, sw[0][0])
        ck.ob(R, "to_localized_error_string|no-wildcard", not sw[0][2], "wildcard arm", pl.file, pl.line)
        for v in variants:
            fl = [x for a, x in mt.get(v, {}).get("fields", []) if a == ERRORS]
            if len(fl) == 1:
                v2f[v] = fl[0]
            ck.ob(R, "to_localized_error_string|%s" % v, len(fl) == 1, "arm %s reads %s" % (v, fl), pl.file, pl.line)
    else:
        ck.anchor("to_localized_error_string match")
    # field -> variant (get_error_by_name) and (consume_error)
    for fn, anchor in (("get_error_by_name", "token::get_error_by_name"), ("consume_error", "Lexer::consume_error")):
        b = ck.need(F.one, anchor)
        got = {}
        for q, ops, c, ft, bi in chain_table(b):
            fl = [o for o in ops if o[0] == "field" and o[1] == ERRORS]
            vs = [v for a, v in (c or {}).get("variants", []) if a == ERROR]
            if len(fl) == 1 and len(vs) == 1:
                got[fl[0][2]] = vs[0]
        for v in variants:
            f_ = v2f.get(v)
            ck.ob(R, "%s|%s" % (fn, v), got.get(f_) == v,
                  "%s maps errors.%s to %s, but Error::%s is printed from errors.%s" % (fn, f_, got.get(f_), v, f_), b.file, b.line,
                  sample={"fn": fn, "field": f_, "variant": got.get(f_)})
    # English literal tables
    dp = ck.need(F.one, "<ironcalc_base::expressions::token::Error as std::fmt::Display>::fmt")
    sw = enum_switches(dp, ERROR)
    disp = {}
    if len(sw) == 1:
        mt = match_table(dp, sw[0][0])
        for v in variants:
            ss = mt.get(v, {}).get("strs", [])
            if len(ss) == 1:
                disp[v] = ss[0]
    else:
        ck.anchor("Display for Error match")
    ge = ck.need(F.one, "token::get_error_by_english_name")
    eng = {}
    for q, ops, c, ft, bi in chain_table(ge):
        ss = [o[1] for o in ops if o[0] == "str"]
        vs = [v for a, v in (c or {}).get("variants", []) if a == ERROR]
        if len(ss) == 1 and len(vs) == 1:
            eng[ss[0]] = vs[0]
    ie = ck.need(F.one, "token::is_english_error_string")
    listed = set(collect(ie, range(len(ie.blocks)))["strs"])
    en = T["languages"]["en"]["errors"]
    for v in variants:
        d = disp.get(v)
        f_ = v2f.get(v)
        ck.ob(R, "Display|%s|parses-back" % v, d is not None and eng.get(d) == v,
              "Error::%s is displayed (and written to xlsx) as %r, which get_error_by_english_name maps to %s" % (v, d, eng.get(d)), dp.file, dp.line,
              sample={"variant": v, "display": d, "parses_to": eng.get(d)})
        ck.ob(R, "Display|%s|is-english-table-entry" % v, d is not None and en.get(f_) == d,
              "Error::%s is displayed as %r but the English language table says %r" % (v, d, en.get(f_)), dp.file, dp.line)
        ck.ob(R, "is_english_error_string|%s" % v, d in listed,
              "Display form %r of Error::%s is not recognised by is_english_error_string" % (d, v), ie.file, ie.line)
    return v2f, disp


def source_matches_bin(ck, F, T):
    """The human-edited source of the language table equals the embedded binary (make test-language-bin)."""
    import json, os
    from facts import REPO
    p = os.path.join(REPO, "generate_language", "src", "languages.json")
    if not os.path.exists(p):
        ck.anchor("generate_language/src/languages.json")
        return
    src = json.load(open(p))
    R = "TABLE-data"
    ck.ob(R, "languages.json|same-language-set", sorted(src) == sorted(T["languages"]),
          "languages.json has %s, language.bin has %s" % (sorted(src), sorted(T["languages"])), p, 1)
    for lang in sorted(set(src) & set(T["languages"])):
        a, b = src[lang], T["languages"][lang]
        for sec in ("booleans", "errors", "functions"):
            diff = sorted(k for k in set(a.get(sec, {})) | set(b.get(sec, {})) if a.get(sec, {}).get(k) != b.get(sec, {}).get(k))
            ck.ob(R, "languages.json|%s|%s|equals-bin" % (lang, sec), not diff,
                  "languages.json and the embedded language.bin disagree for %s.%s on %s" % (lang, sec, diff[:5]), p, 1)


# ------------------------------------------------------------------------------------------------
def _one_axis_tables(ck, F, ce, R):
    """Row-only ("5" in 5:5) and column-only ("D" in D:D) endpoints: interpret cycle_endpoint from its `column.is_empty()`
    test to the allocation of the result, for every value of the two scanned flags.  What the scanner can produce for a
    one-axis endpoint is: no `$` at all, or one leading `$` (which it records in absolute_column, because it is read
    before the scanner knows whether a column follows).  On those inputs the marker must toggle: `$` present -> absent,
    absent -> present, and it must be emitted for the axis that exists."""
    from pathx import Interp, UNKNOWN
    from mir import op_place, place_proj
    empties = [(bi, t) for bi, t in ce.calls() if (ce.callee_q(t) or "").endswith("is_empty")]
    caps = [bi for bi, t in ce.calls() if (ce.callee_q(t) or "").endswith("with_capacity")]
    # the roles are found by dataflow, not by what the locals are called:
    #   absolute_column / absolute_row : the two flags handed to next_state(..)
    #   new_column / new_row           : the bindings of components .0 / .1 of the tuple next_state's result lands in
    #   column / row                   : the two slices whose emptiness is tested; the column letters are scanned first
    names = {}
    nsc = ce.calls_to("lexer::util::next_state")
    if len(nsc) == 1:
        t = nsc[0][1]
        for nm, a in zip(("absolute_column", "absolute_row"), t["args"]):
            tr = ce.trace(a)
            pl = tr["place"] if tr["kind"] == "place" else op_place(a)
            if pl is not None and not place_proj(pl):
                names[nm] = ce.resolve_place(pl, through_named=False)["l"] if tr["kind"] == "place" else pl["l"]
        if not place_proj(t["dest"]):
            tup = {t["dest"]["l"]}
            for _ in range(3):
                for bi, si, st in ce.stmts():
                    if st["rv"]["k"] == "use" and not place_proj(st["p"]):
                        src = op_place(st["rv"]["o"])
                        if src is not None and not place_proj(src) and src["l"] in tup:
                            tup.add(st["p"]["l"])
            for bi, si, st in ce.stmts():
                if st["rv"]["k"] == "use" and not place_proj(st["p"]):
                    src = op_place(st["rv"]["o"])
                    pj = place_proj(src) if src is not None else []
                    if src is not None and src["l"] in tup and len(pj) == 1 and pj[0][0] == "f" and pj[0][1] in (0, 1):
                        names.setdefault("new_column" if pj[0][1] == 0 else "new_row", st["p"]["l"])
    slices = []
    for bi, t in empties:
        if not t["args"]:
            continue
        tr = ce.trace(t["args"][0])
        l = None
        if tr["kind"] == "place":
            l = ce.resolve_place(tr["place"], through_named=False)["l"]
        else:
            rt = ce.ref_target(t["args"][0])
            l = rt["l"] if rt is not None else None
        if l is not None and l not in slices:
            slices.append(l)
    if len(slices) == 2:
        d0 = min(bi for bi, si in ce.defs().get(slices[0], [(10 ** 6, 0)]))
        d1 = min(bi for bi, si in ce.defs().get(slices[1], [(10 ** 6, 0)]))
        first, second = (slices[0], slices[1]) if ce.dominates(d0, d1) else (slices[1], slices[0])
        names["column"], names["row"] = first, second
    role = {v: k for k, v in names.items()}
    if not caps and "new_column" in names and "new_row" in names:
        # the result is assembled by a private helper: stop where the two new flags are handed to it
        for bi, t in ce.calls():
            c = ce.callee(t)
            if c not in F.heads or (ce.callee_q(t) or "").endswith("next_state"):
                continue
            got = set()
            for a in t["args"]:
                pl = op_place(a)
                if pl is None or place_proj(pl):
                    continue
                l = pl["l"]
                for _ in range(4):
                    if l in role:
                        got.add(role[l])
                        break
                    rv = ce.def_rvalue(l)
                    if rv is None or rv["k"] != "use" or op_place(rv["o"]) is None or place_proj(op_place(rv["o"])):
                        break
                    l = op_place(rv["o"])["l"]
            if {"new_column", "new_row"} <= got:
                caps = [bi]
                break
    ok_anchor = len(caps) == 1 and all(k in names for k in ("absolute_column", "absolute_row", "new_column", "new_row")) and len(empties) >= 2
    ck.ob(R, "cycle_endpoint|one-axis anchors", ok_anchor, "cycle_endpoint: flags / is_empty tests / result allocation not found", ce.file, ce.line)
    if not ok_anchor:
        return names
    # start at the is_empty test that decides the branch: the last pair of is_empty calls dominating the allocation
    dec = [bi for bi, t in empties if ce.dominates(bi, caps[0]) or caps[0] in ce.reachable_from(bi)]
    dec = [bi for bi in dec if not any(ce.dominates(o, bi) and o != bi and caps[0] in ce.reachable_from(o) and False for o in dec)]
    start = None
    for bi in sorted(dec):
        # the first is_empty whose receiver is `column` and from which the allocation is reachable without returning
        t = ce.blocks[bi]["t"]
        rt = ce.ref_target(t["args"][0]) if t["args"] else None
        tr = ce.trace(t["args"][0]) if t["args"] else {"kind": "?"}
        who = None
        if tr["kind"] == "place":
            who = role.get(ce.resolve_place(tr["place"], through_named=False)["l"])
        elif rt is not None:
            who = role.get(rt["l"])
        if who == "column" and ce.dominates(bi, caps[0]):
            start = bi
    if start is None:
        ck.ob(R, "cycle_endpoint|one-axis start", False, "the `column.is_empty()` test that selects the endpoint shape was not found", ce.file, ce.line)
        return names
    for shape, col_empty, row_empty in (("row-only", True, False), ("column-only", False, True)):
        def hook(I, t, argv, st, env, col_empty=col_empty, row_empty=row_empty):
            q = ce.callee_q(t) or ""
            if q.endswith("is_empty") and t["args"]:
                tr = ce.trace(t["args"][0])
                who = None
                if tr["kind"] == "place":
                    who = role.get(ce.resolve_place(tr["place"], through_named=False)["l"])
                else:
                    rt = ce.ref_target(t["args"][0])
                    who = role.get(rt["l"]) if rt is not None else None
                if who == "column":
                    return col_empty
                if who == "row":
                    return row_empty
            return UNKNOWN
        I = Interp(ce, F, call_hook=hook)
        table = {}
        for a in (False, True):
            for r in (False, True):
                st0 = {names["absolute_column"]: a, names["absolute_row"]: r}
                ps = I.run({}, start=start, st0=st0, stops=caps)
                outs = set()
                for p in ps:
                    if p.events and p.events[-1][0] == "stop":
                        outs.add((p.env.get(names["new_column"], UNKNOWN), p.env.get(names["new_row"], UNKNOWN)))
                table[(a, r)] = outs
        f, l = ce.loc(start)
        # reachable scanner outputs for a one-axis endpoint: (false,false) and (true,false)  [leading `$` lands in absolute_column];
        # for a column-only endpoint "$D" that is the column's own marker
        for (a, r) in ((False, False), (True, False)):
            outs = table[(a, r)]
            det = len(outs) == 1 and all(isinstance(x, bool) for x in next(iter(outs)))
            ck.ob(R, "cycle_endpoint|%s|(%s,%s)|deterministic" % (shape, a, r), det, "%s endpoint with flags (%s,%s) yields %s" % (shape, a, r, outs), f, l)
            if not det:
                continue
            nc, nr = next(iter(outs))
            had = a or r
            has = nc or nr
            right_axis = (not nc) if shape == "row-only" else (not nr)
            ck.ob(R, "cycle_endpoint|%s|(%s,%s)|toggles" % (shape, a, r), has == (not had) and right_axis,
                  "a %s endpoint %s `$` is rewritten %s `$` (new_column=%s, new_row=%s): F4 does not alternate between the two states of a "
                  "one-axis reference (an absolute %s becomes a fixed point, or the marker goes to the missing axis)"
                  % (shape, "with" if had else "without", "with" if has else "without", nc, nr, "row like $5:$5" if shape == "row-only" else "column like $D:$D"),
                  f, l, sample={"shape": shape, "in": [a, r], "out": [nc, nr]})
    return names


def table_cycle(ck, F):
    """TABLE-cycle (C34): next_state is one 4-cycle over {relative,absolute}^2, and cycle_endpoint assembles its
    result only from '$', the upper-cased column slice and the row slice."""
    from pathx import Interp, UNKNOWN
    from mir import place_proj
    R = "TABLE-cycle"
    ns = ck.need(F.one, "lexer::util::next_state")
    I = Interp(ns)
    table = {}
    for a in (False, True):
        for r in (False, True):
            ps = I.run({(ns.local_name(1) or "_1"): a, (ns.local_name(2) or "_2"): r})      # next_state(absolute_column, absolute_row)
            rets = {tuple(p.ret[1]) if isinstance(p.ret, tuple) and p.ret[0] == "tuple" else None for p in ps}
            ok = len(rets) == 1 and None not in rets
            ck.ob(R, "next_state|(%s,%s)|deterministic" % (a, r), ok, "next_state(%s,%s) yields %s" % (a, r, rets), ns.file, ns.line,
                  sample={"in": [a, r], "out": [list(x) for x in rets if x]})
            if ok:
                table[(a, r)] = rets.pop()
    if len(table) == 4:
        # single cycle of length 4
        cur = (False, False)
        seen = []
        for _ in range(4):
            seen.append(cur)
            cur = table[cur]
        ck.ob(R, "next_state|single-4-cycle", cur == (False, False) and len(set(seen)) == 4,
              "next_state is not a 4-cycle: orbit of (false,false) is %s -> %s" % (seen, cur), ns.file, ns.line,
              sample={"orbit": [list(x) for x in seen]})
        ck.ob(R, "next_state|bijection", len(set(table.values())) == 4, "next_state is not a bijection: %s" % table, ns.file, ns.line)
    ce = ck.need(F.one, "lexer::util::cycle_endpoint")
    nsc = ce.calls_to("lexer::util::next_state")
    ck.ob(R, "cycle_endpoint|uses-next_state", len(nsc) == 1, "cycle_endpoint calls next_state %d times" % len(nsc), ce.file, ce.line)
    roles = _one_axis_tables(ck, F, ce, R) or {}
    col_name = ce.local_name(roles["column"]) if "column" in roles else "column"
    row_name = ce.local_name(roles["row"]) if "row" in roles else "row"
    # what is appended to `result`
    # the String the function returns (found by dataflow into the return place, not by its name)
    res = []
    for bi, si, st in ce.stmts():
        if st["p"]["l"] == 0 and not place_proj(st["p"]) and st["rv"]["k"] == "use":
            from mir import op_place as _opl
            pl = _opl(st["rv"]["o"])
            if pl is not None and not place_proj(pl) and "String" in ce.locals[pl["l"]]:
                res.append(pl["l"])
    if not res:
        res = [l for l in ce.local_by_name("result")]
    # when the assembly of the result was moved into a private helper that cycle_endpoint returns the result of, analyse the
    # helper instead: its parameters take the roles of the arguments they receive
    bd, col_n, row_n = ce, col_name, row_name
    ret_locals = set(res) | {0}
    if True:
        for bi, t in ce.calls():
            c = ce.callee(t)
            hc = F.heads.get(c) if c else None
            if hc is None or not F.has(c) or place_proj(t["dest"]) or t["dest"]["l"] not in ret_locals or hc.get("vis") in ("pub",) or hc.get("file") != ce.file:
                continue
            hb = F.body(c)
            inv = {v: k for k, v in roles.items()}
            pr = {}
            for i, a in enumerate(t["args"], 1):
                tr = ce.trace(a)
                l = None
                if tr["kind"] == "place":
                    l = ce.resolve_place(tr["place"], through_named=False)["l"]
                else:
                    from mir import op_place as _opl2
                    pl = _opl2(a)
                    l = pl["l"] if pl is not None and not place_proj(pl) else None
                    rt0 = ce.ref_target(a)
                    if rt0 is not None and not place_proj(rt0):
                        l = rt0["l"]
                if l not in inv:
                    # a plain copy of a role variable (`render(column, row, ..)` passes copies of the slices)
                    from mir import op_place as _opl4
                    pl4 = _opl4(a)
                    l4 = pl4["l"] if pl4 is not None and not place_proj(pl4) else None
                    for _ in range(5):
                        if l4 is None or l4 in inv:
                            break
                        rv4 = ce.def_rvalue(l4)
                        if rv4 is not None and rv4["k"] == "ref" and all(e[0] == "*" for e in place_proj(rv4["p"])):
                            l4 = rv4["p"]["l"]          # a reborrow `&*column`
                            continue
                        if rv4 is None or rv4["k"] not in ("use", "cast") or _opl4(rv4["o"]) is None or place_proj(_opl4(rv4["o"])):
                            l4 = None
                            break
                        l4 = _opl4(rv4["o"])["l"]
                    if l4 in inv:
                        l = l4
                if l in inv:
                    pr[inv[l]] = i
            if "column" in pr and "row" in pr:
                bd = hb
                col_n, row_n = hb.local_name(pr["column"]), hb.local_name(pr["row"])
                res = []
                for bj, sj, st in hb.stmts():
                    if st["p"]["l"] == 0 and not place_proj(st["p"]) and st["rv"]["k"] == "use":
                        from mir import op_place as _opl3
                        pl = _opl3(st["rv"]["o"])
                        if pl is not None and not place_proj(pl):
                            res.append(pl["l"])
                break

    def analyse(bd, res, col_name, row_name):
        pushes = []
        for bi, t in bd.calls():
            q = bd.callee_q(t) or ""
            if not t["args"]:
                continue
            rt = bd.ref_target(t["args"][0])
            if rt is None or place_proj(rt) or rt["l"] not in res:
                continue
            last = q.rsplit("::", 1)[-1]
            if last == "push":
                from tabx import describe_operand
                pushes.append(("push", describe_operand(bd, t["args"][1]), bi))
            elif last == "extend":
                # extend(result, map(iter(column), closure))
                r = bd.trace(t["args"][1])
                src = None
                clos = None
                if r["kind"] == "call" and (bd.callee_q(r["t"]) or "").endswith("Iterator::map"):
                    it = bd.trace(r["t"]["args"][0])
                    if it["kind"] == "call" and (bd.callee_q(it["t"]) or "").endswith("slice::iter"):
                        rt2 = bd.ref_target(it["t"]["args"][0]) or {}
                        src = bd.local_name(rt2.get("l", -1))
                        if src is None:
                            tr = bd.trace(it["t"]["args"][0])
                            if tr["kind"] == "place":
                                src = bd.local_name(bd.resolve_place(tr["place"], through_named=False)["l"])
                    cl = bd.trace(r["t"]["args"][1])
                    if cl["kind"] == "rv" and cl["rv"]["k"] == "agg" and cl["rv"].get("agg") == "closure":
                        cb = F.body(cl["rv"]["def"])
                        if cb is not None:
                            clos = sorted({(cb.callee_q(tt) or "").rsplit("::", 1)[-1] for _, tt in cb.calls()})
                pushes.append(("extend-map", (src, tuple(clos or [])), bi))
            elif last == "extend_from_slice":
                tr = bd.trace(t["args"][1])
                src = None
                if tr["kind"] == "place":
                    src = bd.local_name(bd.resolve_place(tr["place"])["l"])
                elif tr["kind"] == "call":
                    src = "call"
                rt2 = bd.ref_target(t["args"][1])
                if rt2 is not None:
                    src = bd.local_name(rt2["l"]) or src
                if src is None:
                    o = t["args"][1]
                    from mir import op_place
                    p = op_place(o)
                    src = bd.local_name(bd.resolve_place(p, through_named=False)["l"]) if p else None
                pushes.append(("extend_from_slice", src, bi))
            elif last in ("with_capacity", "new"):
                pass
            else:
                pushes.append((last, None, bi))
        kinds = [(k, d) for k, d, _ in pushes]
        for k, d, bi in pushes:
            f, l = bd.loc(bi)
            if k == "push":
                ok = d == ("const", "'$'")
                ck.ob(R, "cycle_endpoint|push|only-dollar", ok, "cycle_endpoint pushes %s into the result (only '$' markers may be added)" % (d,), f, l,
                      sample={"append": "push", "value": str(d)})
            elif k == "extend-map":
                ok = d[0] == col_name and d[1] == ("to_ascii_uppercase",)
                ck.ob(R, "cycle_endpoint|column-letters", ok, "column letters are rebuilt from %s through %s (only letter case may change)" % d, f, l,
                      sample={"append": "extend(map)", "source": d[0], "map": list(d[1])})
            elif k == "extend_from_slice":
                ok = d == row_name
                ck.ob(R, "cycle_endpoint|row-digits", ok, "row digits are appended from `%s`, not from the row slice" % d, f, l,
                      sample={"append": "extend_from_slice", "source": d})
            else:
                ck.ob(R, "cycle_endpoint|other-append %s" % k, False, "unexpected mutation `%s` of the result" % k, f, l)
        if not pushes:
            # nothing appended in cycle_endpoint itself: the assembly was moved out of the function; say so instead of claiming a violation
            ck.ob(R, "cycle_endpoint|append-sites", False, "the statements that append to cycle_endpoint's result were not found in the function (anchor lost)", bd.file, bd.line)
        else:
            ck.ob(R, "cycle_endpoint|append-sites", len(pushes) == 4, "expected 2 '$' pushes, the column and the row, found %s" % kinds, bd.file, bd.line)
    analyse(bd, res, col_n, row_n)


def char_units(ck, F, rule="CHAR-UNITS"):
    """The formula lexer indexes a Vec<char>: `position` counts characters.  No byte length (`str::len`, `String::len`)
    of a non-literal string flows into a write of Lexer.position -- localized names (#ÜBERLAUF!, #¡REF!) are not ASCII;
    lengths of ASCII literals are the same in both units."""
    from mir import op_place, place_proj, const_str
    LEXER = "ironcalc_base::expressions::lexer::Lexer"
    n = 0
    for path in sorted(F.body_paths()):
        h = F.heads[path]
        if h.get("impl_adt") != LEXER:
            continue
        b = F.body(path)
        # locals feeding a store to Lexer.position
        work = []
        for bi, si, s in b.stmts():
            if not place_proj(s["p"]):
                continue
            rp = b.resolve_place(s["p"])
            fs = [e for e in place_proj(rp) if e[0] == "f"]
            if fs and (fs[-1][3], fs[-1][2]) == (LEXER, "position"):
                from mir import rvalue_operands
                for o in rvalue_operands(s["rv"]):
                    q = op_place(o)
                    if q is not None:
                        work.append(q["l"])
        if not work:
            continue
        seen = set()
        byte_lens = []
        while work:
            l = work.pop()
            if l in seen or 1 <= l <= b.nargs:
                continue
            seen.add(l)
            for bi, si in b.defs().get(l, []):
                if si == "t":
                    t = b.blocks[bi]["t"]
                    q = b.callee_q(t) or ""
                    last = q.rsplit("::", 1)[-1]
                    if last == "len" and ("str" in q or "string::String" in q) and "slice" not in q and "vec" not in q:
                        byte_lens.append((bi, t))
                        continue
                    if q.startswith("ironcalc_base::"):
                        continue
                    for a in t["args"]:
                        pa = op_place(a)
                        if pa is not None:
                            work.append(pa["l"])
                else:
                    from mir import rvalue_operands
                    rv = b.blocks[bi]["s"][si]["rv"]
                    for o in rvalue_operands(rv):
                        pa = op_place(o)
                        if pa is not None:
                            work.append(pa["l"])
                    if rv["k"] in ("ref", "rawptr"):
                        work.append(rv["p"]["l"])
        qn = b.qname.split("::", 1)[-1]
        n += 1
        ck.ob(rule, "%s|position-writes" % qn, True, sample={"fn": qn, "byte_lengths_in_slice": len(byte_lens)})
        k = 0
        for bi, t in byte_lens:
            k += 1
            r = b.trace(t["args"][0]) if t["args"] else {"kind": "unknown"}
            lit = const_str(r["const"]) if r["kind"] == "const" and isinstance(r.get("const"), dict) and "s" in r["const"] else None
            if lit is None and t["args"]:
                from rules_panic import _const_str
                lit = _const_str(b, t["args"][0])
            ok = lit is not None and all(ord(c) < 128 for c in lit)
            f, l = b.loc(bi)
            ck.ob(rule, "%s|byte-length#%d" % (qn, k), ok,
                  "%s advances `position` (a character index) by the byte length of a string that is not an ASCII literal: a localized "
                  "name with non-ASCII letters makes the lexer skip characters after it" % qn, f, l, sample={"fn": qn, "literal": lit})
    ck.note("lexer_bodies_writing_position", n)


def error_window(ck, F, rule="TABLE-errors"):
    """The lexer matches an error literal against everything that is left of the input: in Lexer::consume_error the text
    tested with starts_with(errors.*) is sliced up to `self.len`, not to a fixed window -- the localized names are data
    (#ÜBERLAUF! has 10 characters, #¿NOMBRE? 9) and any constant cap silently drops the longer ones."""
    from mir import op_place, place_proj
    from rules_attr import sources
    LEXER = "ironcalc_base::expressions::lexer::Lexer"
    b = ck.need(F.one, "expressions::lexer::Lexer::consume_error")
    sl = []
    for bi, t in b.calls():
        if (b.callee_q(t) or "").rsplit("::", 1)[-1] == "index" and len(t["args"]) == 2 and "Range" in (b.locals[op_place(t["args"][1])["l"]] if op_place(t["args"][1]) else ""):
            r = b.trace(t["args"][1])
            if r["kind"] == "rv" and r["rv"]["k"] == "agg":
                ops = dict(zip(r["rv"].get("fields") or [], r["rv"]["ops"]))
                if "end" in ops:
                    sl.append((bi, sources(b, ops["end"])))
    ck.ob(rule, "consume_error|window-slice", len(sl) >= 1, "consume_error: slice of the remaining input not found", b.file, b.line)
    for bi, sr in sl:
        f, l = b.loc(bi)
        ok = ("field", LEXER, "len") in sr and not any(x[0] in ("const", "arith", "call") for x in sr)
        ck.ob(rule, "consume_error|matches against the whole rest of the input", ok,
              "consume_error compares error names with a window whose end comes from %s: a localized error name longer than the window "
              "is never recognised" % sorted(map(str, sr)), f, l)


# ------------------------------------------------------------------------------------------------ NAME-CASE (C17, C32)
NAME_CASE_EXCEPT = {
    ("Model::update_defined_name", "ne"): "`new_name != df.name` decides whether the spelling changed (then every formula is rewritten with the new "
                                          "spelling); an exact comparison is what that question needs",
}


def defined_name_case(ck, F, rule="NAME-CASE"):
    """Defined names are one name whatever their letter case: the evaluator keys them by `name.to_lowercase()`.  So every
    equality test in the crate that involves a stored DefinedName.name either folds the case of both sides or is
    eq_ignore_ascii_case -- a test by exact spelling lets `RATE` and `Rate` coexist where the lookup table has one slot."""
    from rules_attr import sources
    DN = "ironcalc_base::types::DefinedName"
    FOLD = ("to_lowercase", "to_uppercase", "to_ascii_lowercase", "to_ascii_uppercase")
    n = 0
    for path in sorted(F.body_paths()):
        h = F.heads[path]
        if h["crate"] != "ironcalc_base" or "/test" in h["file"] or h.get("impl_trait") or "DefinedName" not in F._raw.get(path, ""):
            continue
        b = F.body(path)
        qn = b.qname.split("::", 2)[-1]
        root = qn.split("::{closure")[0]
        k = 0
        for bi, t in b.calls():
            last = (b.callee_q(t) or "").rsplit("::", 1)[-1]
            if last not in ("eq", "ne", "eq_ignore_ascii_case") or len(t["args"]) < 2:
                continue
            srs = [sources(b, a) for a in t["args"][:2]]
            if not any(any(x[0] == "field" and x[1] == DN and x[2] == "name" for x in sr) for sr in srs):
                continue
            folded = all(any(x[0] == "call" and x[1].rsplit("::", 1)[-1] in FOLD for x in sr) for sr in srs)
            ok = last == "eq_ignore_ascii_case" or folded
            k += 1
            n += 1
            f, l = b.loc(bi)
            if not ok and (root, last) in NAME_CASE_EXCEPT:
                ck.ob(rule, "%s|%s#%d" % (root, last, k), True, NAME_CASE_EXCEPT[(root, last)], nontrivial=False)
                continue
            ck.ob(rule, "%s|%s#%d" % (root, last, k), ok,
                  "%s compares a stored defined name by exact spelling (%s): names that differ only in letter case are treated as different "
                  "here but share one entry in the evaluator's table (keyed by to_lowercase)" % (root, last), f, l, sample={"fn": root, "op": last})
    ck.ob(rule, "sites", n >= 5, "only %d comparisons of DefinedName.name found (anchor lost?)" % n)


def orphan_names_skipped(ck, F, rule="NAMES"):
    """A sheet-scoped defined name whose sheet no longer exists does not become a workbook-scoped one: in
    Model::parse_defined_names the result of get_sheet_index_by_sheet_id is tested, and from its `None` arm the insertion
    into the table of parsed names cannot be reached within the same iteration (the name is skipped).  Otherwise the orphan is
    entered under scope None and shadows a global name of the same spelling."""
    from mir import loop_header_of, place_proj
    b = ck.need(F.one, "Model::parse_defined_names")
    look = [(bi, t) for bi, t in b.calls() if (b.callee_q(t) or "").endswith("get_sheet_index_by_sheet_id")]
    ins = [bi for bi, t in b.calls() if (b.callee_q(t) or "").endswith("HashMap<K, V, S>::insert") or (b.callee_q(t) or "").endswith("::insert")]
    ck.ob(rule, "parse_defined_names|sheet lookup tested in the loop", len(look) == 1 and bool(ins),
          "parse_defined_names does not test the result of get_sheet_index_by_sheet_id itself (it is resolved somewhere the loop cannot `continue` "
          "from): a name scoped to a deleted sheet is entered with scope None, as if it were global", b.file, b.line)
    if len(look) != 1 or not ins:
        return
    lb, lt = look[0]
    hdr = loop_header_of(b, lb)
    none_targets = []
    for sb in range(len(b.blocks)):
        info = b.switch_targets_by_variant(sb)
        if not info:
            continue
        tt = b.term(sb)
        tr = b.trace(tt["o"]) if tt["k"] == "switch" else {"kind": "?"}
        if tr["kind"] == "rv" and tr["rv"]["k"] == "discr" and not place_proj(lt["dest"]) and tr["rv"]["p"]["l"] == lt["dest"]["l"]:
            if "None" in info:
                none_targets.append(info["None"])
            elif "Some" in info and info.get(None) is not None:
                none_targets.append(info[None])      # `if let Some(..)`: the other variant is the otherwise edge
    ck.ob(rule, "parse_defined_names|lookup result matched", len(none_targets) >= 1, "the Option returned by get_sheet_index_by_sheet_id is never matched", *b.loc(lb))
    for k, tN in enumerate(none_targets, 1):
        reach = b.reachable_from(tN, avoid={hdr} if hdr is not None else ())
        bad = [i for i in ins if i in reach or i == tN]
        f, l = b.loc(tN)
        ck.ob(rule, "parse_defined_names|unknown sheet id skips the name#%d" % k, not bad,
              "parse_defined_names reaches the insertion of the parsed name from the branch where the sheet id was not found: a name scoped to a "
              "deleted sheet is registered anyway (with scope None it shadows the global name of the same spelling)", f, l)
