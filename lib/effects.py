"""Whole-program summaries: call graph (closures included) and type-based write effects.

A write effect is a pair (ADT path, field name):
  * an assignment / call destination / SetDiscriminant whose place has a field projection -> the last
    field projection's (owner ADT, field);
  * an assignment through a deref without field projection (`*cell = ..`) -> (pointee ADT, '*');
  * `&mut place` (taken to be handed to a callee or stored) -> same rule on `place`.
Summaries are the transitive union over the call graph.  Over-approximate (a `get_mut` that only
reads counts), never under-approximate within the analysed crates."""
import json
import os
import pickle
import re

from facts import strip_generics
from mir import place_proj


def _pointee_adt(ty):
    t = ty
    while True:
        t = t.strip()
        if t.startswith("&"):
            t = t[1:].lstrip()
            if t.startswith("'"):
                t = t.split(" ", 1)[1] if " " in t else t
            if t.startswith("mut "):
                t = t[4:]
            continue
        if t.startswith("*mut ") or t.startswith("*const "):
            t = t.split(" ", 1)[1]
            continue
        if t.startswith("std::boxed::Box<"):
            t = t[len("std::boxed::Box<"):-1]
            continue
        break
    m = re.match(r"^([A-Za-z_][\w:]*)", t)
    return m.group(1) if m else None


NAV = {"get_mut", "iter_mut", "index_mut", "deref_mut", "as_mut", "as_mut_slice", "values_mut", "last_mut",
       "first_mut", "as_deref_mut", "borrow_mut", "into_iter", "split_at_mut", "chunks_mut", "get_many_mut",
       "as_mut_ptr"}
SLICE_NAV = {"deref_mut", "as_mut_slice", "as_mut", "borrow_mut", "as_deref_mut"}


class BodyIndex:
    """Def/use index over a raw body record (dict)."""

    def __init__(self, rec):
        self.rec = rec
        self.defs = {}
        self.uses = {}
        for bi, b in enumerate(rec["blocks"]):
            if b["t"].get("cleanup"):
                continue
            for si, s in enumerate(b["s"]):
                p = s["p"]
                if not place_proj(p):
                    self.defs.setdefault(p["l"], []).append((bi, si))
                else:
                    self.uses.setdefault(p["l"], []).append((bi, si, "lhs"))
                rv = s["rv"]
                for q in _rv_places(rv):
                    self.uses.setdefault(q["l"], []).append((bi, si, "rv"))
            t = b["t"]
            if t["k"] == "call":
                if not place_proj(t["dest"]):
                    self.defs.setdefault(t["dest"]["l"], []).append((bi, "t"))
                else:
                    self.uses.setdefault(t["dest"]["l"], []).append((bi, "t", "lhs"))
                for i, a in enumerate(t["args"]):
                    q = a.get("c") or a.get("m")
                    if q is not None:
                        self.uses.setdefault(q["l"], []).append((bi, "t", i))
            elif t["k"] in ("switch", "assert"):
                for a in ([t["o"]] if t["k"] == "switch" else [t["cond"]] + t["ops"]):
                    q = a.get("c") or a.get("m")
                    if q is not None:
                        self.uses.setdefault(q["l"], []).append((bi, "t", "read"))

    def single_def_rv(self, l):
        d = self.defs.get(l, [])
        if len(d) != 1:
            return None
        bi, si = d[0]
        if si == "t":
            return {"k": "call", "t": self.rec["blocks"][bi]["t"]}
        return self.rec["blocks"][bi]["s"][si]["rv"]

    def resolve(self, p, limit=12):
        """Rewrite a place rooted at a single-def `&`/`&mut`/copy temp into one rooted at the borrowed place."""
        cur = p
        nargs = self.rec["nargs"]
        for _ in range(limit):
            l = cur["l"]
            if l <= nargs:
                return cur
            rv = self.single_def_rv(l)
            if rv is None or rv["k"] == "call":
                return cur
            if rv["k"] == "ref":
                inner = rv["p"]
                proj = list(place_proj(cur))
                if proj and proj[0][0] == "*":
                    proj = proj[1:]
                elif proj:
                    return cur
                cur = {"l": inner["l"], "p": list(place_proj(inner)) + proj}
                continue
            if rv["k"] == "use":
                ip = rv["o"].get("c") or rv["o"].get("m")
                if ip is None:
                    return cur
                cur = {"l": ip["l"], "p": list(place_proj(ip)) + list(place_proj(cur))}
                continue
            return cur
        return cur


def _rv_places(rv):
    k = rv["k"]
    ops = []
    if k in ("use", "repeat", "cast"):
        ops = [rv["o"]]
    elif k == "bin":
        ops = [rv["a"], rv["b"]]
    elif k == "un":
        ops = [rv["a"]]
    elif k == "agg":
        ops = rv["ops"]
    out = []
    for o in ops:
        q = o.get("c") or o.get("m")
        if q is not None:
            out.append(q)
    if k in ("ref", "rawptr", "discr"):
        out.append(rv["p"])
    return out


def place_effect(rec, p, adts=None, idx=None):
    """(owner ADT, field) written when something is stored to / through place p."""
    if idx is not None:
        p = idx.resolve(p)
    proj = place_proj(p)
    if not any(e[0] == "*" for e in proj):
        # a by-value local (or a field of one): stack state, not reachable from the workbook
        return None
    last = None
    for e in proj:
        if e[0] == "f" and e[3] and e[3] != "tuple" and not e[3].startswith("closure:"):
            if adts is None or (e[3] in adts and adts[e[3]].get("local")):
                last = e
    if last is not None:
        return (last[3], last[2] if last[2] is not None else str(last[1]))
    if any(e[0] == "*" for e in proj):
        adt = _pointee_adt(rec["locals"][p["l"]])
        if adt and "::" in adt and (adts is None or (adt in adts and adts[adt].get("local"))):
            return (adt, "*")
    return None


def _field_info(adts, owner, fname):
    a = adts.get(owner) if adts else None
    if not a:
        return None
    for v in a["variants"]:
        for f in v["fields"]:
            if f["name"] == fname:
                return f
    return None


def _callee_name(t):
    f = t["fn"]
    c = f.get("r") or f.get("d") or ""
    return strip_generics(c), bool(f.get("local"))


def mutref_writes(rec, idx, adts, tmp, owner_field, depth=0, seen=None):
    """Does the `&mut` held in local `tmp` (borrowed from owner_field) get used to mutate in place?"""
    if seen is None:
        seen = set()
    if tmp in seen or depth > 6:
        return False
    seen.add(tmp)
    fi = _field_info(adts, *owner_field)
    elem_tracked = bool(fi and any(x in adts and adts[x].get("local") for x in fi.get("adts", [])))
    is_local_adt_field = bool(fi and _pointee_adt(fi["ty"]) in adts and adts[_pointee_adt(fi["ty"])].get("local")) if fi else False
    for (bi, si, role) in idx.uses.get(tmp, []):
        blk = rec["blocks"][bi]
        if si == "t":
            t = blk["t"]
            if t["k"] != "call" or role in ("lhs", "read"):
                continue
            name, local = _callee_name(t)
            last = name.rsplit("::", 1)[-1]
            if local:
                # a local callee receiving `&mut T` of a local ADT: its writes are tracked by type
                if is_local_adt_field and depth == 0:
                    continue
                return True
            if last in NAV:
                if last in SLICE_NAV and not place_proj(t["dest"]):
                    if mutref_writes(rec, idx, adts, t["dest"]["l"], owner_field, depth + 1, seen):
                        return True
                    continue
                if elem_tracked:
                    continue
                return True
            return True
        s = blk["s"][si]
        if role == "lhs":
            # assignment through the reference: covered by place_effect when it resolves to a local-ADT field;
            # otherwise it is a store into the borrowed field itself
            e = place_effect(rec, s["p"], adts, idx)
            if e is None:
                return True
            continue
        rv = s["rv"]
        if rv["k"] in ("ref", "rawptr"):
            if rv.get("mut") and not place_proj(s["p"]):
                if mutref_writes(rec, idx, adts, s["p"]["l"], owner_field, depth + 1, seen):
                    return True
            continue
        if rv["k"] in ("use", "cast") and not place_proj(s["p"]):
            o = rv["o"]
            q = o.get("c") or o.get("m")
            if q is not None and q["l"] == tmp and not place_proj(q):
                if mutref_writes(rec, idx, adts, s["p"]["l"], owner_field, depth + 1, seen):
                    return True
            continue
        if rv["k"] == "agg":
            # stored into a struct/closure: assume it is used to mutate
            return True
    return False


def block_effects(rec, adts=None):
    """{block index: [((adt, field), line)]} direct write effects per block."""
    out = {}
    idx = BodyIndex(rec)
    for bi, b in enumerate(rec["blocks"]):
        if b["t"].get("cleanup"):
            continue
        for s in b["s"]:
            if place_proj(s["p"]):
                e = place_effect(rec, s["p"], adts, idx)
                if e is not None:
                    out.setdefault(bi, []).append((e, s.get("line", 0)))
            rv = s["rv"]
            if rv["k"] in ("ref", "rawptr") and rv.get("mut") and not place_proj(s["p"]):
                e = place_effect(rec, rv["p"], adts, idx)
                if e is not None and e[1] != "*":
                    if mutref_writes(rec, idx, adts or {}, s["p"]["l"], e):
                        out.setdefault(bi, []).append((e, s.get("line", 0)))
        t = b["t"]
        if t["k"] == "call" and place_proj(t["dest"]):
            e = place_effect(rec, t["dest"], adts, idx)
            if e is not None:
                out.setdefault(bi, []).append((e, t.get("line", 0)))
    return out


def direct_effects(rec, adts=None):
    eff = {}
    for bi, es in block_effects(rec, adts).items():
        for e, line in es:
            if e not in eff:
                eff[e] = line
    return eff


class Program:
    """Call graph + effects for every local body. Cached per facts directory."""

    def __init__(self, facts):
        self.facts = facts
        cache = os.path.join(facts.dir, "program.v3.pickle")
        data = None
        if os.path.exists(cache):
            try:
                data = pickle.load(open(cache, "rb"))
            except Exception:
                data = None
        if data is None:
            data = self._build()
            tmp = cache + ".%d" % os.getpid()
            pickle.dump(data, open(tmp, "wb"))
            os.replace(tmp, cache)
        self.direct = data["direct"]      # path -> {(adt, field): line}
        self.edges = data["edges"]        # path -> set(local callee paths)
        self.foreign = data["foreign"]    # path -> set(foreign callee qnames)
        self.unresolved = data["unresolved"]  # path -> set(declared callee)
        self._trans = {}
        self._reach = {}

    def _build(self):
        F = self.facts
        direct, edges, foreign, unresolved = {}, {}, {}, {}
        for path in F.body_paths():
            rec = json.loads(F._raw[path])
            direct[path] = direct_effects(rec, F.adts)
            es, fs, us = set(), set(), set()
            for c in F.calls.get(path, []):
                if c.startswith("ref:"):
                    c = c[4:]
                elif c.startswith("closure:"):
                    c = c[8:]
                elif c.startswith("unresolved:"):
                    us.add(strip_generics(c[11:]))
                    continue
                if c in F.heads:
                    es.add(c)
                else:
                    fs.add(strip_generics(c))
            edges[path] = es
            foreign[path] = fs
            unresolved[path] = us
        return {"direct": direct, "edges": edges, "foreign": foreign, "unresolved": unresolved}

    def reachable(self, path):
        """Set of local body paths reachable from `path` (inclusive) via calls, closure creation and fn refs."""
        r = self._reach.get(path)
        if r is not None:
            return r
        seen = set()
        st = [path]
        while st:
            x = st.pop()
            if x in seen:
                continue
            seen.add(x)
            st.extend(self.edges.get(x, ()))
        self._reach[path] = seen
        return seen

    def effects(self, path):
        """Transitive write effects: {(adt, field): witness path (the body that writes it directly)}."""
        r = self._trans.get(path)
        if r is not None:
            return r
        out = {}
        for p in self.reachable(path):
            for e in self.direct.get(p, {}):
                if e not in out:
                    out[e] = p
        self._trans[path] = out
        return out

    def callers_of(self, target_paths):
        tp = set(target_paths)
        return [p for p, es in self.edges.items() if es & tp]

    def reaches(self, path, target_paths):
        return bool(self.reachable(path) & set(target_paths))

    def foreign_reached(self, path):
        out = set()
        for p in self.reachable(path):
            out |= self.foreign.get(p, set())
        return out


def adt_closure(facts, root, skip_fields=()):
    """ADT paths reachable from `root` through field types. skip_fields: set of (adt, field)."""
    seen = set()
    st = [root]
    while st:
        a = st.pop()
        if a in seen:
            continue
        seen.add(a)
        rec = facts.adts.get(a)
        if not rec or not rec.get("local"):
            continue
        for v in rec["variants"]:
            for f in v["fields"]:
                if (a, f["name"]) in skip_fields:
                    continue
                for x in f.get("adts", []):
                    if x not in seen:
                        st.append(x)
    return seen
