"""FIN (C08): every construction of a stored number is dominated by a finite guard, is a literal, or
copies an already stored number. Wrappers move the obligation to their call sites."""
from mir import op_place, place_proj, place_str, const_float, const_int

SINKS = {
    ("ironcalc_base::types::FormulaValue", "Number"),
    ("ironcalc_base::types::SpillValue", "Number"),
    ("ironcalc_base::types::Cell", "NumberCell"),
}
STORED_FIELD_OWNERS = {"ironcalc_base::types::FormulaValue", "ironcalc_base::types::SpillValue", "ironcalc_base::types::Cell"}
GUARDS = {"is_nan": "nan", "is_infinite": "inf", "is_finite": "fin"}


def _root(body, op):
    """Canonical description of where an f64 operand comes from."""
    r = body.trace(op)
    if r["kind"] == "const":
        return ("const", r["const"].get("v", r["const"].get("d")))
    if r["kind"] == "arg":
        return ("arg", r["local"])
    if r["kind"] == "place":
        p = body.resolve_place(r["place"])
        return ("place", place_str(p, body), p)
    if r["kind"] == "call":
        return ("call", body.callee_q(r["t"]), r["bi"])
    if r["kind"] == "rv":
        return ("rv", r["rv"]["k"])
    return ("?",)


def _guards(body):
    """[(kind, call block, true target, false target, root)] for f64::is_nan / is_infinite / is_finite tests."""
    out = []
    for bi, t in body.calls():
        q = body.callee_q(t) or ""
        last = q.rsplit("::", 1)[-1]
        if last not in GUARDS or "f64" not in q:
            continue
        if place_proj(t["dest"]):
            continue
        res = t["dest"]["l"]
        root = _root(body, t["args"][0])
        # find the switch consuming the result
        for sb, blk in enumerate(body.blocks):
            tt = blk["t"]
            if tt["k"] != "switch" or tt["ty"] != "bool":
                continue
            src = body.trace(tt["o"])
            neg = False
            if src["kind"] == "rv" and src["rv"]["k"] == "un" and src["rv"]["op"] == "Not":
                neg = True
                src = body.trace(src["rv"]["a"])
            if src["kind"] == "call" and src["bi"] == bi:
                zero = [b for v, b in tt["targets"] if v == "0"]
                f_t = zero[0] if zero else None
                t_t = tt["otherwise"]
                if neg:
                    f_t, t_t = t_t, f_t
                out.append((GUARDS[last], sb, t_t, f_t, root))
    return out


def _guarded(body, cons_block, root):
    """Is the construction block protected against NaN and +-inf of `root`?"""
    excl = set()
    for kind, sb, t_t, f_t, groot in _guards(body):
        if groot[:2] != root[:2]:
            continue
        if not body.dominates(sb, cons_block):
            continue
        bad_edge = f_t if kind == "fin" else t_t
        if bad_edge is None:
            continue
        # the construction must not be reachable from the failing edge without going back through the test
        if cons_block in body.reachable_from(bad_edge, avoid={sb}):
            continue
        if kind == "fin":
            excl |= {"nan", "inf"}
        else:
            excl.add(kind)
    return excl >= {"nan", "inf"}


def _returns_finite(F, path):
    b = F.body(path)
    if b is None:
        return False
    defs = [(bi, si, s) for bi, si, s in b.stmts() if s["p"]["l"] == 0 and not place_proj(s["p"])]
    calls = [bi for bi, t in b.calls() if t["dest"]["l"] == 0]
    if calls or not defs:
        return False
    for bi, si, s in defs:
        rv = s["rv"]
        if rv["k"] != "use":
            return False
        root = _root(b, rv["o"])
        if root[0] == "const":
            continue
        if _guarded(b, bi, root):
            continue
        return False
    return True


def fin_rule(ck, F, P):
    R = "FIN"
    n_sites = 0
    wrappers = {}  # path -> (arg index, description)

    def examine(body, bi, op, what, depth=0):
        """Obligation for one f64 (or number-carrying) operand flowing into a sink."""
        nonlocal n_sites
        root = _root(body, op)
        f, l = body.loc(bi)
        key = "%s|%s" % (body.qname.split("::", 1)[-1], what)
        if root[0] == "const":
            ck.ob(R, key + "|literal", True, sample={"site": key, "discharge": "literal " + str(root[1])})
            return
        if root[0] == "place":
            owners = [e[3] for e in place_proj(root[2]) if e[0] == "f"]
            if owners and owners[-1] in STORED_FIELD_OWNERS:
                ck.ob(R, key + "|copy-of-stored", True, sample={"site": key, "discharge": "copied from " + root[1]})
                return
        if root[0] == "call":
            # a local f64-returning function all of whose returned values are themselves discharged
            cb = body.blocks[root[2]]["t"]
            cpath = cb["fn"].get("r")
            if cpath in F.heads and F.heads[cpath].get("output") == "f64" and _returns_finite(F, cpath):
                ck.ob(R, key + "|finite-returning-callee", True,
                      sample={"site": key, "discharge": "callee %s only returns literals or finite-guarded values" % root[1]})
                return
        if _guarded(body, bi, root):
            ck.ob(R, key + "|guarded", True, sample={"site": key, "discharge": "dominating is_nan/is_infinite/is_finite test on " + str(root[1])})
            return
        if root[0] == "arg" and depth < 3:
            # wrapper: obligation moves to the callers
            argi = root[1] - 1
            callers = []
            for p2 in P.callers_of([body.path]):
                b2 = F.body(p2)
                for cb, t in b2.calls():
                    if (t["fn"].get("r") == body.path or t["fn"].get("closure") == body.path) and len(t["args"]) > argi:
                        callers.append((b2, cb, t))
            ck.ob(R, key + "|wrapper", True, "obligation moved to %d call sites" % len(callers), nontrivial=False)
            seen = {}
            for b2, cb, t in callers:
                k = b2.qname
                seen[k] = seen.get(k, 0) + 1
                examine(b2, cb, t["args"][argi], "%s#%d<-%s" % (body.name, seen[k], what.split("<-")[0]), depth + 1)
            if not callers:
                # public entry point with an unguarded f64 parameter
                h = F.heads[body.path]
                ck.ob(R, key + "|public-unguarded", h.get("vis") != "pub",
                      "%s takes an f64 from its caller and stores it without a finite check" % body.qname, f, l)
            elif F.heads[body.path].get("vis") == "pub" and F.heads[body.path].get("impl_adt", "").endswith(("model::Model", "types::Worksheet")):
                ck.ob(R, key + "|public-api-unguarded", False,
                      "public %s stores its f64 argument without a finite check (API callers can store NaN/inf)" % body.qname, f, l)
            return
        ck.ob(R, key + "|unguarded", False,
              "number stored from %s without a dominating finite check" % (root[1] if len(root) > 1 else root[0]), f, l,
              sample={"site": key, "source": str(root[1]) if len(root) > 1 else root[0]})

    # number-carrying wrapper types: ArrayNode -> FormulaValue/SpillValue
    for path in sorted(F.body_paths()):
        h = F.heads[path]
        raw = F._raw[path]
        if '"variant":"Number"' not in raw and '"variant":"NumberCell"' not in raw:
            continue
        if h.get("impl_trait") in ("std::clone::Clone", "bitcode::__private::Decoder") or "Decoder" in h.get("qname", ""):
            continue
        body = F.body(path)
        k = 0
        for bi, si, s in body.stmts():
            rv = s["rv"]
            if rv["k"] == "agg" and rv.get("agg") == "adt" and (rv["adt"], rv["variant"]) in SINKS:
                n_sites += 1
                k += 1
                examine(body, bi, rv["ops"][0], "%s::%s#%d" % (rv["adt"].rsplit("::", 1)[-1], rv["variant"], k))
    ck.note("construction_sites", n_sites)
