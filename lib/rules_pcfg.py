"""Parser configuration typestate (PCFG), English storage discipline (STORE-EN), language/locale footprint
(FOOTPRINT): C10, and its restrictions for C17 / C32."""
from effects import Program
from mir import op_place, place_proj
from rules_attr import sources

MODEL = "ironcalc_base::model::Model"
PARSER = "ironcalc_base::expressions::parser::Parser"
WORKSHEET = "ironcalc_base::types::Worksheet"
DEFINED_NAME = "ironcalc_base::types::DefinedName"
INIT = ("A1", "active", "active")

STORED_TEXT = {
    (WORKSHEET, "shared_formulas"): ("R1C1", "default", "default"),
    (DEFINED_NAME, "formula"): ("A1", "default", "default"),
}


# Model methods whose text argument is, by contract, formula text in the storage form (callers pass DefinedName.formula,
# CfRule formulas, names copied by duplicate_sheet): every parse inside them needs the storage configuration
INTERNAL_TEXT_HELPERS = {"parse_internal_formula": ("A1", "default", "default")}


def _is_model_parser(body, op):
    rt = body.ref_target(op)
    if rt is None:
        return False
    fs = [e for e in place_proj(rt) if e[0] == "f"]
    return bool(fs) and fs[-1][2] == "parser" and fs[-1][3] == MODEL


def _setter_value(body, t, kind):
    """Abstract value installed by a set_locale / set_language / set_lexer_mode call."""
    arg = t["args"][1]
    if kind == "mode":
        r = body.trace(arg)
        if r["kind"] == "rv" and r["rv"]["k"] == "agg":
            return r["rv"].get("variant")
        if r["kind"] == "const":
            d = str(r["const"].get("v", r["const"].get("d")))
            return "R1C1" if "R1C1" in d else "A1" if "A1" in d else "?"
        return "?"
    sr = sources(body, arg)
    calls = {x[1].rsplit("::", 1)[-1] for x in sr if x[0] == "call"}
    if calls & {"get_default_locale", "get_default_language"}:
        return "default"
    fields = {(x[1], x[2]) for x in sr if x[0] == "field"}
    if fields and all(f in ((MODEL, "locale"), (MODEL, "language")) for f in fields) and not calls:
        return "active"
    return "other"


def config_flow(body):
    """Forward may-analysis of the Model.parser configuration. Returns {block: set(states at entry)} and the
    list of parse sites [(block, term, states)]."""
    n = len(body.blocks)
    IN = {0: {INIT}}
    work = [0]

    def transfer(bi, states):
        t = body.term(bi)
        if t["k"] != "call" or not t["args"]:
            return states
        q = body.callee_q(t) or ""
        if not q.startswith(PARSER + "::set_"):
            return states
        if not _is_model_parser(body, t["args"][0]):
            return states
        out = set()
        for (m, lo, la) in states:
            if q.endswith("::set_lexer_mode"):
                out.add((_setter_value(body, t, "mode"), lo, la))
            elif q.endswith("::set_locale"):
                out.add((m, _setter_value(body, t, "locale"), la))
            elif q.endswith("::set_language"):
                out.add((m, lo, _setter_value(body, t, "language")))
            else:
                out.add((m, lo, la))
        return out

    while work:
        b = work.pop()
        st = IN.get(b, set())
        out = transfer(b, st)
        for s in body.succs(b):
            cur = IN.get(s, set())
            new = cur | out
            if new != cur:
                IN[s] = new
                work.append(s)
    sites = []
    for bi, t in body.calls():
        q = body.callee_q(t) or ""
        if q == PARSER + "::parse" and t["args"] and _is_model_parser(body, t["args"][0]):
            sites.append((bi, t, IN.get(bi, set())))
    return IN, sites


CF_RULE = "ironcalc_base::cf_types::CfRule"
CF_FIELD = ("ironcalc_base::types::ConditionalFormatting", "cf_rule")
# formulas inside conditional-format rules are stored in A1 style, English
STORED_HELPER_TEXT = {CF_RULE: ("A1", "default", "default")}


def lent_parser_sites(body, F, P, IN):
    """Calls that lend the model's parser to a local helper which (transitively) calls Parser::parse, with another
    argument of a type that carries stored formula text: [(block, term, states, carrier type)]"""
    parse = set(F.find(PARSER + "::parse")) or {p for p in F.heads if p.endswith("expressions::parser::Parser::parse")}
    out = []
    for bi, t in body.calls():
        c = body.callee(t)
        if c not in F.heads or (body.callee_q(t) or "").startswith(PARSER + "::"):
            continue
        if not any(_is_model_parser(body, a) for a in t["args"]):
            continue
        if not P.reaches(c, parse):
            continue
        cb = F.body(c)
        carrier = None
        for i in range(1, cb.nargs + 1):
            ty = cb.locals[i]
            for k in STORED_HELPER_TEXT:
                if ty.replace("&", "").strip().startswith(k):
                    carrier = k
        out.append((bi, t, IN.get(bi, set()), carrier))
    return out


def pcfg(ck, F, only=None):
    """PCFG: at every Parser::parse on the model's parser whose text comes from stored formula text the
    configuration is the one that text was printed in; every function restores (A1, active, active)."""
    R = "PCFG"
    n_sites = 0
    P = Program(F)
    for path in sorted(F.body_paths()):
        cs = F.calls.get(path, [])
        if not any(c.startswith(PARSER) and c.rsplit("::", 1)[-1] in ("parse", "set_lexer_mode", "set_locale", "set_language") for c in cs):
            continue
        h = F.heads[path]
        if h["crate"] != "ironcalc_base" or h.get("impl_adt") != MODEL:
            continue
        name = h["name"]
        if name in ("set_locale", "set_language"):
            continue  # the API that changes the active configuration itself (FOOTPRINT rule)
        if only and name not in only:
            continue
        body = F.body(path)
        IN, sites = config_flow(body)
        k = 0
        for bi, t, states in sites:
            sr = sources(body, t["args"][1])
            fields = {(x[1], x[2]) for x in sr if x[0] == "field"}
            req = None
            for fld, cfg in STORED_TEXT.items():
                if fld in fields:
                    req = (fld, cfg)
            k += 1
            n_sites += 1
            f, l = body.loc(bi)
            if req is None and name in INTERNAL_TEXT_HELPERS:
                # the function's contract: its text argument is stored (English, default locale) text
                req = (("helper", name), INTERNAL_TEXT_HELPERS[name])
            if req is None:
                ck.ob(R, "%s|parse#%d|user-text" % (name, k), True, nontrivial=False)
                continue
            fld, cfg = req
            bad = sorted(s for s in states if s != cfg)
            ck.ob(R, "%s|parse %s.%s|config" % (name, fld[0].rsplit("::", 1)[-1], fld[1]), not bad and bool(states),
                  "%s parses stored %s.%s text (written as %s) with the parser in configuration %s: in a non-English "
                  "language/locale the stored formula is misread and rewritten" % (name, fld[0].rsplit("::", 1)[-1], fld[1], "/".join(cfg), ["/".join(b) for b in bad]),
                  f, l, sample={"fn": name, "text": "%s.%s" % (fld[0].rsplit("::", 1)[-1], fld[1]), "required": "/".join(cfg), "states": ["/".join(s) for s in sorted(states)]})
        # the parser lent to a helper that parses stored rule formulas
        for bi, t, states, carrier in lent_parser_sites(body, F, P, IN):
            n_sites += 1
            f, l = body.loc(bi)
            hq = (body.callee_q(t) or "?").rsplit("::", 1)[-1]
            if carrier is None:
                ck.ob(R, "%s|lends parser to %s|no stored text" % (name, hq), True, nontrivial=False)
                continue
            cfg = STORED_HELPER_TEXT[carrier]
            bad = sorted(s for s in states if s != cfg)
            ck.ob(R, "%s|%s parses %s formulas|config" % (name, hq, carrier.rsplit("::", 1)[-1]), not bad and bool(states),
                  "%s lends the parser to %s, which parses formulas stored in %s (written as %s), in configuration %s: in a "
                  "non-English language/locale the stored formula is misread and left unchanged" % (name, hq, carrier.rsplit("::", 1)[-1], "/".join(cfg), ["/".join(b) for b in bad]),
                  f, l, sample={"fn": name, "helper": hq, "required": "/".join(cfg), "states": ["/".join(s) for s in sorted(states)]})
        # restored at every normal return
        for rb in body.return_blocks():
            st = IN.get(rb)
            if st is None:
                continue
            bad = sorted(s for s in st if s != INIT)
            f, l = body.loc(rb)
            ck.ob(R, "%s|exit|config-restored" % name, not bad,
                  "%s can return with the parser left in %s" % (name, ["/".join(b) for b in bad]), h["file"], h["line"],
                  sample={"fn": name, "exit_states": ["/".join(s) for s in sorted(st)]})
    ck.note("parse_sites", n_sites)


# ------------------------------------------------------------------------------------------------
PRINTERS_OK = {
    (WORKSHEET, "shared_formulas"): {"to_rc_format"},
    (DEFINED_NAME, "formula"): {"to_english_string", "user_formula_to_internal", "to_string_displaced", "displace_cf_formula_str"},
}


def store_en(ck, F):
    """STORE-EN: text written into Worksheet.shared_formulas comes from to_rc_format; text written into
    DefinedName.formula comes from an English printer, from user_formula_to_internal, or is copied from another
    stored formula - never from to_localized_string."""
    R = "STORE-EN"
    P = Program(F)
    n = 0
    for path in sorted(F.body_paths()):
        h = F.heads[path]
        if h["crate"] != "ironcalc_base":
            continue
        raw = F._raw[path]
        if '"shared_formulas"' not in raw and '"formula"' not in raw:
            continue
        body = F.body(path)
        qn = body.qname.split("::", 1)[-1]
        # (a) assignments / aggregates storing the field
        for bi, si, s in body.stmts():
            rv = s["rv"]
            targets = []
            if rv["k"] == "agg" and rv.get("agg") == "adt" and rv["adt"] == DEFINED_NAME:
                ops = dict(zip(rv["fields"], rv["ops"]))
                targets.append(((DEFINED_NAME, "formula"), ops["formula"]))
            elif place_proj(s["p"]) and rv["k"] == "use":
                p = body.resolve_place(s["p"], through_named=True)
                fs = [e for e in place_proj(p) if e[0] == "f"]
                if fs and (fs[-1][3], fs[-1][2]) in PRINTERS_OK and any(e[0] == "*" for e in place_proj(p)):
                    targets.append(((fs[-1][3], fs[-1][2]), rv["o"]))
            for fld, op in targets:
                if h.get("impl_trait"):
                    continue
                n += 1
                _check_stored(ck, F, body, bi, si, fld, op, qn)
        # (b) Vec::push onto shared_formulas
        for bi, t in body.calls_to("std::vec::Vec::push"):
            rt = body.ref_target(t["args"][0])
            if rt is None:
                continue
            fs = [e for e in place_proj(rt) if e[0] == "f"]
            if fs and (fs[-1][3], fs[-1][2]) == (WORKSHEET, "shared_formulas"):
                n += 1
                _check_stored(ck, F, body, bi, "t", (WORKSHEET, "shared_formulas"), t["args"][1], qn)
    ck.note("stores", n)


def _vec_push_sources(body, op):
    """If op is a local Vec built by pushes, the union of the sources of everything pushed onto it."""
    out = set()
    r = body.trace(op)
    base = None
    pl = op_place(op)
    if pl is not None:
        rp = body.resolve_place(pl, through_named=True)
        if not place_proj(rp):
            base = rp["l"]
    if r["kind"] == "place" and not place_proj(r["place"]):
        base = r["place"]["l"]
    cands = {base} if base is not None else set()
    # follow `x = move y` chains backwards
    for _ in range(4):
        for l in list(cands):
            rv = body.def_rvalue(l)
            if rv is not None and rv["k"] == "use" and op_place(rv["o"]) is not None and not place_proj(op_place(rv["o"])):
                cands.add(op_place(rv["o"])["l"])
    for bi, t in body.calls_to("std::vec::Vec::push"):
        rt = body.ref_target(t["args"][0])
        if rt is not None and not place_proj(rt) and rt["l"] in cands:
            out |= sources(body, t["args"][1])
    return out


def _check_stored(ck, F, body, bi, si, fld, op, qn):
    sr = sources(body, op) | _vec_push_sources(body, op)
    calls = {x[1].rsplit("::", 1)[-1] for x in sr if x[0] == "call"}
    fields = {(x[1], x[2]) for x in sr if x[0] == "field"}
    f, l = body.loc(bi, si)
    localized = calls & {"to_localized_string"}
    key = "%s|store %s.%s" % (qn, fld[0].rsplit("::", 1)[-1], fld[1])
    ok_src = bool(calls & PRINTERS_OK[fld]) or (fld in fields) or (not calls and any(x[0] == "param" for x in sr)) or \
        bool(fields & set(PRINTERS_OK)) or bool(calls & {"clone", "decode_in_place"})
    ck.ob("STORE-EN", key, not localized,
          "%s stores text printed by to_localized_string (active language/locale) into %s.%s, which is stored in English" % (qn, fld[0].rsplit("::", 1)[-1], fld[1]),
          f, l, sample={"fn": qn, "field": fld[1], "printers": sorted(calls)})


# ------------------------------------------------------------------------------------------------
def footprint(ck, F):
    """FOOTPRINT: Model::set_language writes only the language fields and never evaluates;
    Model::set_locale writes locale fields, workbook.settings.locale, and what evaluate writes."""
    R = "FOOTPRINT"
    P = Program(F)
    from rules_um import persistent_types, is_persistent_effect
    pt = persistent_types(F)
    sl = ck.need(F.one, "model::Model::set_language")
    eff = P.effects(sl.path)
    pers = sorted(e for e in eff if is_persistent_effect(e, pt))
    ck.ob(R, "set_language|no-persistent-write", not pers,
          "Model::set_language writes persistent workbook state %s (via %s): switching the display language must not change stored data" %
          (["%s.%s" % (a.rsplit("::", 1)[-1], f) for a, f in pers[:4]], F.qname_of(eff[pers[0]]) if pers else ""), sl.file, sl.line,
          sample={"fn": "set_language", "persistent_effects": len(pers)})
    ev = set(F.find("model::Model::evaluate"))
    ck.ob(R, "set_language|no-evaluate", not P.reaches(sl.path, ev), "Model::set_language reaches Model::evaluate", sl.file, sl.line)
    direct = {e for e in P.direct.get(sl.path, {})}
    own = {(a.rsplit("::", 1)[-1], f) for a, f in direct}
    ck.ob(R, "set_language|writes-language-fields", ("Model", "language") in own,
          "Model::set_language does not update Model.language (writes %s)" % sorted(own), sl.file, sl.line)
    # parser/lexer language follow
    calls = {sl.callee_q(t).rsplit("::", 1)[-1] for _, t in sl.calls() if sl.callee_q(t)}
    ck.ob(R, "set_language|updates-parser", "set_language" in calls, "Model::set_language does not forward to Parser::set_language", sl.file, sl.line)
    lo = ck.need(F.one, "model::Model::set_locale")
    eff = P.effects(lo.path)
    pers = sorted(e for e in eff if is_persistent_effect(e, pt))
    evp = [p for p in ev]
    ev_eff = set()
    for p in evp:
        ev_eff |= {e for e in P.effects(p) if is_persistent_effect(e, pt)}
    extra = [e for e in pers if e not in ev_eff and e != ("ironcalc_base::types::WorkbookSettings", "locale")]
    ck.ob(R, "set_locale|persistent-footprint", not extra,
          "Model::set_locale writes %s beyond settings.locale and what evaluation writes: stored formulas / names must not change" %
          ["%s.%s" % (a.rsplit("::", 1)[-1], f) for a, f in extra[:5]], lo.file, lo.line,
          sample={"fn": "set_locale", "persistent_effects": ["%s.%s" % (a.rsplit("::", 1)[-1], f) for a, f in pers[:6]]})
    bad = [e for e in pers if e in (("ironcalc_base::types::Worksheet", "shared_formulas"), ("ironcalc_base::types::DefinedName", "formula"),
                                    ("ironcalc_base::types::Workbook", "defined_names"))]
    ck.ob(R, "set_locale|stored-formulas-untouched", not bad, "Model::set_locale writes %s" % bad, lo.file, lo.line)
