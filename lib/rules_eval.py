"""Evaluation bookkeeping (C05), operator dispatch and comparison tables (C06), determinism (C07)."""
from effects import Program
from mir import (all_places, const_bool, const_float, enum_switches, op_place, place_proj, rvalue_operands)
from tabx import collect, match_table, straight_line

MODEL = "ironcalc_base::model::Model"
CELLSTATE = "ironcalc_base::model::CellState"
ERROR = "ironcalc_base::expressions::token::Error"


def _cells_inserts(body, F):
    """{state variant: [block]} for HashMap::insert(&mut self.cells, key, CellState::X)."""
    out = {}
    for bi, t in body.calls():
        q = body.callee_q(t) or ""
        if not q.endswith("HashMap::insert") and not q.endswith("::insert"):
            continue
        rt = body.ref_target(t["args"][0])
        if rt is None:
            continue
        fs = [e for e in place_proj(rt) if e[0] == "f"]
        if not fs or (fs[-1][3], fs[-1][2]) != (MODEL, "cells"):
            continue
        r = body.trace(t["args"][2])
        v = None
        if r["kind"] == "rv" and r["rv"]["k"] == "agg":
            v = r["rv"].get("variant")
        elif r["kind"] == "const":
            v = str(r["const"].get("v", r["const"].get("d")))
            v = v.rsplit("::", 1)[-1]
        out.setdefault(v, []).append(bi)
    return out


def typestate_eval(ck, F):
    R = "TYPESTATE-eval"
    P = Program(F)
    ec = ck.need(F.one, "model::Model::evaluate_cell")
    ins = _cells_inserts(ec, F)
    E = ins.get("Evaluating", [])
    V = ins.get("Evaluated", [])
    ck.ob(R, "evaluate_cell|marks", len(E) == 1 and len(V) >= 1,
          "expected one Evaluating mark and at least one Evaluated mark, found %s" % {k: len(v) for k, v in ins.items()}, ec.file, ec.line,
          sample={"Evaluating": len(E), "Evaluated": len(V)})
    if len(E) == 1:
        e = E[0]
        # every path from the Evaluating mark to a return passes an Evaluated mark
        seen = set()
        st = list(ec.succs(e))
        leak = None
        rets = set(ec.return_blocks())
        while st:
            x = st.pop()
            if x in seen or x in V:
                continue
            seen.add(x)
            if x in rets:
                leak = x
                break
            st.extend(ec.succs(x))
        f, l = ec.loc(e)
        ck.ob(R, "evaluate_cell|Evaluating-always-followed-by-Evaluated", leak is None,
              "evaluate_cell can return with the cell still marked Evaluating: later readers in the same pass would see a false #CIRC!", f, l)
        # the state test precedes the mark; CIRC is produced in its Evaluating arm
        sw = enum_switches(ec, CELLSTATE)
        lookups = []
        for cb, t in ec.calls():
            q = ec.callee_q(t) or ""
            if q.endswith("HashMap::get") and t["args"]:
                rt = ec.ref_target(t["args"][0])
                if rt and [x for x in place_proj(rt) if x[0] == "f" and (x[3], x[2]) == (MODEL, "cells")]:
                    lookups.append(cb)
        ok = len(sw) == 1 and len(lookups) == 1 and ec.dominates(lookups[0], e) and ec.dominates(lookups[0], sw[0][0])
        if ok:
            # the mark is only reached when the cell had no state: not from the Evaluating / Evaluated arms
            for v, tb in sw[0][1].items():
                if v is not None and e in ec.reachable_from(tb):
                    ok = False
        ck.ob(R, "evaluate_cell|state-test-dominates-mark", ok,
              "the lookup of the cell state does not dominate the Evaluating mark, or the mark is reachable from an already-marked state", f, l)
        if len(sw) == 1:
            mt = match_table(ec, sw[0][0])
            circ = (ERROR, "CIRC") in (mt.get("Evaluating", {}).get("variants", []))
            ck.ob(R, "evaluate_cell|Evaluating-arm-yields-CIRC", circ, "the Evaluating arm does not produce Error::CIRC", *ec.loc(sw[0][0]))
            evd = mt.get("Evaluated", {})
            ck.ob(R, "evaluate_cell|Evaluated-arm-returns-stored-value", any((c or "").endswith("Model::get_cell_value") for c in evd.get("calls", [])),
                  "the Evaluated arm does not return the stored value", *ec.loc(sw[0][0]))
        # own-spill clearing happens before the mark and is guarded by the anchor comparison
        clears = ec.calls_to("Worksheet::cell_clear_contents")
        for cb, t in clears:
            ck.ob(R, "evaluate_cell|spill-clear-before-mark", ec.dominates(cb, e) or e in ec.reachable_from(cb),
                  "spill clearing is not on the path before the Evaluating mark", *ec.loc(cb))
    # while the cell is being computed it stays Evaluating: nothing that can evaluate other cells (and so come back to
    # this one) runs after an Evaluated mark
    evals = set(F.find("model::Model::evaluate_cell")) | set(F.find("model::Model::evaluate_node_in_context")) | set(F.find("model::Model::evaluate_range"))
    for v in V:
        after = ec.strictly_after(v)
        bad = None
        for cb, t in ec.calls():
            if cb in after or cb == v and False:
                c = ec.callee(t)
                if c in F.heads and (c in evals or P.reaches(c, evals)):
                    bad = (cb, ec.callee_q(t))
                    break
        f, l = ec.loc(v)
        ck.ob(R, "evaluate_cell|no-evaluation-after-Evaluated-mark@%d" % V.index(v), bad is None,
              "evaluate_cell marks the cell Evaluated and then still calls %s, which can evaluate other cells: a cycle "
              "through this cell would read its stale stored value instead of #CIRC!" % (bad[1] if bad else ""), f, l)
    # CIRC producers
    allowed_codecs = ("consume_error", "get_error_by_name", "get_error_by_english_name", "clone", "decode_in_place", "visit_enum")
    for p in sorted(F.body_paths()):
        if '"variant":"CIRC"' not in F._raw[p]:
            continue
        q = F.qname_of(p)
        h = F.heads[p]
        nm = h.get("name") or q
        ok = nm == "evaluate_cell" or nm in allowed_codecs
        ck.ob(R, "CIRC-producer|%s" % q.split("::", 1)[-1], ok,
              "%s constructs Error::CIRC: outside the cycle test of evaluate_cell a cell would show #CIRC! without being on a cycle" % q,
              h["file"], h["line"], sample={"producer": q})
    # evaluate: every (re)start clears the marks before the first evaluate_cell
    ev = ck.need(F.one, "model::Model::evaluate")
    ecalls = ev.calls_to("Model::evaluate_cell")
    ck.ob(R, "evaluate|two-phases", len(ecalls) == 2, "expected evaluate_cell calls in phase 1 and phase 2, found %d" % len(ecalls), ev.file, ev.line)
    clears = {}
    for bi, t in ev.calls():
        q = ev.callee_q(t) or ""
        if q.endswith("::clear") and t["args"]:
            rt = ev.ref_target(t["args"][0])
            if rt:
                fs = [e for e in place_proj(rt) if e[0] == "f"]
                if fs and fs[-1][3] == MODEL:
                    clears.setdefault(fs[-1][2], []).append(bi)
        if q.endswith("Model::clear_variable_stack"):
            clears.setdefault("variable_stack", []).append(bi)
        if q.endswith("Model::clear_lambdas"):
            clears.setdefault("lambdas", []).append(bi)
    if ecalls:
        first = min(ecalls, key=lambda x: x[0])  # phase-1 call: the one inside the restart loop
        # identify phase-1 as the call that is inside a loop whose header dominates it and that can reach a clear
        p1 = [c for c in ecalls if any(ev.dominates(cb, c[0]) for cb in clears.get("cells", []))]
        for fld in ("cells", "support", "variable_stack", "lambdas"):
            cbs = clears.get(fld, [])
            ok = bool(cbs) and bool(p1) and all(any(ev.dominates(cb, c[0]) for cb in cbs) for c in p1)
            # and the clear is inside the restart loop: it can be reached again from the phase-1 call
            inloop = bool(cbs) and any(cb in ev.reachable_from(c[0]) for cb in cbs for c in p1)
            ck.ob(R, "evaluate|restart-clears %s" % fld, ok and inloop,
                  "Model::evaluate does not clear `%s` at every (re)start of phase 1 before evaluating cells" % fld, ev.file, ev.line,
                  sample={"field": fld, "clear_sites": len(cbs), "in_restart_loop": inloop})
        gac = ev.calls_to("Model::get_all_cells")
        ok = len(gac) == 1 and any(ev.dominates(gac[0][0], c[0]) for c in ecalls)
        ck.ob(R, "evaluate|phase2-iterates-all-cells", ok, "phase 2 does not iterate get_all_cells()", ev.file, ev.line)
    # who may write the marks
    for fld, allow in (("cells", {"evaluate", "evaluate_cell"}), ("support", {"evaluate", "evaluate_node_in_context"})):
        writers = sorted(F.heads[p]["name"] for p, d in P.direct.items() if (MODEL, fld) in d)
        ck.ob(R, "writers|Model.%s" % fld, bool(writers) and set(writers) <= allow,
              "Model.%s is written by %s; only %s may" % (fld, writers, sorted(allow)), sample={"field": fld, "writers": writers})


# ------------------------------------------------------------------------------------------------
VOLATILE_OK = {
    # callee suffix -> functions that may reach it (names of function implementations / constructors)
}


def wmc_volatile(ck, F):
    """WMC-volatile (C07): wall-clock and random sources are reachable only from the implementations of the
    volatile functions and from workbook-metadata constructors."""
    R = "WMC-volatile"
    P = Program(F)
    sources_ = []
    for q in list(F.by_qname):
        last = q.rsplit("::", 1)[-1]
        if last in ("get_milliseconds_since_epoch",):
            sources_.extend(F.by_qname[q])
    ck.ob(R, "clock-source-found", len(sources_) >= 1, "get_milliseconds_since_epoch not found")
    foreign_rand = set()
    callers = {}
    for p in F.body_paths():
        h = F.heads[p]
        if h["crate"] != "ironcalc_base":
            continue
        for c in F.calls.get(p, []):
            cc = c.split(":", 1)[1] if c.startswith(("ref:", "closure:", "unresolved:")) else c
            if cc.startswith("rand::") or "::rand::" in cc or cc.startswith("rand_") or "getrandom" in cc or "SystemTime::now" in cc or "Instant::now" in cc:
                callers.setdefault(p, set()).add(cc)
        if set(F.calls.get(p, [])) & set(sources_):
            callers.setdefault(p, set()).add("get_milliseconds_since_epoch")
    # apply_cf_time_period: conditional-format "time period" rules (today, last 7 days, ..) are defined relative to the
    # current date and affect formatting only, never a cell value
    allowed_fn = ("fn_now", "fn_today", "fn_rand", "fn_randbetween", "fn_randarray", "new_empty", "random", "get_milliseconds_since_epoch",
                  "apply_cf_time_period")

    def allowed(p, depth=0):
        h = F.heads[p]
        root = F.heads.get(h.get("root") or p, h)
        nm = root.get("name", "")
        if nm in allowed_fn or h["file"].endswith(("mock_time.rs",)) or "random" in h["file"]:
            return True
        if depth > 3:
            return False
        # a helper: every caller must itself be allowed
        cl = P.callers_of([h.get("root") or p])
        return bool(cl) and all(allowed(c, depth + 1) for c in cl)

    for p, cs in sorted(callers.items()):
        h = F.heads[p]
        ok = allowed(p)
        ck.ob(R, "volatile-source|%s" % F.qname_of(p).split("::", 1)[-1], ok,
              "%s reads a wall-clock/random source (%s): results of non-volatile formulas could differ between evaluations" % (F.qname_of(p), sorted(cs)[:2]),
              h["file"], h["line"], sample={"fn": F.qname_of(p), "sources": sorted(cs)[:3]})


# ------------------------------------------------------------------------------------------------
def date_const(ck, F):
    """CONST (C21): the two conversions are translations by the same offset over the same interval."""
    import datetime
    from mir import const_int
    R = "CONST"
    fe = ck.need(F.one, "formatter::dates::from_excel_date")
    ymd = fe.calls_to("chrono::NaiveDate::from_ymd_opt")
    ok = len(ymd) == 1
    Y = M = D = k = None
    if ok:
        a = ymd[0][1]["args"]
        Y, M, D = const_int(a[0]), const_int(a[1]), const_int(a[2])
        ok = None not in (Y, M, D)
    subs = []
    cmps = []
    for bi, si, s in fe.stmts():
        rv = s["rv"]
        if rv["k"] == "bin" and rv["op"].startswith("Sub"):
            c = const_int(rv["b"])
            if c is not None:
                subs.append(c)
        if rv["k"] == "bin" and rv["op"] in ("Lt", "Gt", "Le", "Ge"):
            for o in (rv["a"], rv["b"]):
                r = fe.trace(o)
                if r["kind"] == "const":
                    c = const_int({"k": r["const"]})
                    if c is not None:
                        cmps.append((rv["op"], c))
    k = subs[0] if len(subs) == 1 else None
    ck.ob(R, "from_excel_date|shape", bool(ok) and k is not None and len(fe.calls_to("chrono::TimeDelta::days")) == 1,
          "from_excel_date is not `NaiveDate(Y,M,D) + days(d - k)` (ymd=%s, k=%s)" % ((Y, M, D), subs), fe.file, fe.line,
          sample={"base_date": [Y, M, D], "k": k})
    cs = ck.need(F.one, "formatter::dates::convert_to_serial_number")
    base = None
    for bi, si, s in cs.stmts():
        rv = s["rv"]
        if rv["k"] == "bin" and rv["op"].startswith("Sub"):
            r = cs.trace(rv["b"])
            c = const_int(rv["b"]) if rv["b"].get("k") else (const_int({"k": r["const"]}) if r["kind"] == "const" else None)
            a = cs.trace(rv["a"])
            if c is not None and a["kind"] == "call" and (cs.callee_q(a["t"]) or "").endswith("num_days_from_ce"):
                base = c
    ck.ob(R, "convert_to_serial_number|shape", base is not None,
          "convert_to_serial_number is not `num_days_from_ce(date) - CONST`", cs.file, cs.line, sample={"EXCEL_DATE_BASE": base})
    if None not in (Y, M, D, k, base):
        ordn = datetime.date(Y, M, D).toordinal()
        ck.ob(R, "offsets-agree", ordn - k == base,
              "from_excel_date uses offset ordinal(%d-%d-%d) - %d = %d, date->serial uses EXCEL_DATE_BASE = %d: the two conversions are not inverse" % (Y, M, D, k, ordn - k, base),
              fe.file, fe.line, sample={"ordinal(base)-k": ordn - k, "EXCEL_DATE_BASE": base})
        lo = [c for op, c in cmps if op in ("Lt", "Le")]
        hi = [c for op, c in cmps if op in ("Gt", "Ge")]
        ok = len(lo) == 1 and len(hi) == 1
        ck.ob(R, "from_excel_date|range-tests", ok, "expected one lower and one upper bound test, found %s" % cmps, fe.file, fe.line)
        if ok:
            mn, mx = lo[0], hi[0]
            d0 = datetime.date.fromordinal(mn + base)
            ck.ob(R, "minimum-is-1899-12-31", (d0.year, d0.month, d0.day) == (1899, 12, 31), "minimum serial %d maps to %s" % (mn, d0), fe.file, fe.line)
            try:
                d1 = datetime.date.fromordinal(mx + base)
                okmax = (d1.year, d1.month, d1.day) == (9999, 12, 31)
            except (ValueError, OverflowError):
                d1, okmax = None, False
            ck.ob(R, "maximum-is-9999-12-31", okmax, "maximum serial %d maps to %s" % (mx, d1), fe.file, fe.line,
                  sample={"min": mn, "max": mx, "span": mx - mn})
            # the date->serial range test uses the same two constants
            ir = ck.need(F.one, "formatter::dates::is_date_within_range")
            consts = set()
            for bi, si, s in ir.stmts():
                rv = s["rv"]
                if rv["k"] == "bin" and rv["op"] in ("Lt", "Gt", "Le", "Ge"):
                    for o in (rv["a"], rv["b"]):
                        r = ir.trace(o)
                        if r["kind"] == "const":
                            c = const_int({"k": r["const"]})
                            if c is not None:
                                consts.add(c)
            # the same test written as `(MIN..=MAX).contains(&serial)`: the bounds of the promoted constant range
            for bi, t in ir.calls():
                if (ir.callee_q(t) or "").rsplit("::", 1)[-1] == "contains" and t["args"]:
                    import zones as _z
                    from effects import Program as _P
                    rng = _z.Analysis(ir, _P(F), F)._const_range(t["args"][0])
                    if rng is not None:
                        consts |= {rng[0], rng[1]}
            ck.ob(R, "is_date_within_range|same-bounds", consts == {mn, mx}, "is_date_within_range tests %s, from_excel_date tests %s" % (sorted(consts), [mn, mx]), ir.file, ir.line)
    # every date -> serial site applies the same translation
    n = 0
    for p in sorted(F.body_paths()):
        raw = F._raw[p]
        if "num_days_from_ce" not in raw and "from_num_days_from_ce" not in raw:
            continue
        b = F.body(p)
        for bi, t in b.calls():
            q = b.callee_q(t) or ""
            if q.endswith("from_num_days_from_ce_opt") or q.endswith("from_num_days_from_ce"):
                ck.ob(R, "%s|no-raw-ordinal-to-date" % b.qname.split("::", 1)[-1], False,
                      "%s converts an ordinal to a date directly instead of through from_excel_date" % b.qname, *b.loc(bi))
            if not q.endswith("::num_days_from_ce"):
                continue
            n += 1
            # the result must feed a Sub whose other operand is the EXCEL_DATE_BASE constant
            res = t["dest"]["l"]
            okc = False
            for bj, sj, s in b.stmts():
                rv = s["rv"]
                if rv["k"] == "bin" and rv["op"].startswith("Sub"):
                    a = b.trace(rv["a"])
                    if a["kind"] == "call" and a["bi"] == bi:
                        r = b.trace(rv["b"])
                        c = const_int(rv["b"]) if rv["b"].get("k") else (const_int({"k": r["const"]}) if r["kind"] == "const" else None)
                        if c == base:
                            okc = True
            f, l = b.loc(bi)
            ck.ob(R, "%s|num_days_from_ce - EXCEL_DATE_BASE" % b.qname.split("::", 1)[-1], okc,
                  "%s turns a date into a number without subtracting EXCEL_DATE_BASE: a different date base than from_excel_date" % b.qname, f, l,
                  sample={"site": b.qname, "subtracts_base": okc})
    ck.note("date_to_serial_sites", n)


# ------------------------------------------------------------------------------------------------ C06
CALC = "ironcalc_base::calc_result::CalcResult"
NODE_ = "ironcalc_base::expressions::parser::Node"


def _closure_ops(F, body, call_term):
    """Float operations performed by the closure passed as last argument of a handle_arithmetic call."""
    out = {"binops": [], "calls": [], "errors": [], "consts": []}
    for a in call_term["args"]:
        r = body.trace(a)
        cdef = None
        if r["kind"] == "rv" and r["rv"]["k"] == "agg" and r["rv"].get("agg") == "closure":
            cdef = r["rv"]["def"]
        elif r["kind"] == "const" and "promoted" in r["const"]:
            # `&|f1, f2| Ok(f1 + f2)`: a promoted reference to a capture-less closure
            pb = F.body("%s::{promoted#%d}" % (body.path, r["const"]["promoted"]))
            if pb is not None:
                for _, _, s in pb.stmts():
                    if s["rv"]["k"] == "agg" and s["rv"].get("agg") == "closure":
                        cdef = s["rv"]["def"]
        if cdef is None:
            continue
        cb = F.body(cdef)
        if cb is None:
            continue
        for _, _, s in cb.stmts():
            rv = s["rv"]
            if rv["k"] == "bin" and rv.get("ty") == "f64":
                out["binops"].append(rv["op"])
                for o in (rv["a"], rv["b"]):
                    cf = const_float(o)
                    if cf is not None:
                        out["consts"].append(cf)
            if rv["k"] == "agg" and rv.get("adt") == ERROR:
                out["errors"].append(rv["variant"])
            if rv["k"] == "use" and rv["o"].get("k") and "Error::" in str(rv["o"]["k"].get("d", "")):
                out["errors"].append(str(rv["o"]["k"]["d"]).rsplit("::", 1)[-1])
        for _, t in cb.calls():
            out["calls"].append((cb.callee_q(t) or "").rsplit("::", 1)[-1])
    return out


def table_ops(ck, F):
    """TABLE-ops: operator node kinds are evaluated by the arithmetic they denote."""
    from mir import arm_region, calls_in
    R = "TABLE-ops"
    ev = ck.need(F.one, "model::Model::evaluate_node_in_context")
    top = max(enum_switches(ev, NODE_), key=lambda x: len(x[1]))
    expect = {("OpSumKind", "ironcalc_base::expressions::token::OpSum", "Add"): (["Add"], [], []),
              ("OpSumKind", "ironcalc_base::expressions::token::OpSum", "Minus"): (["Sub"], [], []),
              ("OpProductKind", "ironcalc_base::expressions::token::OpProduct", "Times"): (["Mul"], [], []),
              ("OpProductKind", "ironcalc_base::expressions::token::OpProduct", "Divide"): (["Eq", "Div"], [], ["DIV"])}
    for (nk, enum, variant), (ops, calls, errs) in expect.items():
        region = arm_region(ev, top[0], top[1][nk])
        sub = [x for x in enum_switches(ev, enum) if x[0] in region]
        ok = len(sub) == 1 and variant in sub[0][1]
        got = None
        if ok:
            sreg = arm_region(ev, sub[0][0], sub[0][1][variant])
            hs = [(cb, t) for cb, t in calls_in(ev, sreg) if (ev.callee_q(t) or "").endswith("Model::handle_arithmetic")]
            ok = len(hs) == 1
            if ok:
                got = _closure_ops(F, ev, hs[0][1])
                ok = sorted(got["binops"]) == sorted(ops) and sorted(set(got["errors"])) == sorted(errs) and \
                    (variant != "Divide" or 0.0 in got["consts"])
        f, l = ev.loc(top[1][nk])
        ck.ob(R, "%s::%s" % (nk, variant), bool(ok),
              "Node::%s with %s::%s is evaluated by %s, expected float %s%s" % (nk, enum.rsplit("::", 1)[-1], variant, got, ops, " guarded by == 0.0 -> #DIV/0!" if errs else ""),
              f, l, sample={"node": nk, "op": variant, "closure": got})
    # power
    region = arm_region(ev, top[0], top[1]["OpPowerKind"])
    hs = [(cb, t) for cb, t in calls_in(ev, region) if (ev.callee_q(t) or "").endswith("Model::handle_arithmetic")]
    got = _closure_ops(F, ev, hs[0][1]) if len(hs) == 1 else None
    ck.ob(R, "OpPowerKind", bool(got) and got["calls"].count("powf") == 1 and not got["binops"],
          "Node::OpPowerKind is evaluated by %s, expected f64::powf" % got, *ev.loc(top[1]["OpPowerKind"]), sample={"node": "OpPowerKind", "closure": got})
    # unary
    region = arm_region(ev, top[0], top[1]["UnaryKind"])
    sub = [x for x in enum_switches(ev, "ironcalc_base::expressions::token::OpUnary") if x[0] in region]
    if len(sub) == 1:
        for variant, want in (("Minus", ("un", "Neg", None)), ("Percentage", ("bin", "Div", 100.0))):
            sreg = arm_region(ev, sub[0][0], sub[0][1][variant])
            found = []
            for x in sorted(sreg):
                for s in ev.blocks[x]["s"]:
                    rv = s["rv"]
                    if rv["k"] == "un" and rv.get("ty") == "f64":
                        found.append(("un", rv["op"], None))
                    if rv["k"] == "bin" and rv.get("ty") == "f64":
                        found.append(("bin", rv["op"], const_float(rv["b"])))
            ck.ob(R, "UnaryKind::%s" % variant, found == [want], "Node::UnaryKind(%s) is evaluated by %s, expected %s" % (variant, found, want),
                  *ev.loc(sub[0][1][variant]), sample={"node": "UnaryKind", "op": variant, "ops": [list(map(str, x)) for x in found]})
    else:
        ck.anchor("evaluate_node_in_context: match over OpUnary")
    # comparisons: interpret the predicate closure for every operator and every sign of compare_values
    from pathx import Interp, UNKNOWN
    hc = ck.need(F.one, "model::Model::handle_comparison")
    OC = "ironcalc_base::expressions::token::OpCompare"
    closures = [F.body(p) for p in F.body_paths() if p.startswith(hc.path + "::{closure")]
    apply = [c for c in closures if c is not None and enum_switches(c, OC)]
    ck.ob(R, "handle_comparison|predicate-closure", len(apply) == 1, "expected one closure matching on OpCompare, found %d" % len(apply), hc.file, hc.line)
    truth = {"Equal": lambda c: c == 0, "LessThan": lambda c: c < 0, "GreaterThan": lambda c: c > 0, "LessOrEqualThan": lambda c: c <= 0,
             "GreaterOrEqualThan": lambda c: c >= 0, "NonEqual": lambda c: c != 0}
    if len(apply) == 1:
        cb = apply[0]
        for op, fn in truth.items():
            for cmp in (-1, 0, 1):
                class I3(Interp):
                    def eval_rvalue(self, rv, st, env):
                        if rv["k"] == "discr" and rv.get("adt") == OC:
                            return ("variant", op)
                        return Interp.eval_rvalue(self, rv, st, env)

                def hook(interp, t, argv, st, env, _c=cmp):
                    if (cb.callee_q(t) or "").endswith("compare_values"):
                        return _c
                    return UNKNOWN
                ps = I3(cb, F, call_hook=hook).run({})
                rets = {p.ret for p in ps}
                ok = rets == {fn(cmp)}
                ck.ob(R, "compare|%s|cmp=%d" % (op, cmp), ok,
                      "OpCompare::%s with compare_values == %d yields %s, expected %s" % (op, cmp, rets, fn(cmp)), cb.file, cb.line,
                      sample={"operator": op, "compare_values": cmp, "result": [str(r) for r in rets]})


def table_cmp(ck, F):
    """TABLE-cmp: the kind x kind table of compare_values is antisymmetric, orders Number < String < Boolean < Error and
    sends EmptyCell to the neutral element of the other operand's kind."""
    from pathx import Interp, UNKNOWN
    R = "TABLE-cmp"
    b = ck.need(F.one, "functions::util::compare_values")
    kinds = ["Number", "String", "Boolean", "EmptyCell", "Error"]
    table = {}
    for a in kinds:
        for c in kinds:
            calls = []

            def hook(interp, t, argv, st, env):
                q = b.callee_q(t) or ""
                if q.endswith("compare_values"):
                    # which aggregate replaces the empty operand
                    subs = []
                    for arg in t["args"]:
                        r = b.trace(arg)
                        k = None
                        if r["kind"] == "rv" and r["rv"]["k"] == "agg" and r["rv"].get("adt") == CALC:
                            k = (r["rv"]["variant"], [str(o.get("k", {}).get("d")) if o.get("k") else "?" for o in r["rv"]["ops"]])
                        elif r["kind"] == "const" and "promoted" in r["const"]:
                            pb = F.body("%s::{promoted#%d}" % (b.path, r["const"]["promoted"]))
                            if pb is not None:
                                for _, _, s in pb.stmts():
                                    if s["rv"]["k"] == "agg" and s["rv"].get("adt") == CALC:
                                        k = (s["rv"]["variant"], [str(o.get("k", {}).get("d")) if o.get("k") else "?" for o in s["rv"]["ops"]])
                        elif r["kind"] == "arg":
                            k = ("same", r.get("name"))
                        elif r["kind"] == "place":
                            k = ("same", b.local_name(b.resolve_place(r["place"])["l"]))
                        subs.append(k)
                    calls.append(subs)
                    return ("recursive", subs)
                return UNKNOWN
            ps = Interp(b, F, call_hook=hook, max_paths=64).run({(b.local_name(1) or "_1"): ("variantref", a), (b.local_name(2) or "_2"): ("variantref", c)})
            rets = set()
            for p in ps:
                r = p.ret
                if isinstance(r, int) and not isinstance(r, bool):
                    rets.add(r)
                elif isinstance(r, tuple) and r and r[0] == "recursive":
                    rets.add(("rec", str(r[1])))
                else:
                    rets.add("value-dependent")
            table[(a, c)] = rets
    order = {"Number": 0, "String": 1, "Boolean": 2, "Error": 3}
    for a in kinds:
        for c in kinds:
            got = table[(a, c)]
            key = "%s,%s" % (a, c)
            if a in order and c in order and a != c:
                want = -1 if order[a] < order[c] else 1
                ck.ob(R, key + "|cross-kind-order", got == {want},
                      "compare_values(%s, %s) yields %s, expected %d (Number < String < Boolean < Error)" % (a, c, got, want), b.file, b.line,
                      sample={"left": a, "right": c, "result": sorted(map(str, got))})
                back = table[(c, a)]
                ck.ob(R, key + "|antisymmetric", got == {want} and back == {-want},
                      "compare_values(%s,%s)=%s but compare_values(%s,%s)=%s" % (a, c, got, c, a, back), b.file, b.line)
            elif a == "EmptyCell" and c == "EmptyCell":
                ck.ob(R, key + "|empty-equals-empty", got == {0}, "compare_values(Empty, Empty) yields %s" % got, b.file, b.line)
            elif a == "EmptyCell" or c == "EmptyCell":
                other = c if a == "EmptyCell" else a
                if other == "Error":
                    want = -1 if a == "EmptyCell" else 1
                    ck.ob(R, key + "|empty-vs-error", got == {want}, "compare_values(%s,%s) yields %s, expected %d" % (a, c, got, want), b.file, b.line)
                    continue
                neutral = {"Number": "0.0", "String": "", "Boolean": "false"}[other]
                ok = len(got) == 1 and isinstance(next(iter(got)), tuple) and other in next(iter(got))[1]
                ck.ob(R, key + "|empty-is-neutral-%s" % other, ok,
                      "compare_values(%s,%s) yields %s, expected a recursive comparison with the neutral %s" % (a, c, got, other), b.file, b.line,
                      sample={"left": a, "right": c, "result": sorted(map(str, got))})
            else:
                ck.ob(R, key + "|same-kind", "value-dependent" in got or len(got) >= 1, "", nontrivial=False)


# ------------------------------------------------------------------------------------------------ C07 HASH-ORDER
HASH_ROOTS = ["model::Model::evaluate", "model::Model::set_user_input", "model::Model::insert_rows", "model::Model::delete_rows",
              "model::Model::insert_columns", "model::Model::delete_columns", "model::Model::move_rows_action",
              "model::Model::move_columns_action", "model::Model::to_bytes", "model::Model::from_workbook"]
ITER_FNS = ("iter", "keys", "values", "into_iter", "drain", "iter_mut", "values_mut", "into_keys", "into_values")
ADAPTERS = ("map", "filter", "filter_map", "flat_map", "copied", "cloned", "enumerate", "into_iter", "chain", "flatten", "rev", "peekable", "by_ref", "inspect", "zip", "skip", "take")
INSENSITIVE_TERMINALS = ("any", "all", "count", "min", "max", "min_by", "max_by", "min_by_key", "max_by_key", "len", "is_empty", "contains", "contains_key")

# (function, collection iterated) -> reason the result does not depend on the iteration order; confirmed by reading the
# pinned tree.  Keyed by the enclosing function (closures count for the function they are written in) and the type of
# the collection, not by the iteration idiom, so that rewriting a `for` loop as an iterator chain keeps the entry.
_CELLS = "HashMap<i32, HashMap<i32, Cell>>"
_ROW = "HashMap<i32, Cell>"
_LINKS = "HashMap<(i32, i32), Link>"
HASH_EXCEPT = {
    ("Model::get_parsed_defined_name", "HashMap<(Option<u32>, String), ParsedDefinedName>"):
        "first match over keys that are unique: (scope, name.to_lowercase()) is how entries are inserted, so at most one key matches the case-insensitive test",
    ("Parser::parse_primary", "HashMap<String, Table>"): "existence test: the value returned is the identifier typed by the user, not the matching table key",
    ("Model::reset_dynamic_array_spills", _CELLS): "collects the dynamic anchors; each anchor's reset touches only its own block (spill blocks of one sheet are disjoint), so the visiting order is immaterial",
    ("Model::reset_dynamic_array_spills", _ROW): "inner loop of the same collection (cells of one row)",
    ("Worksheet::column_cell_references", _CELLS): "collects the cells of one column for callers that treat every row independently (move of a column rebuilds each cell on its own)",
    ("Worksheet::dimension", _CELLS): "min/max accumulation over rows",
    ("Worksheet::dimension", _ROW): "min/max accumulation over columns",
    ("Model::insert_columns", _CELLS): "rows are visited in hash order but each row is shifted on its own (columns inside a row are taken in "
                                       "descending order by get_columns_for_row); no row's result depends on another row",
    ("Model::move_column_unchecked", _LINKS): "links of the moved column are collected and re-inserted into a map keyed by position",
    ("Model::move_row_unchecked", _LINKS): "links of the moved row are collected and re-inserted into a map keyed by position",
}


def _short_coll(ty):
    """`&std::collections::HashMap<i32, ironcalc_base::types::Cell>` -> `HashMap<i32, Cell>`; the iterator structs of a
    map (`Keys<'_, K, V>` ...) are named after the map they walk."""
    import re
    t = ty.replace("&mut ", "").replace("&", "")
    t = re.sub(r"(?:[A-Za-z_][A-Za-z_0-9]*::)+", "", t)
    t = re.sub(r"'[a-z_]+,? ?", "", t)
    t = re.sub(r"\b(Keys|Values|ValuesMut|Iter|IterMut|IntoIter|IntoKeys|IntoValues|Drain)<", "HashMap<", t)
    return t


def _fn_short(F, p):
    h = F.heads[p]
    root = h.get("root") or p
    q = F.body(root).qname
    return "::".join(q.split("::")[-2:]), root


def hash_order(ck, F):
    """HASH-ORDER (C07): every iteration over a HashMap/HashSet in code reachable from evaluation, input, the structural
    actions and (de)serialisation is order-insensitive by an enumerated idiom or a confirmed single-site reason."""
    R = "HASH-ORDER"
    P = Program(F)
    reach = set()
    for q in HASH_ROOTS:
        for r in F.find(q):
            reach |= P.reachable(r)
    ck.ob(R, "reachable-set", len(reach) >= 1000, "only %d bodies reachable from the roots (anchors lost?)" % len(reach))
    n = 0
    counters = {}
    for p in sorted(reach):
        h = F.heads[p]
        if "/functions/" in h["file"]:
            continue
        cs = F.calls.get(p, [])
        if not any("HashMap" in c or "HashSet" in c or "hash::map" in c or "hash::set" in c for c in cs):
            continue
        b = F.body(p)
        qn, root = _fn_short(F, p)
        for bi, t in b.calls():
            q = b.callee_q(t) or ""
            last = q.rsplit("::", 1)[-1]
            if last not in ITER_FNS:
                continue
            a0 = t["args"][0] if t["args"] else None
            pl = op_place(a0) if a0 else None
            ty = b.locals[pl["l"]] if pl is not None else ""
            hashy = ("HashMap" in q or "HashSet" in q or "hash::map" in q or "hash::set" in q or
                     ("IntoIterator" in q and ("collections::HashMap" in ty or "collections::HashSet" in ty or "hash::map::" in ty or "hash::set::" in ty)))
            if not hashy:
                continue
            n += 1
            coll = _short_coll(ty)
            k = counters[(qn, coll)] = counters.get((qn, coll), 0) + 1
            site = "%s#%d" % (coll, k)
            verdict, why = _classify_iteration(b, bi, t)
            if verdict is None and p != root and "escapes" in why:
                # the iterator is what a closure returns: it is one stage of the chain the enclosing function builds
                # (flat_map(|..| row.keys()..)); classify the chain from the adapter the closure is handed to
                verdict, why = _classify_through_parent(F, b, root)
            rb = F.body(root)
            if verdict is None:
                # idiom D: a pure predicate - the enclosing function writes nothing and returns only constant booleans,
                # so what it computes is an exists/forall over the collection
                if _pure_predicate(F, P, rb):
                    verdict, why = True, "pure predicate (%s): constant boolean results, no writes" % rb.name
            if verdict is None and _writes_nothing(F, P, root):
                # idiom E: a read-only helper whose every caller is such a predicate
                callers = {F.heads[c].get("root") or c for c in P.callers_of([root])}
                callers.discard(root)
                if callers and all(_pure_predicate(F, P, F.body(c)) for c in callers):
                    verdict, why = True, "read-only helper used only by pure predicates (%s)" % ", ".join(sorted(F.body(c).name for c in callers))
            f, l = b.loc(bi)
            if verdict is None and (qn, coll) in HASH_EXCEPT:
                ck.ob(R, "%s|%s" % (qn, site), True, HASH_EXCEPT[(qn, coll)], nontrivial=False)
                continue
            ck.ob(R, "%s|%s" % (qn, site), verdict is True,
                  "%s iterates a hash map/set (%s over %s) and the result is consumed in iteration order (%s): values can depend on the hasher's order"
                  % (qn, last, coll, why), f, l, sample={"fn": qn, "site": site, "idiom": why})
    ck.note("iteration_sites", n)


def _writes_nothing(F, P, root):
    if P.direct.get(root):
        return False
    for c in P.reachable(root):
        if P.direct.get(c) and any(a.startswith("ironcalc_base::types::") for a, _ in P.direct[c]):
            return False
    return True


def _classify_through_parent(F, cb, root, depth=0):
    """The closure body `cb` returns an iterator over a hash collection.  Find, in the body it is written in, the
    adapter call it is passed to and classify the chain from there."""
    parent = F.heads[cb.path].get("parent") or root
    rb = F.body(parent)
    tag = "{closure@%s:%d:" % (cb.file, cb.line)
    for bi, t in rb.calls():
        for a in t["args"]:
            pl = op_place(a)
            if pl is None or not rb.locals[pl["l"]].startswith(tag):
                continue
            last = (rb.callee_q(t) or "").rsplit("::", 1)[-1]
            if last not in ADAPTERS:
                return None, "closure passed to %s" % last
            v, why = _classify_iteration(rb, bi, t)
            if v is None and "escapes" in why and parent != root and depth < 3:
                return _classify_through_parent(F, rb, root, depth + 1)
            return v, why
    return None, "iterator escapes (stored or returned)"


def _pure_predicate(F, P, rb):
    if rb is None or not (F.heads[rb.path].get("output") or "").startswith("std::result::Result<bool"):
        return False
    if P.direct.get(rb.path):
        return False
    for c in P.reachable(rb.path):
        if P.direct.get(c) and any(a.startswith("ironcalc_base::types::") for a, _ in P.direct[c]):
            return False
    oks = [s for _, _, s in rb.stmts() if s["p"]["l"] == 0 and s["rv"]["k"] == "agg" and s["rv"].get("variant") == "Ok"]
    if not oks:
        return False
    return all(const_bool(s["rv"]["ops"][0]) is not None for s in oks)


def _classify_iteration(b, bi, t):
    """(True, idiom) when order-insensitive by idiom; (None, why) when undetermined."""
    cur = t["dest"]["l"] if not place_proj(t["dest"]) else None
    steps = 0
    seen = set()
    while cur is not None and steps < 12:
        steps += 1
        # find the call consuming `cur` as first argument
        nxt = None
        for cb, ct in b.calls():
            if cb in seen or not ct["args"]:
                continue
            p0 = op_place(ct["args"][0])
            if p0 is None:
                continue
            src = b.trace(ct["args"][0])
            is_use = (p0["l"] == cur and not place_proj(p0)) or (src["kind"] == "call" and src["bi"] == bi and steps == 1) or \
                     (b.ref_target(ct["args"][0]) is not None and b.ref_target(ct["args"][0])["l"] == cur and not place_proj(b.ref_target(ct["args"][0])))
            if not is_use:
                # moved through a temp
                r = b.def_rvalue(p0["l"]) if not place_proj(p0) else None
                if r is not None and r.get("k") == "use" and op_place(r["o"]) is not None and op_place(r["o"])["l"] == cur:
                    is_use = True
            if is_use:
                nxt = (cb, ct)
                break
        if nxt is None:
            return None, "iterator escapes (stored or returned)"
        cb, ct = nxt
        seen.add(cb)
        q = b.callee_q(ct) or ""
        last = q.rsplit("::", 1)[-1]
        if last in INSENSITIVE_TERMINALS:
            return True, "folded with %s" % last
        if last == "collect" or last == "from_iter":
            dty = b.locals[ct["dest"]["l"]] if not place_proj(ct["dest"]) else ""
            if any(x in dty for x in ("HashMap", "HashSet", "BTreeMap", "BTreeSet")):
                return True, "collected into %s" % dty.split("<")[0].rsplit("::", 1)[-1]
            if dty.startswith("std::vec::Vec"):
                v = ct["dest"]["l"]
                # moved into a named local?
                locs = {v}
                for _ in range(3):
                    for bj, sj, s in b.stmts():
                        if s["rv"]["k"] == "use" and op_place(s["rv"]["o"]) is not None and op_place(s["rv"]["o"])["l"] in locs and not place_proj(s["p"]):
                            locs.add(s["p"]["l"])
                for sb, st in b.calls():
                    sq = (b.callee_q(st) or "").rsplit("::", 1)[-1]
                    if sq.startswith("sort") and st["args"]:
                        rt = b.ref_target(st["args"][0])
                        tr = b.trace(st["args"][0])
                        base = rt["l"] if rt is not None else (tr["place"]["l"] if tr["kind"] == "place" else None)
                        if base in locs or (tr["kind"] == "call" and (b.callee_q(tr["t"]) or "").endswith("deref_mut") and
                                            (b.ref_target(tr["t"]["args"][0]) or {}).get("l") in locs):
                            return True, "collected into a Vec that is sorted"
                # every use of the Vec is a loop whose exits return constants (existence test)
                return None, "collected into an unsorted Vec"
            return None, "collected into %s" % dty
        if last in ADAPTERS or last == "next" and False:
            cur = ct["dest"]["l"] if not place_proj(ct["dest"]) else None
            continue
        if last == "next":
            return None, "consumed element by element in a loop"
        if last in ("sum", "product", "fold", "for_each", "find", "find_map", "position", "last", "nth", "extend"):
            return None, "consumed by %s" % last
        return None, "consumed by %s" % last
    return None, "undetermined"


def err_order(ck, F, rule="ERR-ORDER"):
    """Left-to-right error precedence of binary operators: in every function that evaluates a `left` and a `right`
    operand node with the same fallible helper, the right operand's error payload is only ever read in code dominated by
    the Ok arm of a test of the left result -- so when both fail, the left error is the one returned."""
    n = 0
    for path in sorted(F.body_paths()):
        h = F.heads[path]
        if h.get("bkind") != "fn" or "/functions/" in h["file"]:
            continue
        b = F.body(path)
        names = {b.local_name(i): i for i in range(1, b.nargs + 1)}
        if "left" not in names or "right" not in names:
            continue
        # calls whose argument is the parameter
        by = {}
        for bi, t in b.calls():
            c = b.callee(t)
            if c not in F.heads or place_proj(t["dest"]):
                continue
            out_ty = F.heads[c].get("output") or b.locals[t["dest"]["l"]]
            if "result::Result<" not in b.locals[t["dest"]["l"]]:
                continue
            for a in t["args"]:
                p = op_place(a)
                base = None
                if p is not None and not place_proj(p) and p["l"] in (names["left"], names["right"]):
                    base = p["l"]
                else:
                    rt = b.ref_target(a)
                    if rt is not None and rt["l"] in (names["left"], names["right"]) and all(e[0] == "*" for e in place_proj(rt)):
                        base = rt["l"]
                if base is not None:
                    by.setdefault(c, {})["left" if base == names["left"] else "right"] = (bi, t["dest"]["l"])
        for c, lr in by.items():
            if "left" not in lr or "right" not in lr:
                continue
            n += 1
            (lb, ll), (rb, rl) = lr["left"], lr["right"]
            # aliases: locals the result is moved to, and tuple slots it is packed into
            def aliases(l0):
                al = {(l0, None)}
                for _ in range(3):
                    for bi, si, s in b.stmts():
                        if place_proj(s["p"]):
                            continue
                        rv = s["rv"]
                        if rv["k"] == "use":
                            q = op_place(rv["o"])
                            if q is not None and not place_proj(q) and (q["l"], None) in al:
                                al.add((s["p"]["l"], None))
                        elif rv["k"] == "agg" and rv.get("agg") == "tuple":
                            for i, o in enumerate(rv["ops"]):
                                q = op_place(o)
                                if q is not None and not place_proj(q) and (q["l"], None) in al:
                                    al.add((s["p"]["l"], i))
                return al
            AL, AR = aliases(ll), aliases(rl)

            def matches(pl, al):
                """projection remaining after the alias prefix, or None"""
                pj = place_proj(pl)
                for (l, slot) in al:
                    if pl["l"] != l:
                        continue
                    if slot is None:
                        return pj
                    if pj and pj[0][0] == "f" and pj[0][1] == slot:
                        return pj[1:]
                return None
            # Ok edges of discriminant tests of the left result
            ok_edges = []
            for bi, blk in enumerate(b.blocks):
                t = blk["t"]
                if t["k"] != "switch":
                    continue
                for s in blk["s"]:
                    if s["rv"]["k"] == "discr" and matches(s["rv"]["p"], AL) == []:
                        for v, tg in t["targets"]:
                            if v == "0" and len(b.preds(tg)) == 1:
                                ok_edges.append(tg)
            # reads of the right result's Err payload
            reads = []
            for bi, si, s in b.stmts():
                from mir import rvalue_places
                for pl in rvalue_places(s["rv"]):
                    rest = matches(pl, AR)
                    if rest and rest[0][0] == "dc" and rest[0][1] == "Err":
                        reads.append((bi, si))
            f, l = b.loc(rb)
            qn = b.qname.split("::", 1)[-1]
            ck.ob(rule, "%s|right-error-read" % qn, bool(reads), "%s: no read of the right operand's error found (anchor lost?)" % qn, f, l)
            for (bi, si) in reads:
                ok = any(b.dominates(e, bi) for e in ok_edges)
                f2, l2 = b.loc(bi, si)
                ck.ob(rule, "%s|right-error-only-after-left-Ok@%d" % (qn, reads.index((bi, si))), ok,
                      "%s can return the right operand's error without having established that the left operand is Ok: with two failing operands the right error wins" % qn,
                      f2, l2, sample={"fn": qn, "helper": F.qname_of(c)})
    ck.note("binary_handlers", n)


# (owner ADT, field) -> tags of tuple components .0 / .1
DIM_FIELDS = {("ironcalc_base::types::Cell", "r"): ("W", "H"),          # ArrayFormula.r = (width, height)
              ("ironcalc_base::types::Cell", "a"): ("ROW", "COL")}      # SpillCell.a = (anchor row, anchor column)
DIM_OK = {"W": {"W", "COL"}, "H": {"H", "ROW"}, "ROW": {"ROW", "H"}, "COL": {"COL", "W"}}


def dim_units(ck, F, rule="DIM-UNITS"):
    """Row/column dimensional consistency of spill extents: a value read from component 0 of Cell::ArrayFormula.r (the
    width) is only ever added to / compared with column quantities, component 1 (the height) with row quantities; the
    same for the (row, column) anchor of a SpillCell.  Tags propagate through copies, casts and +/- inside one body."""
    n = 0
    for path in sorted(F.body_paths()):
        h = F.heads[path]
        if "/functions/" in h["file"] or "/test" in h["file"]:
            continue
        raw = F._raw.get(path) if hasattr(F, "_raw") else None
        if raw is not None and '"r"' not in raw and '"a"' not in raw:
            continue
        b = F.body(path)
        tags = {}

        def place_tag(pl):
            rp = b.resolve_place(pl, through_named=True)
            pj = place_proj(rp)
            for i, e in enumerate(pj):
                if e[0] == "f" and (e[3], e[2]) in DIM_FIELDS and i + 1 < len(pj) and pj[i + 1][0] == "f" and pj[i + 1][3] == "tuple":
                    return {DIM_FIELDS[(e[3], e[2])][pj[i + 1][1]]} if pj[i + 1][1] < 2 else set()
            if pj and pj[-1][0] == "f" and pj[-1][2] in ("row", "column") and str(pj[-1][3]).startswith("ironcalc_base::"):
                return {"ROW" if pj[-1][2] == "row" else "COL"}
            if not pj:
                nm = b.local_name(rp["l"])
                out = set(tags.get(rp["l"], ()))
                if nm in ("row", "column") and 1 <= rp["l"] <= b.nargs:
                    out.add("ROW" if nm == "row" else "COL")
                return out
            # tuple component of a local that holds a whole (w, h) pair copied out of the field
            if len(pj) == 1 and pj[0][0] == "f" and pj[0][3] == "tuple" and rp["l"] in pair_locals and pj[0][1] < 2:
                return {pair_locals[rp["l"]][pj[0][1]]}
            return set()

        def op_tag(o):
            p = op_place(o)
            return place_tag(p) if p is not None else set()
        # locals holding a whole pair
        pair_locals = {}
        for _ in range(3):
            for bi, si, s in b.stmts():
                if place_proj(s["p"]):
                    continue
                rv = s["rv"]
                if rv["k"] == "use":
                    q = op_place(rv["o"])
                    if q is None:
                        continue
                    rp = b.resolve_place(q, through_named=True)
                    pj = place_proj(rp)
                    if pj and pj[-1][0] == "f" and (pj[-1][3], pj[-1][2]) in DIM_FIELDS:
                        pair_locals[s["p"]["l"]] = DIM_FIELDS[(pj[-1][3], pj[-1][2])]
                    elif not pj and rp["l"] in pair_locals:
                        pair_locals[s["p"]["l"]] = pair_locals[rp["l"]]
        if not pair_locals and '"r"' not in (raw or '"r"'):
            continue
        for _ in range(4):
            for bi, si, s in b.stmts():
                if place_proj(s["p"]):
                    continue
                rv = s["rv"]
                l = s["p"]["l"]
                new = set()
                if rv["k"] in ("use", "cast"):
                    new = op_tag(rv["o"])
                elif rv["k"] == "bin" and rv["op"].replace("WithOverflow", "") in ("Add", "Sub"):
                    ta, tb = op_tag(rv["a"]), op_tag(rv["b"])
                    # position +/- extent is a position; extent +/- const an extent
                    new = {x for x in (ta | tb) if x in ("ROW", "COL")} or (ta | tb)
                if new - tags.get(l, set()):
                    tags[l] = tags.get(l, set()) | new
            # checked-arithmetic tuples: `_t = AddWithOverflow(a, b); x = move _t.0`
            for bi, si, s in b.stmts():
                rv = s["rv"]
                if rv["k"] == "use" and not place_proj(s["p"]):
                    q = op_place(rv["o"])
                    if q is not None and len(place_proj(q)) == 1 and place_proj(q)[0][0] == "f" and place_proj(q)[0][3] == "tuple" and place_proj(q)[0][1] == 0 and q["l"] in tags:
                        tags[s["p"]["l"]] = tags.get(s["p"]["l"], set()) | tags[q["l"]]
        for bi, si, s in b.stmts():
            rv = s["rv"]
            if rv["k"] != "bin" or rv["op"].replace("WithOverflow", "") not in ("Add", "Sub", "Lt", "Le", "Gt", "Ge", "Eq", "Ne"):
                continue
            ta, tb = op_tag(rv["a"]), op_tag(rv["b"])
            if not ta or not tb or not ((ta | tb) & {"W", "H"}):
                continue
            n += 1
            bad = [(x, y) for x in ta for y in tb if y not in DIM_OK[x]]
            f, l = b.loc(bi, si)
            qn = b.qname.split("::", 1)[-1]
            k = "%s|%s %s %s" % (qn, "/".join(sorted(ta)), rv["op"].replace("WithOverflow", ""), "/".join(sorted(tb)))
            ck.ob(rule, k, not bad, "%s combines a %s quantity with a %s quantity (%s): width/height of a spill extent are mixed up with rows/columns"
                  % (qn, bad[0][0] if bad else "", bad[0][1] if bad else "", rv["op"]), f, l, sample={"fn": qn, "left": sorted(ta), "right": sorted(tb)})
    ck.note("dimension_checked_operations", n)


def date_total(ck, F, rule="DATE-TOTAL"):
    """date_to_serial_number is defined on every calendar date of the supported range (1899-12-31 .. 9999-12-31, the
    images of serials 1 .. 2958465 under from_excel_date): each error it constructs is either the `None` arm of
    NaiveDate::from_ymd_opt (not a calendar date) or is only reachable for years that the zone analysis bounds outside
    1899..=9999."""
    from effects import Program
    import zones
    from mir import op_place, place_proj
    b = ck.need(F.one, "formatter::dates::date_to_serial_number")
    P = Program(F)
    A = zones.Analysis(b, P, F)
    # date_to_serial_number(day: u32, month: u32, year: i32): the year is the signed parameter
    ys = [i for i in range(1, b.nargs + 1) if b.locals[i] == "i32"]
    names = {"year": ys[0]} if len(ys) == 1 else {}
    ck.ob(rule, "date_to_serial_number|params", "year" in names, "the (single i32) year parameter was not found", b.file, b.line)
    if "year" not in names:
        return
    yt = "_%d" % names["year"]
    # None arms of from_ymd_opt
    none_regions = set()
    for bi, t in b.calls():
        if (b.callee_q(t) or "").endswith("from_ymd_opt") and not place_proj(t["dest"]):
            d = t["dest"]["l"]
            for sb, blk in enumerate(b.blocks):
                tt = blk["t"]
                if tt["k"] == "switch" and any(s["rv"]["k"] == "discr" and s["rv"]["p"]["l"] == d and not place_proj(s["rv"]["p"]) for s in blk["s"]):
                    somes = {tg for v, tg in tt["targets"] if v == "1"}
                    for tg in [tt.get("otherwise")] + [tg for v, tg in tt["targets"] if v == "0"]:
                        if tg is not None and tg not in somes:
                            none_regions |= {x for x in b.reachable_from(tg, avoid=somes)}
    ck.ob(rule, "date_to_serial_number|calendar-check", bool(none_regions), "no NaiveDate::from_ymd_opt None arm found (anchor lost?)", b.file, b.line)
    k = 0
    for bi, si, s in b.stmts():
        rv = s["rv"]
        if not (rv["k"] == "agg" and rv.get("adt") == "std::result::Result" and rv.get("variant") == "Err"):
            continue
        k += 1
        f, l = b.loc(bi, si)
        if bi in none_regions:
            ck.ob(rule, "date_to_serial_number|Err#%d is the not-a-date arm" % k, True)
            continue
        outs = A.states_at(bi) or []
        ok = bool(outs)
        for key, z in outs:
            if z.bottom:
                continue
            if not (z.entails(yt, zones.ZERO, 1898) or z.entails(zones.ZERO, yt, -10000)):
                ok = False
        ck.ob(rule, "date_to_serial_number|Err#%d only outside 1899..=9999" % k, ok,
              "date_to_serial_number rejects calendar dates whose year may lie in 1899..=9999: serial numbers that from_excel_date maps "
              "to such a date (e.g. serial 1 = 1899-12-31) no longer convert back", f, l)
    ck.ob(rule, "date_to_serial_number|errors", k >= 1, "no error construction found (anchor lost?)", b.file, b.line)


def truthiness_exact(ck, F, rule="TABLE-ops"):
    """Number -> boolean coercion is `x != 0` exactly: every floating-point comparison in Model::cast_to_bool compares
    the number itself (no abs / rounding / arithmetic on it) with the constant 0.0 using == or !=."""
    from mir import const_float, op_place
    from rules_attr import sources
    b = ck.need(F.one, "Model::cast_to_bool")
    n = 0
    for bi, si, s in b.stmts():
        rv = s["rv"]
        if rv["k"] != "bin" or rv.get("ty") not in ("f64", "f32") or rv["op"] not in ("Eq", "Ne", "Lt", "Le", "Gt", "Ge"):
            continue
        n += 1
        consts = [const_float(rv["a"]), const_float(rv["b"])]
        other = rv["b"] if consts[0] is not None else rv["a"]
        sr = sources(b, other)
        exact = rv["op"] in ("Eq", "Ne") and (0.0 in [c for c in consts if c is not None]) and not any(x[0] in ("call", "arith") for x in sr)
        f, l = b.loc(bi, si)
        ck.ob(rule, "cast_to_bool|float comparison #%d is `== 0.0` on the value" % n, exact,
              "cast_to_bool decides truth with `%s` on %s against %s: numbers that are not exactly zero (1E-17, floating-point residue) become "
              "FALSE, and IF/NOT disagree with AND/OR on the same cell" % (rv["op"], sorted(map(str, sr))[:3], [c for c in consts if c is not None]), f, l)
    ck.ob(rule, "cast_to_bool|has a number arm", n >= 1, "no floating-point comparison found in cast_to_bool (anchor lost?)", b.file, b.line)


# ------------------------------------------------------------------------------------------------ C05 CLIP-SHEET
_FCP = {}


def _formula_cell_params(F, b, depth=0):
    """Parameters of a function implementation that hold the coordinates of the cell containing the formula: the single
    by-value CellReferenceIndex parameter of an `fn_*(&mut self, args, cell)` entry; for a private helper that receives several
    references, the parameters its callers fill with their own formula-cell parameter."""
    from effects import Program
    CRI = "ironcalc_base::expressions::types::CellReferenceIndex"
    if b.path in _FCP:
        return _FCP[b.path]
    cri = [i for i in range(1, b.nargs + 1) if b.locals[i].replace("&", "").strip() == CRI]
    if len(cri) <= 1 or depth > 1:
        _FCP[b.path] = set(cri)
        return _FCP[b.path]
    _FCP[b.path] = set()
    out = set()
    P = Program(F)
    for c in P.callers_of([b.path]):
        if not F.has(c):
            continue
        cb = F.body(c)
        theirs = _formula_cell_params(F, cb, depth + 1)
        for bi, t in cb.calls():
            if cb.callee(t) != b.path:
                continue
            for i, a in enumerate(t["args"], 1):
                pl = op_place(a)
                l = pl["l"] if pl is not None and not place_proj(pl) else None
                for _ in range(4):
                    if l is None or 1 <= l <= cb.nargs:
                        break
                    rv = cb.def_rvalue(l)
                    if rv is not None and rv["k"] in ("use", "cast") and op_place(rv["o"]) is not None and not place_proj(op_place(rv["o"])):
                        l = op_place(rv["o"])["l"]
                    elif rv is not None and rv["k"] == "ref" and all(e[0] == "*" for e in place_proj(rv["p"])):
                        l = rv["p"]["l"]
                    else:
                        l = None
                if l in theirs and i in cri:
                    out.add(i)
    _FCP[b.path] = out
    return out


def clip_sheet(ck, F, rule="CLIP-SHEET"):
    """A whole-row / whole-column range is clipped to the used extent of *its own* sheet: in every function
    implementation that calls Worksheet::dimension, the index handed to Workbook::worksheet comes from the evaluated range
    (a CalcResult / Range value), never from the coordinates of the cell that holds the formula (the CellReferenceIndex
    parameter).  With the formula's sheet, =SUM(Sheet2!A:A) stops at the last used row of the wrong sheet."""
    CRI = "ironcalc_base::expressions::types::CellReferenceIndex"
    n = 0
    for path in sorted(F.body_paths()):
        h = F.heads[path]
        if h["crate"] != "ironcalc_base" or "/functions/" not in h["file"] or "/test" in h["file"]:
            continue
        cs = F.calls.get(path, [])
        if not any(c.endswith("::dimension") for c in cs):
            continue
        b = F.body(path)
        me = b.qname.split("::")[-1] if "{closure" not in b.qname else "::".join(b.qname.split("::")[-2:])
        k = 0
        for bi, t in b.calls():
            q = b.callee_q(t) or ""
            if not q.endswith("Workbook::worksheet") or len(t["args"]) < 2:
                continue
            pl = op_place(t["args"][1])
            if pl is None:
                continue
            rp = b.resolve_place(pl, through_named=True)
            base = rp["l"]
            ty = b.locals[base].replace("&", "").strip()
            is_formula_cell = 1 <= base <= b.nargs and ty == CRI and base in _formula_cell_params(F, b)
            k += 1
            n += 1
            f, l = b.loc(bi)
            ck.ob(rule, "%s|worksheet#%d" % (me, k), not is_formula_cell,
                  "%s clips a range with the extent of the sheet of `%s` -- the cell that holds the formula -- instead of the sheet the range "
                  "is on: a whole-column reference to another sheet is cut at the wrong row" % (me, b.local_name(base)), f, l,
                  sample={"fn": me, "sheet_from": b.local_name(base) or b.locals[base]})
    ck.note("clip_sites", n)


def support_match(ck, F, rule="TYPESTATE-eval"):
    """A written position matches a recorded dependency only when sheet, row and column all match: every predicate closure
    of Model::position_in_support (the test that decides whether a spill just written is something an earlier anchor read,
    i.e. whether phase 1 must reorder and restart) that compares the row or the column of a candidate position also
    compares the sheet *of that same position*.  Comparing the dependency's sheet with anything else (the dependent cell's
    own sheet) loses cross-sheet dependencies between spills: the first evaluation differs from the second."""
    CRI = "ironcalc_base::expressions::types::CellReferenceIndex"
    b0 = ck.need(F.one, "Model::position_in_support")
    n = 0
    for p in sorted(F.body_paths()):
        if F.heads[p].get("root") != b0.path or p == b0.path:
            continue
        b = F.body(p)
        fields = set()
        for bi, si, s in b.stmts():
            rv = s["rv"]
            if rv["k"] != "bin" or rv["op"] not in ("Eq", "Ne", "Lt", "Le", "Gt", "Ge"):
                continue
            for o in (rv["a"], rv["b"]):
                pl = op_place(o)
                if pl is None:
                    continue
                rp = b.resolve_place(pl, through_named=True)
                # the candidate position is the closure's own argument; local 1 is the environment (captured variables)
                if rp["l"] != 1:
                    for e in place_proj(rp):
                        if e[0] == "f" and e[3] == CRI:
                            fields.add(e[2])
        if not fields & {"row", "column"}:
            continue
        n += 1
        ck.ob(rule, "position_in_support|%s compares sheet, row and column of the candidate" % b.qname.rsplit("::", 1)[-1],
              {"sheet", "row", "column"} <= fields,
              "a matching predicate of position_in_support compares %s of the written position but not its sheet: a spill on another sheet "
              "at the same coordinates matches (or a real cross-sheet dependency does not), so the reordering of phase 1 is wrong"
              % sorted(fields), b.file, b.line, sample={"closure": b.qname.rsplit("::", 1)[-1], "compared": sorted(fields)})
    ck.ob(rule, "position_in_support|predicates", n >= 2, "expected two matching predicates (cell and range dependencies) in position_in_support, found %d" % n, b0.file, b0.line)
