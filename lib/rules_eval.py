"""Evaluation bookkeeping (C05), operator dispatch and comparison tables (C06), determinism (C07)."""
from effects import Program
from mir import (all_places, const_bool, const_float, enum_switches, op_place, place_proj, rvalue_operands)
from tabx import collect, match_table, straight_line

MODEL = "ironcalc_base::model::Model"
CELLSTATE = "ironcalc_base::model::CellState"
ERROR = "ironcalc_base::expressions::token::Error"


def _cells_inserts(body, F):
    """{state variant: [block]} for HashMap::insert(&mut self.cells, key, CellState::X)."""
    out = {}
    for bi, t in body.calls():
        q = body.callee_q(t) or ""
        if not q.endswith("HashMap::insert") and not q.endswith("::insert"):
            continue
        rt = body.ref_target(t["args"][0])
        if rt is None:
            continue
        fs = [e for e in place_proj(rt) if e[0] == "f"]
        if not fs or (fs[-1][3], fs[-1][2]) != (MODEL, "cells"):
            continue
        r = body.trace(t["args"][2])
        v = None
        if r["kind"] == "rv" and r["rv"]["k"] == "agg":
            v = r["rv"].get("variant")
        elif r["kind"] == "const":
            v = str(r["const"].get("v", r["const"].get("d")))
            v = v.rsplit("::", 1)[-1]
        out.setdefault(v, []).append(bi)
    return out


def typestate_eval(ck, F):
    R = "TYPESTATE-eval"
    P = Program(F)
    ec = ck.need(F.one, "model::Model::evaluate_cell")
    ins = _cells_inserts(ec, F)
    E = ins.get("Evaluating", [])
    V = ins.get("Evaluated", [])
    ck.ob(R, "evaluate_cell|marks", len(E) == 1 and len(V) >= 1,
          "expected one Evaluating mark and at least one Evaluated mark, found %s" % {k: len(v) for k, v in ins.items()}, ec.file, ec.line,
          sample={"Evaluating": len(E), "Evaluated": len(V)})
    if len(E) == 1:
        e = E[0]
        # every path from the Evaluating mark to a return passes an Evaluated mark
        seen = set()
        st = list(ec.succs(e))
        leak = None
        rets = set(ec.return_blocks())
        while st:
            x = st.pop()
            if x in seen or x in V:
                continue
            seen.add(x)
            if x in rets:
                leak = x
                break
            st.extend(ec.succs(x))
        f, l = ec.loc(e)
        ck.ob(R, "evaluate_cell|Evaluating-always-followed-by-Evaluated", leak is None,
              "evaluate_cell can return with the cell still marked Evaluating: later readers in the same pass would see a false #CIRC!", f, l)
        # the state test precedes the mark; CIRC is produced in its Evaluating arm
        sw = enum_switches(ec, CELLSTATE)
        lookups = []
        for cb, t in ec.calls():
            q = ec.callee_q(t) or ""
            if q.endswith("HashMap::get") and t["args"]:
                rt = ec.ref_target(t["args"][0])
                if rt and [x for x in place_proj(rt) if x[0] == "f" and (x[3], x[2]) == (MODEL, "cells")]:
                    lookups.append(cb)
        ok = len(sw) == 1 and len(lookups) == 1 and ec.dominates(lookups[0], e) and ec.dominates(lookups[0], sw[0][0])
        if ok:
            # the mark is only reached when the cell had no state: not from the Evaluating / Evaluated arms
            for v, tb in sw[0][1].items():
                if v is not None and e in ec.reachable_from(tb):
                    ok = False
        ck.ob(R, "evaluate_cell|state-test-dominates-mark", ok,
              "the lookup of the cell state does not dominate the Evaluating mark, or the mark is reachable from an already-marked state", f, l)
        if len(sw) == 1:
            mt = match_table(ec, sw[0][0])
            circ = (ERROR, "CIRC") in (mt.get("Evaluating", {}).get("variants", []))
            ck.ob(R, "evaluate_cell|Evaluating-arm-yields-CIRC", circ, "the Evaluating arm does not produce Error::CIRC", *ec.loc(sw[0][0]))
            evd = mt.get("Evaluated", {})
            ck.ob(R, "evaluate_cell|Evaluated-arm-returns-stored-value", any((c or "").endswith("Model::get_cell_value") for c in evd.get("calls", [])),
                  "the Evaluated arm does not return the stored value", *ec.loc(sw[0][0]))
        # own-spill clearing happens before the mark and is guarded by the anchor comparison
        clears = ec.calls_to("Worksheet::cell_clear_contents")
        for cb, t in clears:
            ck.ob(R, "evaluate_cell|spill-clear-before-mark", ec.dominates(cb, e) or e in ec.reachable_from(cb),
                  "spill clearing is not on the path before the Evaluating mark", *ec.loc(cb))
    # CIRC producers
    allowed_codecs = ("consume_error", "get_error_by_name", "get_error_by_english_name", "clone", "decode_in_place", "visit_enum")
    for p in sorted(F.body_paths()):
        if '"variant":"CIRC"' not in F._raw[p]:
            continue
        q = F.qname_of(p)
        h = F.heads[p]
        nm = h.get("name") or q
        ok = nm == "evaluate_cell" or nm in allowed_codecs
        ck.ob(R, "CIRC-producer|%s" % q.split("::", 1)[-1], ok,
              "%s constructs Error::CIRC: outside the cycle test of evaluate_cell a cell would show #CIRC! without being on a cycle" % q,
              h["file"], h["line"], sample={"producer": q})
    # evaluate: every (re)start clears the marks before the first evaluate_cell
    ev = ck.need(F.one, "model::Model::evaluate")
    ecalls = ev.calls_to("Model::evaluate_cell")
    ck.ob(R, "evaluate|two-phases", len(ecalls) == 2, "expected evaluate_cell calls in phase 1 and phase 2, found %d" % len(ecalls), ev.file, ev.line)
    clears = {}
    for bi, t in ev.calls():
        q = ev.callee_q(t) or ""
        if q.endswith("::clear") and t["args"]:
            rt = ev.ref_target(t["args"][0])
            if rt:
                fs = [e for e in place_proj(rt) if e[0] == "f"]
                if fs and fs[-1][3] == MODEL:
                    clears.setdefault(fs[-1][2], []).append(bi)
        if q.endswith("Model::clear_variable_stack"):
            clears.setdefault("variable_stack", []).append(bi)
        if q.endswith("Model::clear_lambdas"):
            clears.setdefault("lambdas", []).append(bi)
    if ecalls:
        first = min(ecalls, key=lambda x: x[0])  # phase-1 call: the one inside the restart loop
        # identify phase-1 as the call that is inside a loop whose header dominates it and that can reach a clear
        p1 = [c for c in ecalls if any(ev.dominates(cb, c[0]) for cb in clears.get("cells", []))]
        for fld in ("cells", "support", "variable_stack", "lambdas"):
            cbs = clears.get(fld, [])
            ok = bool(cbs) and bool(p1) and all(any(ev.dominates(cb, c[0]) for cb in cbs) for c in p1)
            # and the clear is inside the restart loop: it can be reached again from the phase-1 call
            inloop = bool(cbs) and any(cb in ev.reachable_from(c[0]) for cb in cbs for c in p1)
            ck.ob(R, "evaluate|restart-clears %s" % fld, ok and inloop,
                  "Model::evaluate does not clear `%s` at every (re)start of phase 1 before evaluating cells" % fld, ev.file, ev.line,
                  sample={"field": fld, "clear_sites": len(cbs), "in_restart_loop": inloop})
        gac = ev.calls_to("Model::get_all_cells")
        ok = len(gac) == 1 and any(ev.dominates(gac[0][0], c[0]) for c in ecalls)
        ck.ob(R, "evaluate|phase2-iterates-all-cells", ok, "phase 2 does not iterate get_all_cells()", ev.file, ev.line)
    # who may write the marks
    for fld, allow in (("cells", {"evaluate", "evaluate_cell"}), ("support", {"evaluate", "evaluate_node_in_context"})):
        writers = sorted(F.heads[p]["name"] for p, d in P.direct.items() if (MODEL, fld) in d)
        ck.ob(R, "writers|Model.%s" % fld, bool(writers) and set(writers) <= allow,
              "Model.%s is written by %s; only %s may" % (fld, writers, sorted(allow)), sample={"field": fld, "writers": writers})


# ------------------------------------------------------------------------------------------------
VOLATILE_OK = {
    # callee suffix -> functions that may reach it (names of function implementations / constructors)
}


def wmc_volatile(ck, F):
    """WMC-volatile (C07): wall-clock and random sources are reachable only from the implementations of the
    volatile functions and from workbook-metadata constructors."""
    R = "WMC-volatile"
    P = Program(F)
    sources_ = []
    for q in list(F.by_qname):
        last = q.rsplit("::", 1)[-1]
        if last in ("get_milliseconds_since_epoch",):
            sources_.extend(F.by_qname[q])
    ck.ob(R, "clock-source-found", len(sources_) >= 1, "get_milliseconds_since_epoch not found")
    foreign_rand = set()
    callers = {}
    for p in F.body_paths():
        h = F.heads[p]
        if h["crate"] != "ironcalc_base":
            continue
        for c in F.calls.get(p, []):
            cc = c.split(":", 1)[1] if c.startswith(("ref:", "closure:", "unresolved:")) else c
            if cc.startswith("rand::") or "::rand::" in cc or cc.startswith("rand_") or "getrandom" in cc or "SystemTime::now" in cc or "Instant::now" in cc:
                callers.setdefault(p, set()).add(cc)
        if set(F.calls.get(p, [])) & set(sources_):
            callers.setdefault(p, set()).add("get_milliseconds_since_epoch")
    allowed_fn = ("fn_now", "fn_today", "fn_rand", "fn_randbetween", "fn_randarray", "new_empty", "random", "get_milliseconds_since_epoch")
    for p, cs in sorted(callers.items()):
        h = F.heads[p]
        root = F.heads.get(h.get("root") or p, h)
        nm = root.get("name", "")
        ok = nm in allowed_fn or h["file"].endswith(("mock_time.rs",)) or "random" in h["file"]
        ck.ob(R, "volatile-source|%s" % F.qname_of(p).split("::", 1)[-1], ok,
              "%s reads a wall-clock/random source (%s): results of non-volatile formulas could differ between evaluations" % (F.qname_of(p), sorted(cs)[:2]),
              h["file"], h["line"], sample={"fn": F.qname_of(p), "sources": sorted(cs)[:3]})


# ------------------------------------------------------------------------------------------------
def date_const(ck, F):
    """CONST (C21): the two conversions are translations by the same offset over the same interval."""
    import datetime
    from mir import const_int
    R = "CONST"
    fe = ck.need(F.one, "formatter::dates::from_excel_date")
    ymd = fe.calls_to("chrono::NaiveDate::from_ymd_opt")
    ok = len(ymd) == 1
    Y = M = D = k = None
    if ok:
        a = ymd[0][1]["args"]
        Y, M, D = const_int(a[0]), const_int(a[1]), const_int(a[2])
        ok = None not in (Y, M, D)
    subs = []
    cmps = []
    for bi, si, s in fe.stmts():
        rv = s["rv"]
        if rv["k"] == "bin" and rv["op"].startswith("Sub"):
            c = const_int(rv["b"])
            if c is not None:
                subs.append(c)
        if rv["k"] == "bin" and rv["op"] in ("Lt", "Gt", "Le", "Ge"):
            for o in (rv["a"], rv["b"]):
                r = fe.trace(o)
                if r["kind"] == "const":
                    c = const_int({"k": r["const"]})
                    if c is not None:
                        cmps.append((rv["op"], c))
    k = subs[0] if len(subs) == 1 else None
    ck.ob(R, "from_excel_date|shape", bool(ok) and k is not None and len(fe.calls_to("chrono::TimeDelta::days")) == 1,
          "from_excel_date is not `NaiveDate(Y,M,D) + days(d - k)` (ymd=%s, k=%s)" % ((Y, M, D), subs), fe.file, fe.line,
          sample={"base_date": [Y, M, D], "k": k})
    cs = ck.need(F.one, "formatter::dates::convert_to_serial_number")
    base = None
    for bi, si, s in cs.stmts():
        rv = s["rv"]
        if rv["k"] == "bin" and rv["op"].startswith("Sub"):
            r = cs.trace(rv["b"])
            c = const_int(rv["b"]) if rv["b"].get("k") else (const_int({"k": r["const"]}) if r["kind"] == "const" else None)
            a = cs.trace(rv["a"])
            if c is not None and a["kind"] == "call" and (cs.callee_q(a["t"]) or "").endswith("num_days_from_ce"):
                base = c
    ck.ob(R, "convert_to_serial_number|shape", base is not None,
          "convert_to_serial_number is not `num_days_from_ce(date) - CONST`", cs.file, cs.line, sample={"EXCEL_DATE_BASE": base})
    if None not in (Y, M, D, k, base):
        ordn = datetime.date(Y, M, D).toordinal()
        ck.ob(R, "offsets-agree", ordn - k == base,
              "from_excel_date uses offset ordinal(%d-%d-%d) - %d = %d, date->serial uses EXCEL_DATE_BASE = %d: the two conversions are not inverse" % (Y, M, D, k, ordn - k, base),
              fe.file, fe.line, sample={"ordinal(base)-k": ordn - k, "EXCEL_DATE_BASE": base})
        lo = [c for op, c in cmps if op in ("Lt", "Le")]
        hi = [c for op, c in cmps if op in ("Gt", "Ge")]
        ok = len(lo) == 1 and len(hi) == 1
        ck.ob(R, "from_excel_date|range-tests", ok, "expected one lower and one upper bound test, found %s" % cmps, fe.file, fe.line)
        if ok:
            mn, mx = lo[0], hi[0]
            d0 = datetime.date.fromordinal(mn + base)
            ck.ob(R, "minimum-is-1899-12-31", (d0.year, d0.month, d0.day) == (1899, 12, 31), "minimum serial %d maps to %s" % (mn, d0), fe.file, fe.line)
            try:
                d1 = datetime.date.fromordinal(mx + base)
                okmax = (d1.year, d1.month, d1.day) == (9999, 12, 31)
            except (ValueError, OverflowError):
                d1, okmax = None, False
            ck.ob(R, "maximum-is-9999-12-31", okmax, "maximum serial %d maps to %s" % (mx, d1), fe.file, fe.line,
                  sample={"min": mn, "max": mx, "span": mx - mn})
            # the date->serial range test uses the same two constants
            ir = ck.need(F.one, "formatter::dates::is_date_within_range")
            consts = set()
            for bi, si, s in ir.stmts():
                rv = s["rv"]
                if rv["k"] == "bin" and rv["op"] in ("Lt", "Gt", "Le", "Ge"):
                    for o in (rv["a"], rv["b"]):
                        r = ir.trace(o)
                        if r["kind"] == "const":
                            c = const_int({"k": r["const"]})
                            if c is not None:
                                consts.add(c)
            ck.ob(R, "is_date_within_range|same-bounds", consts == {mn, mx}, "is_date_within_range tests %s, from_excel_date tests %s" % (sorted(consts), [mn, mx]), ir.file, ir.line)
    # every date -> serial site applies the same translation
    n = 0
    for p in sorted(F.body_paths()):
        raw = F._raw[p]
        if "num_days_from_ce" not in raw and "from_num_days_from_ce" not in raw:
            continue
        b = F.body(p)
        for bi, t in b.calls():
            q = b.callee_q(t) or ""
            if q.endswith("from_num_days_from_ce_opt") or q.endswith("from_num_days_from_ce"):
                ck.ob(R, "%s|no-raw-ordinal-to-date" % b.qname.split("::", 1)[-1], False,
                      "%s converts an ordinal to a date directly instead of through from_excel_date" % b.qname, *b.loc(bi))
            if not q.endswith("::num_days_from_ce"):
                continue
            n += 1
            # the result must feed a Sub whose other operand is the EXCEL_DATE_BASE constant
            res = t["dest"]["l"]
            okc = False
            for bj, sj, s in b.stmts():
                rv = s["rv"]
                if rv["k"] == "bin" and rv["op"].startswith("Sub"):
                    a = b.trace(rv["a"])
                    if a["kind"] == "call" and a["bi"] == bi:
                        r = b.trace(rv["b"])
                        c = const_int(rv["b"]) if rv["b"].get("k") else (const_int({"k": r["const"]}) if r["kind"] == "const" else None)
                        if c == base:
                            okc = True
            f, l = b.loc(bi)
            ck.ob(R, "%s|num_days_from_ce - EXCEL_DATE_BASE" % b.qname.split("::", 1)[-1], okc,
                  "%s turns a date into a number without subtracting EXCEL_DATE_BASE: a different date base than from_excel_date" % b.qname, f, l,
                  sample={"site": b.qname, "subtracts_base": okc})
    ck.note("date_to_serial_sites", n)
