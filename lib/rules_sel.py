"""Selection rules (C28): SEL-SHEET, SEL-REPAIR, SEL-CELL."""
from effects import Program, block_effects
from mir import arm_region, enum_switches, op_place, place_proj, rvalue_operands
from rules_attr import sources
from rules_um import DIFF, USERMODEL, err_blocks

WBVIEW = "ironcalc_base::types::WorkbookView"
WSVIEW = "ironcalc_base::types::WorksheetView"


def _reads_view_sheet_in_compare(body, bi):
    """Block bi branches on a comparison one of whose operands is read from WorkbookView.sheet."""
    t = body.term(bi)
    if t["k"] != "switch" or t["ty"] != "bool":
        return False
    src = body.trace(t["o"])
    if src["kind"] == "rv" and src["rv"]["k"] == "bin" and src["rv"]["op"] in ("Ge", "Gt", "Le", "Lt", "Eq", "Ne"):
        for o in (src["rv"]["a"], src["rv"]["b"]):
            for x in sources(body, o):
                if x[0] == "field" and x[1] == WBVIEW and x[2] == "sheet":
                    return True
    return False


def sel_repair(ck, F):
    """SEL-REPAIR: wherever the user model deletes a sheet, every normal path from the deletion to the end of
    that step either writes the selected sheet or tests it against the sheet count (a clamp)."""
    R = "SEL-REPAIR"
    P = Program(F)
    setters = set(F.find("UserModel::set_selected_sheet")) | set(F.find("UserModel::clamp_selected_sheet"))
    targets = set(F.find("model::Model::delete_sheet"))
    if not targets:
        ck.anchor("Model::delete_sheet")
        return
    n = 0
    for path in sorted(F.body_paths()):
        h = F.heads[path]
        if h.get("impl_adt") != USERMODEL or h.get("bkind") != "fn":
            continue
        if not (set(F.calls.get(path, [])) & targets):
            continue
        body = F.body(path)
        be = block_effects(body.rec, F.adts)
        writers = {bi for bi, es in be.items() if any(e == (WBVIEW, "sheet") for e, _ in es)}
        for bi, t in body.calls():
            c = t["fn"].get("r")
            if c in setters or (c in F.heads and (WBVIEW, "sheet") in P.effects(c)):
                if c not in targets:
                    writers.add(bi)
        tests = {bi for bi in range(len(body.blocks)) if _reads_view_sheet_in_compare(body, bi)}
        errs = err_blocks(body)
        # per-iteration scope when the call sits in a match arm inside a loop (undo/redo)
        sw = enum_switches(body, DIFF)
        sites = [(bi, t) for bi, t in body.calls() if t["fn"].get("r") in targets]
        k = 0
        for bi, t in sites:
            k += 1
            n += 1
            stop = set(body.return_blocks())
            label = h["name"]
            if sw:
                sbi, tg, wild, info = sw[0]
                from mir import loop_header_of
                hd = loop_header_of(body, sbi)
                if hd is not None:
                    stop = stop | {hd}
                for vn, entry in tg.items():
                    if vn is not None and bi in arm_region(body, sbi, entry):
                        label = "%s[Diff::%s]" % (h["name"], vn)
                        break
            # search: from the success continuation of the call, avoiding writers/tests/err blocks, reach a stop block?
            seen = set()
            st = list(body.succs(bi))
            escaped = False
            while st:
                x = st.pop()
                if x in seen or x in writers or x in tests or x in errs:
                    continue
                seen.add(x)
                if x in stop:
                    escaped = True
                    break
                st.extend(body.succs(x))
            f, l = body.loc(bi)
            ck.ob(R, "%s|after Model::delete_sheet#%d" % (label, k), not escaped,
                  "%s deletes a sheet and can finish without writing or clamping the selected sheet: the selection may point past the last sheet" % label,
                  f, l, sample={"site": label, "unrepaired_path": escaped})
    ck.note("delete_sites", n)


def sel_sheet(ck, F):
    """SEL-SHEET: every store into WorkbookView.sheet is a value validated by a dominating worksheet(idx)
    lookup, or is computed from the sheet count by subtraction (a clamp to an existing index)."""
    R = "SEL-SHEET"
    n = 0
    for path in sorted(F.body_paths()):
        h = F.heads[path]
        if h["crate"] != "ironcalc_base" or h.get("impl_trait"):
            continue
        if '"sheet"' not in F._raw[path] or WBVIEW not in F._raw[path]:
            continue
        body = F.body(path)
        for bi, si, s in body.stmts():
            if not place_proj(s["p"]) or s["rv"]["k"] != "use":
                continue
            p = body.resolve_place(s["p"], through_named=True)
            fs = [e for e in place_proj(p) if e[0] == "f"]
            if not fs or (fs[-1][3], fs[-1][2]) != (WBVIEW, "sheet"):
                continue
            n += 1
            op = s["rv"]["o"]
            sr = sources(body, op)
            f, l = body.loc(bi, si)
            # (i) validated: a dominating call worksheet(x) / worksheet_mut(x) with the same provenance whose error edge leaves
            ok = False
            why = ""
            for cb, t in body.calls_to("Workbook::worksheet", "Workbook::worksheet_mut"):
                if len(t["args"]) >= 2 and sources(body, t["args"][1]) == sr and body.dominates(cb, bi):
                    ok = True
                    why = "validated by worksheet(idx)"
            # (ii) clamp arithmetic: derived from worksheets.len() by Sub
            if not ok:
                r = body.trace(op)
                if r["kind"] == "rv" and r["rv"]["k"] == "bin" and r["rv"]["op"] in ("Sub",):
                    sa = sources(body, r["rv"]["a"])
                    if any(x[0] == "field" and x[2] == "worksheets" for x in sa) or any(x[0] == "call" and x[1].endswith("len") for x in sa):
                        ok = True
                        why = "clamp: sheet count minus constant"
                if not ok and any(x[0] == "field" and x[2] == "worksheets" for x in sr) and any(x[0] == "const" for x in sr):
                    ok = True
                    why = "clamp: sheet count minus constant"
            ck.ob(R, "%s|store WorkbookView.sheet" % h["name"], ok,
                  "%s stores %s into the selected-sheet index without validating it against the worksheets" % (h["name"], sorted(sr)), f, l,
                  sample={"fn": h["name"], "discharge": why})
    ck.note("stores", n)


VALIDATORS = {"row": ("is_valid_row",), "column": ("is_valid_column_number",)}

SEL_CELL_EXCEPT = {
    ("on_paste_styles", "range[2]"): "last_row bounds the loop whose body calls set_cell_style(sheet,row,column)? for every row up to it "
                                     "before the store; an invalid row returns Err first",
    ("on_paste_styles", "range[3]"): "last_column bounds the inner loop whose body validates every (row, column) through set_cell_style(..)? "
                                     "before the store",
    ("on_page_up", "row"): "max(1, first_row + (row - top_row)) with first_row <= the stored top_row: at least 1 by the max, at most the stored, "
                           "valid row (the earlier version of this entry claimed the lower bound without the max: it was wrong when the cell is "
                           "above the window, see known_findings)",
}


RANGE_ANCHOR_EXCEPT = {
    "set_selected_range": "validates explicitly that the stored selected cell is one of the four corners of the requested range and returns Err otherwise",
    "on_paste_styles": "keeps the start of the previous range and only moves its end outwards (max(old end, start + pasted extent - 1)): a superset of a range that contained the cell",
}


def range_anchor(ck, F, rule="SEL-CELL"):
    """The selected cell lies inside the selected range: every store of a whole range `[r1, c1, r2, c2]` into
    WorksheetView.range has one corner -- (r1, c1) or (r2, c2) -- with the provenance of the selected cell itself: the values the
    same function stores into view.row / view.column, or the stored view.row / view.column fields.  A range anchored on
    anything else (the start of the previous range, a parameter) can leave the cell outside it."""
    n = 0
    for path in sorted(F.body_paths()):
        h = F.heads[path]
        if h["crate"] != "ironcalc_base" or h.get("impl_trait") or h.get("impl_adt") != USERMODEL or WSVIEW not in F._raw[path]:
            continue
        body = F.body(path)

        def prov(o):
            return frozenset(x for x in sources(body, o) if x[0] != "via")
        rows, cols, ranges = {frozenset({("field", WSVIEW, "row")})}, {frozenset({("field", WSVIEW, "column")})}, []
        for bi, si, s in body.stmts():
            if not place_proj(s["p"]):
                continue
            p = body.resolve_place(s["p"], through_named=True)
            fs = [e for e in place_proj(p) if e[0] == "f"]
            if not fs or fs[-1][3] != WSVIEW or fs[-1][2] not in ("row", "column", "range") or place_proj(p)[-1] is not fs[-1]:
                continue
            rv = s["rv"]
            if fs[-1][2] == "range":
                ops = None
                if rv["k"] == "use":
                    r = body.trace(rv["o"])
                    if r["kind"] == "rv" and r["rv"]["k"] == "agg" and r["rv"].get("agg") == "array":
                        ops = r["rv"]["ops"]
                elif rv["k"] == "agg":
                    ops = rv["ops"]
                if ops and len(ops) == 4:
                    ranges.append((bi, si, ops))
            elif rv["k"] == "use":
                (rows if fs[-1][2] == "row" else cols).add(prov(rv["o"]))
        for k, (bi, si, ops) in enumerate(ranges, 1):
            sa = [prov(o) for o in ops]
            ok = (sa[0] in rows and sa[1] in cols) or (sa[2] in rows and sa[3] in cols)
            n += 1
            f, l = body.loc(bi, si)
            if not ok and h["name"] in RANGE_ANCHOR_EXCEPT:
                ck.ob(rule, "%s|range#%d anchored on the selected cell" % (h["name"], k), True, RANGE_ANCHOR_EXCEPT[h["name"]], nontrivial=False)
                continue
            ck.ob(rule, "%s|range#%d anchored on the selected cell" % (h["name"], k), ok,
                  "%s stores a selected range neither of whose corners is the selected cell (corner 1 from %s, corner 2 from %s): the cell can "
                  "end up outside the range" % (h["name"], sorted(map(str, sa[0] | sa[1]))[:3], sorted(map(str, sa[2] | sa[3]))[:3]), f, l,
                  sample={"fn": h["name"]})
    ck.note("range_stores", n)


def sel_cell(ck, F):
    """SEL-CELL: every store into WorksheetView.{row,column,range} uses values that were validated
    (is_valid_row / is_valid_column_number on the same value, with the failing edge leaving), are copied from
    stored view fields, come from a getter that validates, or are constants."""
    R = "SEL-CELL"
    n = 0
    for path in sorted(F.body_paths()):
        h = F.heads[path]
        if h["crate"] != "ironcalc_base" or h.get("impl_trait") or h.get("impl_adt") != USERMODEL:
            continue
        raw = F._raw[path]
        if WSVIEW not in raw:
            continue
        body = F.body(path)
        validated = _validated_roots(body)
        for bi, si, s in body.stmts():
            if not place_proj(s["p"]):
                continue
            p = body.resolve_place(s["p"], through_named=True)
            fs = [e for e in place_proj(p) if e[0] == "f"]
            if not fs or fs[-1][3] != WSVIEW or fs[-1][2] not in ("row", "column", "range"):
                continue
            rv = s["rv"]
            ops = []
            if rv["k"] == "use":
                r = body.trace(rv["o"])
                if r["kind"] == "rv" and r["rv"]["k"] == "agg" and r["rv"].get("agg") == "array":
                    ops = [("range[%d]" % i, o) for i, o in enumerate(r["rv"]["ops"])]
                else:
                    ops = [(fs[-1][2], rv["o"])]
            elif rv["k"] == "agg":
                ops = [("range[%d]" % i, o) for i, o in enumerate(rv["ops"])]
            for what, o in ops:
                n += 1
                f, l = body.loc(bi, si)
                ok, why = _operand_valid(body, o, bi, validated)
                if not ok and (h["name"], what) in SEL_CELL_EXCEPT:
                    ck.ob(R, "%s|store %s.%s" % (h["name"], "WorksheetView", what), True, SEL_CELL_EXCEPT[(h["name"], what)], nontrivial=False)
                    continue
                ck.ob(R, "%s|store %s.%s" % (h["name"], "WorksheetView", what), ok,
                      "%s stores an unvalidated value (%s) into the selection %s" % (h["name"], why, what), f, l,
                      sample={"fn": h["name"], "field": what, "discharge": why})
    ck.note("stores", n)


def _root_var(body, o):
    """The named variable (or parameter) an operand is a plain copy of, following unnamed single-definition temps; None if
    it is not a copy of one."""
    from mir import op_place, place_proj
    pl = op_place(o)
    if pl is None or place_proj(pl):
        return None
    l = pl["l"]
    for _ in range(6):
        if body.local_name(l) or 1 <= l <= body.nargs:
            return l
        ds = body.defs().get(l, [])
        if len(ds) != 1 or ds[0][1] == "t":
            return None
        rv = body.blocks[ds[0][0]]["s"][ds[0][1]]["rv"]
        if rv["k"] != "use":
            return None
        q = op_place(rv["o"])
        if q is None or place_proj(q):
            return None
        l = q["l"]
    return None


_RD = {}


def _same_value(body, var, at_a, at_b):
    """The definitions of `var` reaching program point at_a = (block, 't') are those reaching at_b: the variable was not
    re-assigned in between (a validation of an earlier value says nothing about the value stored later)."""
    from mir import reaching_defs, defs_reaching
    IN = _RD.get(id(body))
    if IN is None:
        IN = _RD[id(body)] = reaching_defs(body)
    return defs_reaching(body, IN, at_a[0], at_a[1], var) == defs_reaching(body, IN, at_b[0], at_b[1], var)


class _Key(frozenset):
    """provenance set of a validated operand, carrying the variable it was read from and where"""
    var = None
    at = None


def _validated_roots(body, preds=("is_valid_row", "is_valid_column_number")):
    """[(provenance frozenset, switch block, ok target, failing target)] for calls to the validators `preds`."""
    out = []
    for bi, t in body.calls():
        q = (body.callee_q(t) or "").rsplit("::", 1)[-1]
        if q not in preds:
            continue
        sr = _Key(sources(body, t["args"][0]))
        sr.var = _root_var(body, t["args"][0])
        sr.at = (bi, "t")
        # find switch
        for sb, blk in enumerate(body.blocks):
            tt = blk["t"]
            if tt["k"] != "switch" or tt["ty"] != "bool":
                continue
            src = body.trace(tt["o"])
            neg = False
            if src["kind"] == "rv" and src["rv"]["k"] == "un" and src["rv"]["op"] == "Not":
                neg = True
                src = body.trace(src["rv"]["a"])
            if src["kind"] == "call" and src["bi"] == bi:
                zero = [b for v, b in tt["targets"] if v == "0"]
                f_t, t_t = (zero[0] if zero else None), tt["otherwise"]
                if neg:
                    f_t, t_t = t_t, f_t
                out.append((sr, sb, t_t, f_t))
    return out


def validated_at(body, bi, operand, preds):
    """The operand's value passed one of the validators `preds` on every path to block bi."""
    key = frozenset(sources(body, operand))
    var = _root_var(body, operand)
    for vsr, sb, t_t, f_t in _validated_roots(body, preds):
        if vsr == key and body.dominates(sb, bi) and (f_t is None or bi not in body.reachable_from(f_t, avoid={sb})):
            if var is not None and vsr.var == var and not _same_value(body, var, vsr.at, (bi, "t")):
                continue       # the variable was re-assigned after it was validated
            return True
    return False


def _operand_valid(body, o, bi, validated):
    sr = sources(body, o)
    if sr <= {("const",)}:
        return True, "constant"
    fields = {x for x in sr if x[0] == "field"}
    others = {x for x in sr if x[0] not in ("field", "const", "via")}
    if fields and not others and all(x[1] == WSVIEW for x in fields):
        # pure copy of stored values: no arithmetic, no call
        return True, "copied from stored view field"
    key = frozenset(sr)
    var = _root_var(body, o)
    stale = False
    for vsr, sb, t_t, f_t in validated:
        if vsr == key and body.dominates(sb, bi) and (f_t is None or bi not in body.reachable_from(f_t, avoid={sb})):
            if var is not None and getattr(vsr, "var", None) == var and not _same_value(body, var, vsr.at, (bi, 0)):
                stale = True
                continue
            return True, "validated by is_valid_*"
    if stale:
        return False, "a value of `%s` assigned after the is_valid_* test" % (body.local_name(var) or "_%d" % var)
    calls = {x[1].rsplit("::", 1)[-1] for x in sr if x[0] == "call"}
    return False, "from %s" % sorted(map(str, sr))[:4]


def clamp_post(ck, F, rule="SEL-REPAIR"):
    """The repair itself is right: in UserModel::clamp_selected_sheet every view leaves the loop body with
    view.sheet < sheet_count -- on the path that does not rewrite view.sheet the zone state (after the guard) entails
    it, and the value written on the other path is sheet_count - 1 (saturating)."""
    from effects import Program
    import zones
    from mir import op_place, place_proj
    VIEW = "ironcalc_base::types::WorkbookView"
    b = ck.need(F.one, "UserModel::clamp_selected_sheet")
    P = Program(F)
    A = zones.Analysis(b, P, F)
    stores = []
    for bi, si, s in b.stmts():
        if place_proj(s["p"]):
            rp = b.resolve_place(s["p"], through_named=True)
            fs = [e for e in place_proj(rp) if e[0] == "f"]
            if fs and fs[-1][2] == "sheet" and "View" in str(fs[-1][3]):
                stores.append((bi, si, s))
    ck.ob(rule, "clamp_selected_sheet|stores", len(stores) >= 1, "clamp_selected_sheet never writes a view's sheet (anchor lost?)", b.file, b.line)
    n = 0
    for (sb, ssi, s) in stores:
        # the guard: nearest dominating bool switch comparing a view's sheet
        guard = None
        for d in sorted(b.dominators_of(sb), reverse=True):
            t = b.term(d)
            if t["k"] == "switch" and t["ty"] == "bool" and d != sb:
                c = A._cmp_of(d, t["o"])
                if c is None:
                    continue
                ok = False
                for o in (c[1], c[2]):
                    p = op_place(o)
                    if p is None:
                        continue
                    tr = b.trace(o)
                    pl = tr.get("place") if tr["kind"] == "place" else None
                    if pl is not None and [e for e in place_proj(pl) if e[0] == "f" and e[2] == "sheet"]:
                        ok = True
                if ok:
                    guard = (d, t, c)
                    break
        f, l = b.loc(sb, ssi)
        if guard is None:
            ck.ob(rule, "clamp_selected_sheet|guard", False, "the store to view.sheet is not guarded by a comparison of view.sheet", f, l)
            continue
        d, t, c = guard
        zero = [x for v, x in t["targets"] if v == "0"]
        edges = [t["otherwise"]] + zero
        skip = [e for e in edges if not b.dominates(e, sb)]
        n += 1
        ok = bool(skip)
        for e in skip:
            for kk, z in A.pstate_in.get(e, {}).items():
                if z.bottom:
                    continue
                # view.sheet < count on the untouched path: find the two operand terms in this state
                la, lb = A.lin(z, c[1], c[3]), A.lin(z, c[2], c[3])
                if la is None or lb is None:
                    ok = False
                    continue
                # which operand is the view's sheet?
                tr = b.trace(c[1])
                sheet_first = tr["kind"] == "place" and [x for x in place_proj(tr["place"]) if x[0] == "f" and x[2] == "sheet"]
                (x, cx), (y, cy) = (la, lb) if sheet_first else (lb, la)
                if not z.entails(x, y, cy - cx - 1):
                    ok = False
        ck.ob(rule, "clamp_selected_sheet|untouched views already satisfy sheet < count", ok,
              "clamp_selected_sheet leaves a view untouched on a path where view.sheet < number of sheets is not established (the guard "
              "is off by one): after a deletion the selected sheet can be the first index that does not exist", *b.loc(d))
        # the written value
        sr = A.states_at(sb)
        wok = False
        v = s["rv"].get("o")
        if v is not None and sr:
            tr = b.trace(v)
            if tr["kind"] == "call" and (b.callee_q(tr["t"]) or "").endswith("saturating_sub") and const_int_(tr["t"]["args"][1]) == 1:
                wok = True
        ck.ob(rule, "clamp_selected_sheet|written value is count - 1", wok, "the clamped value is not `sheet_count.saturating_sub(1)`", f, l)


def const_int_(o):
    from mir import const_int
    return const_int(o)
