"""Finite-domain path interpreter over MIR.

Given a body and an assignment of enum tags / booleans / small ints to *places* (keys are place strings
as printed by mir.place_str, e.g. '(*node)', 'absolute_column', '(*left)'), walk the CFG resolving every
SwitchInt whose scrutinee is determined, forking on the others, and report per path the ordered events
(calls, aggregates, constants). Dataflow over a finite lattice of tags: no arithmetic constraints are
collected and no solver is involved."""
from mir import const_bool, const_int, const_str, op_place, place_proj, place_str

UNKNOWN = object()


def parse_char_literal(d):
    """Rust char literal as printed by rustc ('a', '\\'', '\\n', '\\u{1F600}') -> code point."""
    d = str(d)
    if len(d) >= 3 and d[0] == "'" and d[-1] == "'":
        inner = d[1:-1]
        if inner.startswith("\\u{") and inner.endswith("}"):
            return int(inner[3:-1], 16)
        esc = {"\\n": "\n", "\\t": "\t", "\\r": "\r", "\\\\": "\\", "\\'": "'", '\\"': '"', "\\0": "\0"}
        if inner in esc:
            return ord(esc[inner])
        if len(inner) == 1:
            return ord(inner)
    return None


class Path:
    __slots__ = ("blocks", "events", "ret", "env", "forks")

    def __init__(self):
        self.blocks = []
        self.events = []
        self.ret = UNKNOWN
        self.env = {}
        self.forks = []


class Interp:
    def __init__(self, body, facts=None, max_paths=4000, max_len=3000, call_hook=None, follow_unwind=False):
        self.b = body
        self.F = facts or body.facts
        self.max_paths = max_paths
        self.max_len = max_len
        self.call_hook = call_hook

    # ------------------------------------------------------------------ values
    def eval_operand(self, o, st, env):
        k = o.get("k")
        if k is not None:
            cb = const_bool(o)
            if cb is not None:
                return cb
            ci = const_int(o)
            if ci is not None:
                return ci
            s = const_str(o)
            if s is not None:
                return ("str", s)
            if "b" in k:
                return ("bytes", k["b"])
            d = str(k.get("v", k.get("d")))
            if k.get("ty") == "char":
                cp = parse_char_literal(d)
                return cp if cp is not None else ("char", d)
            if k.get("promoted") is not None:
                return ("promoted", k["promoted"])
            return ("const", d)
        p = op_place(o)
        return self.eval_place(p, st, env)

    def eval_place(self, p, st, env):
        key = place_str(p, self.b)
        if key in env:
            return env[key]
        v = st.get(p["l"], UNKNOWN)
        proj = place_proj(p)
        if not proj:
            return v
        # tuple / aggregate field reads on known tuples
        cur = v
        for e in proj:
            if cur is UNKNOWN:
                break
            if e[0] == "f" and isinstance(cur, tuple) and cur and cur[0] == "tuple":
                idx = e[1]
                cur = cur[1][idx] if idx < len(cur[1]) else UNKNOWN
            elif e[0] == "*" and isinstance(cur, tuple) and cur and cur[0] == "ref":
                cur = self.eval_place(cur[1], st, env)
            elif e[0] == "*" and isinstance(cur, tuple) and cur and cur[0] == "variantref":
                cur = ("variant", cur[1])
            elif e[0] == "*" and isinstance(cur, tuple) and cur and cur[0] in ("promoted", "bytes", "str", "array", "fmt", "rec", "disp"):
                pass
            else:
                cur = UNKNOWN
        if cur is not UNKNOWN:
            return cur
        # try resolving the place through reference temps to a keyed place
        rp = self.b.resolve_place(p, through_named=True)
        key2 = place_str(rp, self.b)
        if key2 in env:
            return env[key2]
        return UNKNOWN

    def eval_rvalue(self, rv, st, env):
        k = rv["k"]
        if k == "use":
            return self.eval_operand(rv["o"], st, env)
        if k == "ref":
            # remember what is borrowed so that a later deref can be keyed
            key = place_str(rv["p"], self.b)
            return ("ref", rv["p"])
        if k == "discr":
            key = "discr " + place_str(rv["p"], self.b)
            v = self.eval_place(rv["p"], st, env)
            if isinstance(v, tuple) and v and v[0] == "variant":
                return v
            rp = self.b.resolve_place(rv["p"], through_named=True)
            for kk in (place_str(rv["p"], self.b), place_str(rp, self.b)):
                if kk in env and isinstance(env[kk], tuple) and env[kk][0] == "variant":
                    return env[kk]
            return UNKNOWN
        if k == "agg":
            if rv.get("agg") == "tuple":
                return ("tuple", [self.eval_operand(o, st, env) for o in rv["ops"]])
            if rv.get("agg") == "adt":
                return ("adt", rv["adt"], rv["variant"], [self.eval_operand(o, st, env) for o in rv["ops"]])
            if rv.get("agg") == "array":
                return ("array", [self.eval_operand(o, st, env) for o in rv["ops"]])
            return UNKNOWN
        if k == "bin":
            a = self.eval_operand(rv["a"], st, env)
            b = self.eval_operand(rv["b"], st, env)
            if a is UNKNOWN or b is UNKNOWN:
                return UNKNOWN
            op = rv["op"]
            try:
                if op == "Eq":
                    return a == b
                if op == "Ne":
                    return a != b
                if isinstance(a, (int, bool)) and isinstance(b, (int, bool)):
                    if op == "Lt":
                        return a < b
                    if op == "Le":
                        return a <= b
                    if op == "Gt":
                        return a > b
                    if op == "Ge":
                        return a >= b
                    if op == "BitAnd":
                        return a & b
                    if op == "BitOr":
                        return a | b
            except TypeError:
                return UNKNOWN
            return UNKNOWN
        if k == "un":
            a = self.eval_operand(rv["a"], st, env)
            if a is UNKNOWN:
                return UNKNOWN
            if rv["op"] == "Not" and isinstance(a, bool):
                return not a
            return UNKNOWN
        if k == "cast":
            return self.eval_operand(rv["o"], st, env)
        return UNKNOWN

    # ------------------------------------------------------------------ walk
    def run(self, env, start=0, st0=None, stops=()):
        """Returns list of Path. env: {place string: value}; values: bool | int | ('variant', name).
        `stops`: blocks at which a path ends with event ('stop', block)."""
        out = []
        stops = set(stops)
        stack = [(start, dict(st0 or {}), [], [], [])]
        while stack and len(out) < self.max_paths:
            bi, st, blocks, events, forks = stack.pop()
            n = 0
            while True:
                n += 1
                if n > self.max_len or blocks.count(bi) > 2:
                    p = Path()
                    p.blocks, p.events, p.ret, p.forks = blocks, events + [("cut", bi)], UNKNOWN, forks
                    out.append(p)
                    break
                if bi in stops and blocks:
                    p = Path()
                    p.blocks, p.events, p.ret, p.forks = blocks, events + [("stop", bi)], UNKNOWN, forks
                    p.env = st
                    out.append(p)
                    break
                blocks = blocks + [bi]
                blk = self.b.blocks[bi]
                for si, s in enumerate(blk["s"]):
                    v = self.eval_rvalue(s["rv"], st, env)
                    if not place_proj(s["p"]):
                        st[s["p"]["l"]] = v
                    rv = s["rv"]
                    if rv["k"] == "agg" and rv.get("agg") == "adt":
                        events.append(("agg", rv["adt"], rv["variant"], bi))
                    for o in ([rv["o"]] if rv["k"] in ("use",) else []):
                        cs = const_str(o)
                        if cs is not None:
                            events.append(("str", cs, bi))
                t = blk["t"]
                k = t["k"]
                if k == "return":
                    p = Path()
                    p.blocks, p.events, p.ret, p.forks = blocks, events, st.get(0, UNKNOWN), forks
                    p.env = st
                    out.append(p)
                    break
                if k in ("goto", "drop"):
                    bi = t["to"]
                    continue
                if k == "assert":
                    bi = t["to"]
                    continue
                if k == "call":
                    argv = [self.eval_operand(a, st, env) for a in t["args"]]
                    q = self.b.callee_q(t)
                    events.append(("call", q, argv, bi))
                    res = UNKNOWN
                    if self.call_hook is not None:
                        res = self.call_hook(self, t, argv, st, env)
                    if not place_proj(t["dest"]):
                        st[t["dest"]["l"]] = res
                    if t["to"] < 0:
                        p = Path()
                        p.blocks, p.events, p.ret, p.forks = blocks, events + [("diverge", q)], UNKNOWN, forks
                        out.append(p)
                        break
                    bi = t["to"]
                    continue
                if k == "switch":
                    v = self.eval_operand(t["o"], st, env)
                    info = None
                    if v is UNKNOWN or (isinstance(v, tuple) and v[0] == "variant"):
                        info = self.b.switch_info(bi)
                    target = None
                    if isinstance(v, tuple) and v and v[0] == "variant" and info and info["what"] == "discr":
                        name = v[1]
                        for val, tb in t["targets"]:
                            if info["variants"].get(val) == name:
                                target = tb
                        if target is None:
                            target = t["otherwise"]
                    elif isinstance(v, bool) or (isinstance(v, int) and v is not UNKNOWN):
                        iv = int(v)
                        for val, tb in t["targets"]:
                            if int(val) == iv:
                                target = tb
                        if target is None:
                            target = t["otherwise"]
                    elif isinstance(v, tuple) and v and v[0] == "char":
                        target = None
                    if target is not None:
                        bi = target
                        continue
                    # fork
                    succs = self.b.succs(bi)
                    succs = [s for s in succs if not self.b.unreachable_block(s)]
                    for s in succs[1:]:
                        stack.append((s, dict(st), list(blocks), list(events), forks + [(bi, s)]))
                    if not succs:
                        break
                    forks = forks + [(bi, succs[0])]
                    bi = succs[0]
                    continue
                # unreachable / resume / abort
                p = Path()
                p.blocks, p.events, p.ret, p.forks = blocks, events + [("end", k)], UNKNOWN, forks
                out.append(p)
                break
        return out
