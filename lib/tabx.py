"""Extraction of finite tables written as `match` arms or if-chains from MIR."""
from mir import const_str, op_place, place_proj, rvalue_operands, term_operands


def straight_line(body, entry, maxlen=60):
    """Blocks along the unique-successor path from entry (stops at a branch, a return, or a revisit)."""
    out = []
    cur = entry
    seen = set()
    while cur is not None and cur not in seen and len(out) < maxlen:
        seen.add(cur)
        out.append(cur)
        ss = body.succs(cur)
        if len(ss) != 1:
            break
        cur = ss[0]
    return out


def promoted_strs(body, k):
    """String constants of the promoted body referenced by const record k (or None)."""
    if not isinstance(k, dict) or "promoted" not in k or body.facts is None:
        return None
    root = body.facts.heads.get(body.path, {}).get("root") or body.path
    pb = body.facts.body("%s::{promoted#%d}" % (body.path, k["promoted"]))
    if pb is None:
        return None
    c = collect(pb, range(len(pb.blocks)))
    return c["strs"], c


def describe_operand(body, o):
    """('str', s) | ('field', owner, name, full field path) | ('local', name) | ('const', display) | ('?',)"""
    s = const_str(o)
    if s is not None:
        return ("str", s)
    r0 = body.trace(o)
    if r0["kind"] == "const":
        if "s" in r0["const"]:
            return ("str", r0["const"]["s"])
        ps = promoted_strs(body, r0["const"])
        if ps and len(ps[0]) == 1:
            return ("str", ps[0][0])
        if ps and len(ps[0]) > 1:
            return ("strs", tuple(ps[0]))
    k = o.get("k")
    if k is not None:
        if "fn" in k:
            return ("fn", k["r"])
        return ("const", k.get("v", k.get("d")))
    p = op_place(o)
    if p is None:
        return ("?",)
    rt = body.ref_target(o)
    if rt is None:
        rt = body.resolve_place(p)
        # value temp: trace
        if not place_proj(rt):
            r = body.trace(o)
            if r["kind"] == "const":
                k = r["const"]
                if "s" in k:
                    return ("str", k["s"])
                return ("const", k.get("v", k.get("d")))
            if r["kind"] == "place":
                rt = r["place"]
            elif r["kind"] == "arg":
                return ("local", r.get("name"))
    fs = [e for e in place_proj(rt) if e[0] == "f"]
    if fs:
        return ("field", fs[-1][3], fs[-1][2], ".".join(str(e[2]) for e in fs))
    n = body.local_name(rt["l"])
    if n:
        return ("local", n)
    # a temp holding a const str reference
    r = body.trace({"c": {"l": rt["l"]}})
    if r["kind"] == "const" and "s" in r["const"]:
        return ("str", r["const"]["s"])
    return ("?",)


def collect(body, blocks):
    """What a list of blocks mentions: string constants, ADT field reads, enum aggregates, callees."""
    out = {"strs": [], "fields": [], "variants": [], "calls": [], "consts": []}

    def visit_op(o):
        s = const_str(o)
        if s is not None:
            out["strs"].append(s)
        elif o.get("k") is not None and "fn" not in o["k"]:
            out["consts"].append(o["k"].get("v", o["k"].get("d")))
        p = op_place(o)
        if p is not None:
            visit_place(p)

    def visit_place(p):
        for e in place_proj(p):
            if e[0] == "f" and e[3] and e[3] not in ("tuple",) and not str(e[3]).startswith("closure:"):
                out["fields"].append((e[3], e[2]))

    for bi in blocks:
        b = body.blocks[bi]
        for s in b["s"]:
            rv = s["rv"]
            for o in rvalue_operands(rv):
                visit_op(o)
            if rv["k"] in ("ref", "rawptr", "discr"):
                visit_place(rv["p"])
            if rv["k"] == "agg" and rv.get("agg") == "adt":
                out["variants"].append((rv["adt"], rv["variant"]))
        t = b["t"]
        for o in term_operands(t):
            visit_op(o)
        if t["k"] in ("call", "tailcall"):
            out["calls"].append(body.callee_q(t))
    return out


def match_table(body, switch_bi):
    """{variant (None = wildcard): collect(straight line from its target)} for a SwitchInt on a discriminant."""
    tg = body.switch_targets_by_variant(switch_bi)
    if tg is None:
        return None
    out = {}
    for v, entry in tg.items():
        out[v] = collect(body, straight_line(body, entry))
    return out


_CMP = ("PartialEq>::eq", "PartialEq<&str>>::eq", "PartialEq<str>>::eq", "PartialEq<std::string::String>>::eq",
        "str::starts_with", "PartialEq>::ne")


def is_compare_call(body, t):
    q = body.callee_q(t) or ""
    last = q.rsplit("::", 1)[-1]
    return last in ("eq", "ne", "starts_with", "ends_with", "contains", "eq_ignore_ascii_case")


def chain_table(body, start=0, maxsteps=5000):
    """Ordered if-chain: [(callee, [operand descriptions], true-branch collect, false target block)].
    Walks from `start` along straight lines; at every bool switch fed by a comparison call it records
    the comparison and continues on the false edge."""
    out = []
    cur = start
    steps = 0
    seen = set()
    while cur is not None and cur not in seen and steps < maxsteps:
        steps += 1
        seen.add(cur)
        t = body.term(cur)
        if t["k"] == "switch" and t["ty"] == "bool":
            src = body.trace(t["o"])
            neg = False
            if src["kind"] == "rv" and src["rv"]["k"] == "un" and src["rv"]["op"] == "Not":
                neg = True
                src = body.trace(src["rv"]["a"])
            zero_t = [b for v, b in t["targets"] if v == "0"]
            f_t = zero_t[0] if zero_t else None
            t_t = t["otherwise"]
            if neg:
                f_t, t_t = t_t, f_t
            if src["kind"] == "call" and is_compare_call(body, src["t"]):
                ct = src["t"]
                q = body.callee_q(ct)
                if q.endswith("::ne"):
                    f_t, t_t = t_t, f_t
                ops = [describe_operand(body, a) for a in ct["args"]]
                out.append((q, ops, collect(body, straight_line(body, t_t)) if t_t is not None else None, f_t, cur))
                cur = f_t
                continue
            # a bool switch not fed by a comparison: stop
            break
        ss = body.succs(cur)
        if len(ss) != 1:
            break
        cur = ss[0]
    return out
