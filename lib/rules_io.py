"""Serialisation rules: C26 (bitcode), parts of C24 (xlsx coverage)."""
from effects import Program, adt_closure
from mir import all_places, op_place, place_proj

WORKBOOK = "ironcalc_base::types::Workbook"


def derive_closure(ck, F):
    """DERIVE-CLOSURE: every local type reachable from types::Workbook through field types implements
    bitcode::Encode and bitcode::Decode through a derive, and no field carries a bitcode attribute
    (skip / with_serde) that would drop or re-route it."""
    cl = sorted(a for a in adt_closure(F, WORKBOOK) if a in F.adts and F.adts[a].get("local"))
    ck.ob("DERIVE-CLOSURE", "closure-size", len(cl) >= 40, "field closure of Workbook has only %d local types" % len(cl))
    impls = {}
    for im in F.impls:
        if im.get("trait") and im.get("self_adt"):
            impls.setdefault(im["self_adt"], {})[im["trait"]] = im
    for a in cl:
        rec = F.adts[a]
        got = impls.get(a, {})
        for tr in ("bitcode::Encode", "bitcode::Decode"):
            cand = [t for t in got if t == tr or t.endswith("::" + tr.split("::")[-1]) and t.startswith("bitcode")]
            ok = bool(cand)
            derived = ok and all(got[t].get("derived") or got[t].get("mac") in ("Encode", "Decode") for t in cand)
            ck.ob("DERIVE-CLOSURE", "%s|%s" % (a.rsplit("::", 1)[-1], tr), ok and derived,
                  "%s (reachable from Workbook) %s %s" % (a, "implements by hand" if ok else "does not implement", tr),
                  rec.get("file", ""), rec.get("line", 0), sample={"type": a, "trait": tr, "derived": derived})
        for v in rec["variants"]:
            for f in v["fields"]:
                bad = [x for x in f.get("attrs", []) if "bitcode" in x]
                ck.ob("DERIVE-CLOSURE", "%s.%s|no-bitcode-attr" % (a.rsplit("::", 1)[-1], f["name"]), not bad,
                      "field %s.%s carries %s: it would not round-trip through to_bytes/from_bytes" % (a, f["name"], bad),
                      rec.get("file", ""), rec.get("line", 0))


def bytes_roundtrip_shape(ck, F):
    """to_bytes encodes the whole workbook field; from_bytes decodes a Workbook and hands it to
    from_workbook; from_workbook reparses formulas and names before returning Ok and rebuilds the
    shared-string index from workbook.shared_strings."""
    tb = ck.need(F.one, "Model::to_bytes")
    enc = tb.calls_to("bitcode::encode")
    ok = len(enc) == 1
    if ok:
        rt = tb.ref_target(enc[0][1]["args"][0])
        ok = rt is not None and [e for e in place_proj(rt) if e[0] == "f"][-1:] and [e for e in place_proj(rt) if e[0] == "f"][-1][2] == "workbook" \
            and [e for e in place_proj(rt) if e[0] == "f"][-1][3].endswith("model::Model")
    ck.ob("BYTES-SHAPE", "to_bytes|encodes-whole-workbook", bool(ok), "Model::to_bytes must bitcode::encode(&self.workbook)", tb.file, tb.line,
          sample={"fn": "to_bytes", "encodes": "self.workbook"})
    others = [tb.callee_q(t) for _, t in tb.calls() if (tb.callee_q(t) or "").startswith("ironcalc_base::")]
    ck.ob("BYTES-SHAPE", "to_bytes|no-preprocessing", not others, "to_bytes calls %s before encoding" % others, tb.file, tb.line)
    fb = ck.need(F.one, "Model::from_bytes")
    dec = fb.calls_to("bitcode::decode")
    fw = fb.calls_to("Model::from_workbook")
    ok = len(dec) == 1 and len(fw) == 1 and fb.dominates(dec[0][0], fw[0][0])
    if ok:
        ok = dec[0][1]["fn"]["targs"][:1] == [WORKBOOK]
    ck.ob("BYTES-SHAPE", "from_bytes|decode-Workbook-then-from_workbook", bool(ok),
          "from_bytes must decode a types::Workbook and pass it to from_workbook", fb.file, fb.line)
    w = ck.need(F.one, "Model::from_workbook")
    for callee in ("Model::parse_formulas", "Model::parse_defined_names"):
        cs = w.calls_to(callee)
        ok = len(cs) >= 1
        if ok:
            # must-pass-through: every normal Ok return is dominated by the call
            oks = [bi for bi, si, s in w.stmts() if s["p"]["l"] == 0 and s["rv"]["k"] == "agg" and s["rv"].get("variant") == "Ok"]
            ok = bool(oks) and all(any(w.dominates(c[0], o) for c in cs) for o in oks)
        ck.ob("BYTES-SHAPE", "from_workbook|must-pass %s" % callee.split("::")[-1], ok,
              "from_workbook can return Ok without passing %s (stored formula text would not be re-parsed)" % callee, w.file, w.line)
    # shared_strings index is rebuilt from workbook.shared_strings
    reads = set()
    for bi, si, p, role in all_places(w):
        for e in place_proj(p):
            if e[0] == "f" and e[3] == WORKBOOK:
                reads.add(e[2])
    ck.ob("BYTES-SHAPE", "from_workbook|reads shared_strings", "shared_strings" in reads,
          "from_workbook does not read workbook.shared_strings to rebuild the index", w.file, w.line)
    # the Model aggregate gets the very workbook that was passed in
    aggs = [(bi, s) for bi, si, s in w.stmts() if s["rv"]["k"] == "agg" and s["rv"].get("adt", "").endswith("model::Model")]
    ok = len(aggs) == 1
    if ok:
        ops = dict(zip(aggs[0][1]["rv"]["fields"], aggs[0][1]["rv"]["ops"]))
        r = w.trace(ops["workbook"])
        ok = r["kind"] == "arg" and r.get("name") == "workbook"
    ck.ob("BYTES-SHAPE", "from_workbook|keeps-workbook", ok, "Model is not built around the workbook argument itself", w.file, w.line)
