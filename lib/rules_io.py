"""Serialisation rules: C26 (bitcode), parts of C24 (xlsx coverage)."""
from effects import Program, adt_closure
from mir import all_places, op_place, place_proj

WORKBOOK = "ironcalc_base::types::Workbook"


def derive_closure(ck, F):
    """DERIVE-CLOSURE: every local type reachable from types::Workbook through field types implements
    bitcode::Encode and bitcode::Decode through a derive, and no field carries a bitcode attribute
    (skip / with_serde) that would drop or re-route it."""
    cl = sorted(a for a in adt_closure(F, WORKBOOK) if a in F.adts and F.adts[a].get("local"))
    ck.ob("DERIVE-CLOSURE", "closure-size", len(cl) >= 40, "field closure of Workbook has only %d local types" % len(cl))
    impls = {}
    for im in F.impls:
        if im.get("trait") and im.get("self_adt"):
            impls.setdefault(im["self_adt"], {})[im["trait"]] = im
    for a in cl:
        rec = F.adts[a]
        got = impls.get(a, {})
        for tr in ("bitcode::Encode", "bitcode::Decode"):
            cand = [t for t in got if t == tr or t.endswith("::" + tr.split("::")[-1]) and t.startswith("bitcode")]
            ok = bool(cand)
            derived = ok and all(got[t].get("derived") or got[t].get("mac") in ("Encode", "Decode") for t in cand)
            ck.ob("DERIVE-CLOSURE", "%s|%s" % (a.rsplit("::", 1)[-1], tr), ok and derived,
                  "%s (reachable from Workbook) %s %s" % (a, "implements by hand" if ok else "does not implement", tr),
                  rec.get("file", ""), rec.get("line", 0), sample={"type": a, "trait": tr, "derived": derived})
        for v in rec["variants"]:
            for f in v["fields"]:
                bad = [x for x in f.get("attrs", []) if "bitcode" in x]
                ck.ob("DERIVE-CLOSURE", "%s.%s|no-bitcode-attr" % (a.rsplit("::", 1)[-1], f["name"]), not bad,
                      "field %s.%s carries %s: it would not round-trip through to_bytes/from_bytes" % (a, f["name"], bad),
                      rec.get("file", ""), rec.get("line", 0))


def bytes_roundtrip_shape(ck, F):
    """to_bytes encodes the whole workbook field; from_bytes decodes a Workbook and hands it to
    from_workbook; from_workbook reparses formulas and names before returning Ok and rebuilds the
    shared-string index from workbook.shared_strings."""
    tb = ck.need(F.one, "Model::to_bytes")
    enc = tb.calls_to("bitcode::encode")
    ok = len(enc) == 1
    if ok:
        rt = tb.ref_target(enc[0][1]["args"][0])
        ok = rt is not None and [e for e in place_proj(rt) if e[0] == "f"][-1:] and [e for e in place_proj(rt) if e[0] == "f"][-1][2] == "workbook" \
            and [e for e in place_proj(rt) if e[0] == "f"][-1][3].endswith("model::Model")
    ck.ob("BYTES-SHAPE", "to_bytes|encodes-whole-workbook", bool(ok), "Model::to_bytes must bitcode::encode(&self.workbook)", tb.file, tb.line,
          sample={"fn": "to_bytes", "encodes": "self.workbook"})
    others = [tb.callee_q(t) for _, t in tb.calls() if (tb.callee_q(t) or "").startswith("ironcalc_base::")]
    ck.ob("BYTES-SHAPE", "to_bytes|no-preprocessing", not others, "to_bytes calls %s before encoding" % others, tb.file, tb.line)
    fb = ck.need(F.one, "Model::from_bytes")
    dec = fb.calls_to("bitcode::decode")
    fw = fb.calls_to("Model::from_workbook")
    ok = len(dec) == 1 and len(fw) == 1 and fb.dominates(dec[0][0], fw[0][0])
    if ok:
        ok = dec[0][1]["fn"]["targs"][:1] == [WORKBOOK]
    ck.ob("BYTES-SHAPE", "from_bytes|decode-Workbook-then-from_workbook", bool(ok),
          "from_bytes must decode a types::Workbook and pass it to from_workbook", fb.file, fb.line)
    w = ck.need(F.one, "Model::from_workbook")
    for callee in ("Model::parse_formulas", "Model::parse_defined_names"):
        cs = w.calls_to(callee)
        ok = len(cs) >= 1
        if ok:
            # must-pass-through: every normal Ok return is dominated by the call
            oks = [bi for bi, si, s in w.stmts() if s["p"]["l"] == 0 and s["rv"]["k"] == "agg" and s["rv"].get("variant") == "Ok"]
            ok = bool(oks) and all(any(w.dominates(c[0], o) for c in cs) for o in oks)
        ck.ob("BYTES-SHAPE", "from_workbook|must-pass %s" % callee.split("::")[-1], ok,
              "from_workbook can return Ok without passing %s (stored formula text would not be re-parsed)" % callee, w.file, w.line)
    # shared_strings index is rebuilt from workbook.shared_strings
    reads = set()
    for bi, si, p, role in all_places(w):
        for e in place_proj(p):
            if e[0] == "f" and e[3] == WORKBOOK:
                reads.add(e[2])
    ck.ob("BYTES-SHAPE", "from_workbook|reads shared_strings", "shared_strings" in reads,
          "from_workbook does not read workbook.shared_strings to rebuild the index", w.file, w.line)
    # the Model aggregate gets the very workbook that was passed in
    aggs = [(bi, s) for bi, si, s in w.stmts() if s["rv"]["k"] == "agg" and s["rv"].get("adt", "").endswith("model::Model")]
    ok = len(aggs) == 1
    if ok:
        ops = dict(zip(aggs[0][1]["rv"]["fields"], aggs[0][1]["rv"]["ops"]))
        r = w.trace(ops["workbook"])
        ok = r["kind"] == "arg" and r.get("name") == "workbook"
    ck.ob("BYTES-SHAPE", "from_workbook|keeps-workbook", ok, "Model is not built around the workbook argument itself", w.file, w.line)


# ------------------------------------------------------------------------------------------------ C24
XLSX_TYPES = ["types::Worksheet", "types::Row", "types::Col", "types::DefinedName", "types::Workbook", "types::Font", "types::Fill",
              "types::Border", "types::BorderItem", "types::Alignment", "types::NumFmt", "types::CellXfs", "types::Styles",
              "cf_types::ConditionalFormatting"]

# (type, field) -> why it is not expected in the xlsx package (export side) / not read from it (import side)
XLSX_EXPORT_ALLOW = {
    ("types::Worksheet", "dimension"): "derived: recomputed from sheet_data by Worksheet::dimension() when exporting",
    ("types::Worksheet", "shared_formulas"): "the R1C1 text is an internal cache: export prints the parsed formulas (Model.parsed_formulas) with to_excel_string",
    ("types::Workbook", "name"): "the workbook name is the file name, not part of the package",
    ("types::Workbook", "settings"): "timezone and locale are not stored in xlsx files; they are arguments of the importer",
    ("types::CellXfs", "apply_protection"): "cell protection is not modelled by the engine",
}
XLSX_IMPORT_ALLOW = {}


def cover_xlsx(ck, F):
    """COVER-xlsx: every persistent field of the workbook types is read by code reachable from the xlsx writer and
    set from the package by code reachable from the xlsx reader."""
    from rules_attr import sources
    from mir import reaching_defs, defs_reaching
    R = "COVER-xlsx"
    P = Program(F)
    er, ir = set(), set()
    for q in ("ironcalc::export::save_xlsx_to_writer", "ironcalc::export::save_to_xlsx"):
        for p in F.by_qname.get(q, []):
            er |= P.reachable(p)
    for q in ("ironcalc::import::load_from_xlsx_bytes", "ironcalc::import::load_from_xlsx"):
        for p in F.by_qname.get(q, []):
            ir |= P.reachable(p)
    ck.ob(R, "reachable", len(er) >= 150 and len(ir) >= 250, "export reaches %d bodies, import %d (anchors lost?)" % (len(er), len(ir)))
    read = {}
    for p in er:
        if "ironcalc_base::" not in F._raw[p]:
            continue
        b = F.body(p)
        for bi, si, pl, role in all_places(b):
            if role != "r":
                continue
            for e in place_proj(pl):
                if e[0] == "f" and e[3] and str(e[3]).startswith("ironcalc_base::"):
                    read.setdefault(e[3], set()).add(e[2])
    written = {}
    for p in ir:
        raw = F._raw[p]
        if "ironcalc_base::" not in raw:
            continue
        b = F.body(p)
        rd = None
        for bi, si, s in b.stmts():
            rv = s["rv"]
            if rv["k"] == "agg" and rv.get("agg") == "adt" and rv["adt"].startswith("ironcalc_base::"):
                for f, o in zip(rv["fields"], rv["ops"]):
                    sr = sources(b, o)
                    dep = not (sr <= {("const",)})
                    if not dep:
                        # a flag assigned under control of the input: more than one definition reaches the aggregate
                        pl = op_place(o)
                        if pl is not None and not place_proj(pl):
                            if rd is None:
                                rd = reaching_defs(b)
                            base = pl["l"]
                            for _ in range(4):
                                rvd = b.def_rvalue(base)
                                if rvd is not None and rvd.get("k") == "use" and op_place(rvd["o"]) is not None and not place_proj(op_place(rvd["o"])):
                                    base = op_place(rvd["o"])["l"]
                                else:
                                    break
                            if len(b.defs().get(base, [])) > 1:
                                dep = True
                    if dep:
                        written.setdefault(rv["adt"], set()).add(f)
            if place_proj(s["p"]):
                fs = [e for e in place_proj(s["p"]) if e[0] == "f" and e[3] and str(e[3]).startswith("ironcalc_base::")]
                if fs:
                    written.setdefault(fs[-1][3], set()).add(fs[-1][2])
    for t in XLSX_TYPES:
        path = "ironcalc_base::" + t
        a = F.adts.get(path)
        if a is None:
            ck.anchor("type %s" % path)
            continue
        for v in a["variants"]:
            for f in v["fields"]:
                fn = f["name"]
                key = "%s.%s" % (t.rsplit("::", 1)[-1], fn)
                if (t, fn) in XLSX_EXPORT_ALLOW:
                    ck.ob(R, key + "|exported", True, XLSX_EXPORT_ALLOW[(t, fn)], nontrivial=False)
                else:
                    ck.ob(R, key + "|exported", fn in read.get(path, set()),
                          "%s.%s is never read by code reachable from the xlsx writer: it cannot survive an export/import round trip" % (t, fn),
                          a.get("file", ""), a.get("line", 0), sample={"field": key, "read_by_export": fn in read.get(path, set())})
                if (t, fn) in XLSX_IMPORT_ALLOW:
                    ck.ob(R, key + "|imported", True, XLSX_IMPORT_ALLOW[(t, fn)], nontrivial=False)
                else:
                    ck.ob(R, key + "|imported", fn in written.get(path, set()),
                          "%s.%s is never set from the package by code reachable from the xlsx reader (constant default only)" % (t, fn),
                          a.get("file", ""), a.get("line", 0), sample={"field": key, "set_by_import": fn in written.get(path, set())})
    # every Cell variant has an export arm and an import constructor
    CELL = "ironcalc_base::types::Cell"
    cadt = F.adts[CELL]
    exp_arms = set()
    for p in er:
        if F.heads[p]["crate"] != "ironcalc" or CELL not in F._raw[p]:
            continue
        b = F.body(p)
        from mir import enum_switches
        for bi, tg, wild, info in enum_switches(b, CELL):
            exp_arms |= {v for v in tg if v is not None}
            if wild:
                exp_arms.add("*")
    imp_cons = set()
    for p in ir:
        if '"adt":"%s"' % CELL not in F._raw[p]:
            continue
        b = F.body(p)
        for bi, si, s in b.stmts():
            if s["rv"]["k"] == "agg" and s["rv"].get("adt") == CELL:
                imp_cons.add(s["rv"]["variant"])
    for v in cadt["variants"]:
        vn = v["name"]
        ck.ob(R, "Cell::%s|export-arm" % vn, vn in exp_arms,
              "no export arm handles Cell::%s explicitly (wildcard arm: %s)" % (vn, "*" in exp_arms), sample={"variant": vn})
        ck.ob(R, "Cell::%s|import-constructor" % vn, vn in imp_cons, "the xlsx reader never constructs Cell::%s" % vn, sample={"variant": vn})
    # formulas are exported through the xlsx printer and imported through an English parser
    uses_excel = any("to_excel_string" in c for p in er for c in F.calls.get(p, []))
    ck.ob(R, "export|formulas-through-to_excel_string", uses_excel, "export never calls to_excel_string")
    eng = any("new_parser_english" in c for p in ir for c in F.calls.get(p, []))
    ck.ob(R, "import|formulas-through-english-parser", eng, "import never builds an English parser")


def escape_table(ck, F):
    """escape_xml covers the five XML-special characters (TABLE over characters)."""
    R = "XML-ESCAPE"
    b = ck.need(F.one, "ironcalc::export::escape::escape_xml")
    from tabx import collect
    P = Program(F)
    bodies = [F.body(p) for p in P.reachable(b.path)] + [F.body(p) for p in F.body_paths() if p.startswith(b.path + "::{")]
    for p in list(P.reachable(b.path)):
        bodies += [F.body(x) for x in F.body_paths() if x.startswith(p + "::{promoted")]
    strs, chars = set(), set()
    from pathx import parse_char_literal
    from mir import rvalue_operands, term_operands
    for bb in bodies:
        c = collect(bb, range(len(bb.blocks)))
        strs |= set(c["strs"])
        for blk in bb.blocks:
            ops = []
            for s in blk["s"]:
                ops.extend(rvalue_operands(s["rv"]))
            ops.extend(term_operands(blk["t"]))
            for o in ops:
                k = o.get("k")
                if k and k.get("ty") == "char":
                    cp = parse_char_literal(k.get("v", k.get("d")))
                    if cp is not None:
                        chars.add(chr(cp))
            t = blk["t"]
            if t["k"] == "switch" and t["ty"] == "char":
                chars |= {chr(int(v)) for v, _ in t["targets"]}
    want = {"&": "&amp;", "<": "&lt;", ">": "&gt;", '"': "&quot;", "'": "&apos;"}
    for ch, ent in want.items():
        ck.ob(R, "escape_xml|%s" % ent, ch in chars and ent in strs,
              "escape_xml does not map %r to %s (chars seen %s, entities %s)" % (ch, ent, sorted(chars)[:12], sorted(strs)[:8]), b.file, b.line,
              sample={"char": ch, "entity": ent})


def stored_eq_parsed(ck, F, rule="STORED-EQ-PARSED"):
    """What is saved is what is kept in memory: in Model::set_cell_with_formula (and set_cell_with_array_formula-like
    siblings) the parse tree pushed into Model.parsed_formulas and the tree whose to_rc_format text is pushed into
    Worksheet.shared_formulas are the same value -- the same reaching definitions of the same local at both points."""
    from mir import reaching_defs, defs_reaching
    MODEL = "ironcalc_base::model::Model"
    n = 0
    for path in sorted(F.body_paths()):
        h = F.heads[path]
        if h.get("impl_adt") != MODEL or h.get("bkind") != "fn":
            continue
        cs = F.calls.get(path, [])
        if not any(c.endswith("stringify::to_rc_format") for c in cs):
            continue
        b = F.body(path)
        rd = None
        # the tree that is stringified
        rc = []
        for bi, t in b.calls_to("stringify::to_rc_format"):
            rt = b.ref_target(t["args"][0]) if t["args"] else None
            if rt is not None and not place_proj(rt):
                rc.append((bi, rt["l"]))
        # the tree that is stored in memory
        kept = []
        for bi, t in b.calls():
            if not (b.callee_q(t) or "").endswith("Vec::push") or len(t["args"]) != 2:
                continue
            from rules_attr import sources
            if ("field", MODEL, "parsed_formulas") not in sources(b, t["args"][0]):
                continue
            r = b.trace(t["args"][1])
            ops = r["rv"]["ops"] if r["kind"] == "rv" and r["rv"]["k"] == "agg" else [t["args"][1]]
            for o in ops:
                q = op_place(o)
                while q is not None and not place_proj(q) and not b.local_name(q["l"]) and len(b.defs().get(q["l"], [])) == 1:
                    rv = b.def_rvalue(q["l"])
                    if rv is None or rv["k"] != "use":
                        break
                    q = op_place(rv["o"])
                if q is not None and not place_proj(q) and "parser::Node" in b.locals[q["l"]]:
                    # statement index of the move into the tuple: use the block of the push, terminator point
                    kept.append((bi, q["l"]))
        if not rc or not kept:
            continue
        rd = reaching_defs(b)
        qn = h["name"]
        for (kb, kl) in kept:
            same = [x for x in rc if x[1] == kl]
            n += 1
            f, l = b.loc(kb)
            if not same:
                ck.ob(rule, "%s|same-local" % qn, False, "%s keeps one parse tree in memory but stores the text of another local" % qn, f, l)
                continue
            for (sb, sl) in same:
                # definitions reaching the to_rc_format call vs. those reaching the move into parsed_formulas; the move
                # happens in a statement before the push, so look at the start of the blocks leading to it
                d1 = defs_reaching(b, rd, sb, 0, sl) if not any(not place_proj(s["p"]) and s["p"]["l"] == sl for s in b.blocks[sb]["s"]) else defs_reaching(b, rd, sb, "t", sl)
                d2 = set()
                for bi, si, s in b.stmts():
                    q = op_place(s["rv"].get("o", {})) if s["rv"]["k"] == "use" else None
                    if q is not None and not place_proj(q) and q["l"] == kl and s["rv"]["o"].get("m") is not None and b.dominates(bi, kb):
                        d2 |= set(defs_reaching(b, rd, bi, si, kl))
                ck.ob(rule, "%s|stored text and kept tree have the same definitions" % qn, bool(d2) and set(d1) == d2,
                      "%s stringifies `%s` as defined at %s but keeps it in memory as defined at %s: the saved formula text is not the text of the "
                      "tree the model evaluates (a reload re-parses something else)" % (qn, b.local_name(kl) or "_%d" % kl, sorted(map(str, d1)), sorted(map(str, d2))),
                      f, l, sample={"fn": qn, "local": b.local_name(kl)})
    ck.note("stored_formula_sites", n)


def escape_agree(ck, F, rule="ESCAPE-AGREE"):
    """The `_xHHHH_` escape is recognised by the same character class on both sides: the predicates the writer uses to
    decide that a literal `_` starts a look-alike (export::escape::starts_xlsx_escape_pattern) are the predicates the
    reader uses to decide that `_xHHHH_` is an escape (import::shared_strings::decode_xlsx_escapes and its closures).
    A narrower class on the writer side lets text through that the reader then decodes."""
    def preds(root_suffix):
        out = set()
        roots = [p for p in F.body_paths() if F.qname_of(p) and (F.qname_of(p).endswith(root_suffix) or ("%s::{closure" % root_suffix) in F.qname_of(p))]
        # private helpers of the same file that the function calls (and their closures): `escaped_char_at(s, bytes, i)`
        extra = []
        for p in list(roots):
            if "{closure" in (F.qname_of(p) or ""):
                continue
            b0 = F.body(p)
            for bi, t in b0.calls():
                c = b0.callee(t)
                hc = F.heads.get(c) if c else None
                if hc is not None and F.has(c) and hc.get("file") == b0.file and hc.get("vis") not in ("pub",) and c not in roots and \
                        not (hc.get("output") == "bool" and F.body(c).nargs == 1):
                    extra.append(c)
                    extra += [x for x in F.body_paths() if F.heads[x].get("root") == c and x != c]
        roots = roots + [x for x in extra if x not in roots]
        for p in roots:
            b = F.body(p)
            for bi, t in b.calls():
                q = b.callee_q(t) or ""
                last = q.rsplit("::", 1)[-1]
                c = b.callee(t)
                is_pred = last.startswith("is_") and ("char" in q or "u8" in q or "num::" in q or "ascii" in last)
                if c in F.heads and F.heads[c].get("output") == "bool" and F.body(c).nargs == 1:
                    out.add("local:" + F.qname_of(c).rsplit("::", 1)[-1])
                elif is_pred:
                    out.add(last)
        return out, roots
    w, wr = preds("export::escape::starts_xlsx_escape_pattern")
    r, rr = preds("import::shared_strings::decode_xlsx_escapes")
    ck.ob(rule, "anchors", bool(wr) and bool(rr) and bool(w) and bool(r),
          "writer / reader of the _xHHHH_ escape not found or they use no character predicate (writer %s, reader %s)" % (sorted(w), sorted(r)))
    ck.ob(rule, "writer-class == reader-class", w == r,
          "the xlsx writer recognises an `_xHHHH_` look-alike with %s but the reader decodes escapes with %s: text matching only the "
          "reader's class is written verbatim and comes back decoded" % (sorted(w), sorted(r)),
          F.heads[wr[0]]["file"] if wr else "", F.heads[wr[0]]["line"] if wr else 0, sample={"writer": sorted(w), "reader": sorted(r)})


def part_names_positional(ck, F, rule="COVER-xlsx"):
    """Package part names are positional: every number that save_xlsx_to_writer formats into a path
    (xl/worksheets/sheetN.xml, its _rels file, ...) is the 1-based position of the sheet in the workbook -- the reader
    derives the rels path from the worksheet path, and [Content_Types] / workbook.xml.rels use the position too.  No
    formatted value comes from Worksheet.sheet_id (which stops matching the position after a delete or a move)."""
    from rules_attr import sources
    b = ck.need(F.one, "export::save_xlsx_to_writer")
    n = 0
    for bi, t in b.calls():
        q = b.callee_q(t) or ""
        if not q.endswith("new_display") or not t["args"]:
            continue
        sr = sources(b, t["args"][0])
        ids = [x for x in sr if x[0] == "field" and x[2] == "sheet_id"]
        positional = any(x[0] == "call" and x[1].endswith("Iterator::enumerate") for x in sr) or any(x[0] == "call" and "Enumerate" in x[1] for x in sr)
        if not ids and not positional:
            continue
        n += 1
        f, l = b.loc(bi)
        ck.ob(rule, "save_xlsx_to_writer|formatted part number #%d is positional" % n, not ids,
              "save_xlsx_to_writer names a package part after Worksheet.sheet_id: after a sheet was deleted or moved the relationship "
              "file no longer sits next to its worksheet and the importer loses (or swaps) the sheet's external hyperlinks", f, l)
    ck.ob(rule, "save_xlsx_to_writer|part numbers", n >= 2, "expected at least two positional part names in save_xlsx_to_writer, found %d" % n, b.file, b.line)


def flag_attribute_pairing(ck, F, rule="COVER-xlsx"):
    """An optional attribute is written according to its own flag: wherever the xlsx exporter branches on a boolean field `f` of
    a workbook type and one branch selects a literal piece of XML that names an attribute (` applyFill="0"`), the attribute --
    converted from camelCase to snake_case -- is not the name of a *different* field of the same type.  `applyFill` chosen by
    `apply_font` writes one category of a named style under another's flag; the reader then restores the wrong one."""
    import re
    from mir import const_str, op_place, place_proj
    from rules_attr import sources

    def snake(a):
        return re.sub(r"(?<!^)([A-Z])", lambda m: "_" + m.group(1), a).lower()
    n = 0
    for path in sorted(F.body_paths()):
        h = F.heads[path]
        if h["crate"] != "ironcalc" or "/export/" not in h["file"]:
            continue
        b = F.body(path)
        qn = b.qname.split("::", 1)[-1]
        for bi, blk in enumerate(b.blocks):
            t = blk["t"]
            if t["k"] != "switch" or t["ty"] != "bool":
                continue
            fl = {(x[1], x[2]) for x in sources(b, t["o"]) if x[0] == "field"}
            if len(fl) != 1:
                continue
            owner, fld = next(iter(fl))
            adt = F.adts.get(owner) or {}
            names = {f.get("name") for v in adt.get("variants", []) for f in v.get("fields", [])}
            if fld not in names:
                continue
            # literals selected in the two arms (straight-line code up to the merge)
            lits = []
            for tgt in [x for _, x in t["targets"]] + [t["otherwise"]]:
                cur, steps = tgt, 0
                while cur is not None and steps < 4:
                    steps += 1
                    for s in b.blocks[cur]["s"]:
                        for o in ([s["rv"].get("o")] if s["rv"]["k"] in ("use", "cast") else []):
                            cs = const_str(o) if o else None
                            if cs:
                                lits.append((cs, cur))
                    nt = b.blocks[cur]["t"]
                    if nt["k"] != "goto" or len(b.preds(nt["to"])) > 1:
                        break
                    cur = nt["to"]
            for lit, lb in lits:
                for attr in re.findall(r'([A-Za-z][A-Za-z0-9]*)="', lit):
                    sn = snake(attr)
                    n += 1
                    wrong = sn in names and sn != fld
                    f, l = b.loc(bi)
                    ck.ob(rule, "%s|%s written under %s.%s" % (qn, attr, owner.rsplit("::", 1)[-1], fld), not wrong,
                          "%s writes the attribute %s according to the flag %s.%s, but %s.%s is a field of its own: the two categories are exported "
                          "under each other's flag and the importer restores the wrong one" % (qn, attr, owner.rsplit("::", 1)[-1], fld, owner.rsplit("::", 1)[-1], sn),
                          f, l, sample={"fn": qn, "attribute": attr, "flag": fld})
    ck.ob(rule, "flag-attribute pairs", n >= 8, "only %d (flag, attribute literal) pairs found in the exporter (anchor lost?)" % n)
