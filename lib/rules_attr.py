"""ATTR-FLOW (C29): row/column descriptor setters change exactly the attribute they are asked to change."""
from mir import all_places, op_place, place_proj, place_str

COL = "ironcalc_base::types::Col"
ROW = "ironcalc_base::types::Row"
WS = "ironcalc_base::types::Worksheet"

# attribute -> descriptor fields that represent it
COL_ATTR = {"width": {"width", "custom_width"}, "hidden": {"hidden"}, "style": {"style"}}
ROW_ATTR = {"height": {"height", "custom_height"}, "hidden": {"hidden"}, "style": {"s", "custom_format"}}


def sources(body, op, depth=0, seen=None, text_calls=False):
    """Set of provenance atoms of an operand: ('param', name) | ('field', owner, field) | ('call', qname) |
    ('const',) | ('?',). Follows copies, refs, casts, binary/unary ops, aggregates and call arguments of
    pure std helpers (clone, unwrap_or, deref, index)."""
    if seen is None:
        seen = set()
    out = set()
    if depth > 12:
        return {("?",)}
    if op.get("k") is not None:
        return {("const",)}
    p = op_place(op)
    if p is None:
        return {("?",)}
    key = (p["l"], str(place_proj(p)))
    if key in seen:
        return out
    seen.add(key)
    rp = body.resolve_place(p, through_named=True)
    fs = [e for e in place_proj(rp) if e[0] == "f" and e[3] and str(e[3]).startswith(("ironcalc_base::", "ironcalc::"))]
    base = rp["l"]
    if fs:
        out.add(("field", fs[-1][3], fs[-1][2]))
        # the container the field is read from
        if 1 <= base <= body.nargs:
            return out
        rv = body.def_rvalue(base)
        if rv is not None and rv["k"] == "call":
            out.add(("via", body.callee_q(rv["t"])))
        return out
    if 1 <= base <= body.nargs:
        if base == 1 and place_proj(rp) and body._upvars and body.local_name(1) is None:
            # a captured variable of a closure: name it as the enclosing function does
            up = _upvar_name(body, rp)
            if up is not None:
                out.add(up)
                return out
        out.add(("param", body.local_name(base)))
        return out
    ds = body.defs().get(base, [])
    if not ds:
        return {("?",)}
    # `_t.i` of a tuple built in this body: only the i-th component flows (pattern `let (a, b) = (x, y)`)
    pj = place_proj(rp)
    if pj and pj[0][0] == "f" and pj[0][3] == "tuple" and all(si != "t" and body.blocks[bi]["s"][si]["rv"]["k"] == "agg"
                                                              and body.blocks[bi]["s"][si]["rv"].get("agg") == "tuple" for bi, si in ds):
        for bi, si in ds:
            ops = body.blocks[bi]["s"][si]["rv"]["ops"]
            if pj[0][1] < len(ops):
                o = ops[pj[0][1]]
                q = op_place(o)
                if q is None:
                    out |= sources(body, o, depth + 1, seen, text_calls)
                else:
                    out |= sources(body, {"c": {"l": q["l"], "p": list(place_proj(q)) + list(pj[1:])}}, depth + 1, seen, text_calls)
        return out
    for bi, si in ds:
        if si == "t":
            t = body.blocks[bi]["t"]
            q = body.callee_q(t) or "?"
            last = q.rsplit("::", 1)[-1]
            if q.startswith("ironcalc_base::") or q.startswith("ironcalc::"):
                out.add(("call", q))
                if text_calls:
                    # text-to-text helpers of the crate (formula_without_prefix ..): what they return is made of their text arguments
                    for a in t["args"]:
                        pa = op_place(a)
                        if pa is not None and ("str" in body.locals[pa["l"]] or "String" in body.locals[pa["l"]]):
                            out |= sources(body, a, depth + 1, seen, text_calls)
            elif last in ("clone", "unwrap_or", "unwrap_or_default", "deref", "index", "to_owned", "into", "from", "copied",
                          "cloned", "branch", "unwrap", "as_ref", "borrow"):
                for a in t["args"]:
                    out |= sources(body, a, depth + 1, seen, text_calls)
            else:
                out.add(("call", q))
                for a in t["args"]:
                    out |= sources(body, a, depth + 1, seen, text_calls)
            continue
        rv = body.blocks[bi]["s"][si]["rv"]
        k = rv["k"]
        if k in ("use", "cast", "repeat"):
            out |= sources(body, rv["o"], depth + 1, seen, text_calls)
        elif k in ("ref", "rawptr"):
            out |= sources(body, {"c": rv["p"]}, depth + 1, seen, text_calls)
        elif k == "bin":
            out |= sources(body, rv["a"], depth + 1, seen, text_calls) | sources(body, rv["b"], depth + 1, seen, text_calls)
            if rv["op"] not in ("Eq", "Ne", "Lt", "Le", "Gt", "Ge"):
                out.add(("arith", rv["op"].replace("WithOverflow", "")))
        elif k == "un":
            out |= sources(body, rv["a"], depth + 1, seen, text_calls)
        elif k == "agg":
            for o in rv["ops"]:
                out |= sources(body, o, depth + 1, seen, text_calls)
        elif k == "discr":
            out |= sources(body, {"c": rv["p"]}, depth + 1, seen, text_calls)
        else:
            out.add(("?",))
    return out


def _upvar_name(body, rp):
    """('param', n) when the place reads the captured variable `n` and `n` is a parameter of the function the closure
    is written in; ('upvar', n) for a captured local."""
    pj = [tuple(e[:2]) for e in place_proj(rp)]
    best = None
    for n, up in body._upvars.items():
        if up["l"] != 1:
            continue
        uj = [tuple(e[:2]) for e in place_proj(up)]
        m = min(len(uj), len(pj))
        if m and uj[:m] == pj[:m] and (best is None or len(uj) > best[1]):
            best = (n, len(uj))
    if best is None:
        return None
    n = best[0]
    parent = None
    if body.facts is not None:
        h = body.facts.heads.get(body.path, {})
        if h.get("parent") and body.facts.has(h["parent"]):
            parent = body.facts.body(h["parent"])
    while parent is not None:
        if parent.arg_local(n) is not None:
            return ("param", n)
        h = body.facts.heads.get(parent.path, {})
        if parent._upvars.get(n) is not None and h.get("parent") and body.facts.has(h["parent"]):
            parent = body.facts.body(h["parent"])
            continue
        break
    return ("upvar", n)


def _attr_of_field(table, field):
    for a, fs in table.items():
        if field in fs:
            return a
    return None


def _descriptor_writes(body, adt):
    """[(bi, si, local or None, field, operand)] for every store into a field of a descriptor: aggregate
    constructions (one entry per field) and field assignments."""
    out = []
    for bi, si, s in body.stmts():
        rv = s["rv"]
        if rv["k"] == "agg" and rv.get("agg") == "adt" and rv["adt"] == adt:
            for f, o in zip(rv["fields"], rv["ops"]):
                out.append((bi, si, ("new", s["p"]["l"]), f, o))
        elif place_proj(s["p"]):
            p = body.resolve_place(s["p"], through_named=False)
            fs = [e for e in place_proj(p) if e[0] == "f"]
            if fs and fs[-1][3] == adt and rv["k"] == "use":
                kind = "local" if not any(e[0] == "*" for e in place_proj(p)) else "inplace"
                out.append((bi, si, (kind, p["l"]), fs[-1][2], rv["o"]))
    return out


def column_flow(ck, F):
    R = "ATTR-FLOW"
    b = ck.need(F.one, "Worksheet::set_column_width_and_style")
    params = {"width": "width", "hidden": "hidden", "style": "style"}
    writes = _descriptor_writes(b, COL)
    ck.ob(R, "set_column_width_and_style|descriptor-writes", len(writes) >= 20,
          "expected the target, pre and post descriptors plus the in-place branch, found %d field stores" % len(writes), b.file, b.line)
    # classify descriptor locals: the one built from parameters is the target; those built from cols[index] are copies
    by_local = {}
    for bi, si, (kind, l), f, o in writes:
        by_local.setdefault((kind, l), []).append((bi, si, f, o))
    for (kind, l), ws in sorted(by_local.items(), key=lambda x: str(x[0])):
        name = b.local_name(l) or "_%d" % l
        srcs = {f: sources(b, o) for bi, si, f, o in ws}
        is_copy = kind == "new" and any(x[0] == "field" and x[1] == COL for x in srcs.get("width", set()))
        for bi, si, f, o in ws:
            attr = _attr_of_field(COL_ATTR, f)
            if attr is None:
                continue  # min / max
            sr = sources(b, o)
            fl, ln = b.loc(bi, si)
            if is_copy:
                ok = sr and all(x[0] in ("via",) or (x[0] == "field" and x[1] == COL and x[2] == f) for x in sr)
                ck.ob(R, "set_column_width_and_style|%s.%s|copied-from-same-field" % (name, f), bool(ok),
                      "split descriptor `%s` takes %s from %s instead of the same field of the descriptor it replaces" % (name, f, sorted(sr)),
                      fl, ln, sample={"descriptor": name, "field": f, "sources": sorted(map(str, sr))})
            else:
                want = ("param", params[attr])
                ok = want in sr and not [x for x in sr if x[0] == "field" and x[1] == COL] and \
                    not [x for x in sr if x[0] == "param" and x != want]
                ck.ob(R, "set_column_width_and_style|%s.%s|from-parameter-%s" % (name if kind != "inplace" else "in-place", f, params[attr]), ok,
                      "target descriptor field `%s` is written from %s, not from the `%s` parameter: the requested %s is dropped" % (f, sorted(sr), params[attr], attr),
                      fl, ln, sample={"descriptor": name, "field": f, "sources": sorted(map(str, sr))})


def stored_getter_ok(F, getter_body, attr):
    """A getter supplies the *stored* attribute when, among the Col attribute fields, it reads only those
    that represent that attribute."""
    read = set()
    for bi, si, p, role in all_places(getter_body):
        for e in place_proj(p):
            if e[0] == "f" and e[3] == COL:
                read.add(e[2])
    other = {f for f in read if _attr_of_field(COL_ATTR, f) not in (None, attr)}
    return not other, sorted(other)


def column_wrappers(ck, F):
    R = "ATTR-FLOW"
    target = ck.need(F.one, "Worksheet::set_column_width_and_style")
    order = ["column", "width", "hidden", "style"]
    for w, changed in (("set_column_style", "style"), ("set_column_width", "width"), ("set_column_hidden", "hidden")):
        b = ck.need(F.one, "Worksheet::" + w)
        cs = b.calls_to("Worksheet::set_column_width_and_style")
        ck.ob(R, "%s|calls-setter-once" % w, len(cs) == 1, "%s calls set_column_width_and_style %d times" % (w, len(cs)), b.file, b.line)
        if len(cs) != 1:
            continue
        bi, t = cs[0]
        fl, ln = b.loc(bi)
        for i, attr in enumerate(order):
            if i == 0:
                continue
            sr = sources(b, t["args"][i + 1])
            calls = [x[1] for x in sr if x[0] == "call"]
            if attr == changed:
                ok = any(x[0] == "param" for x in sr) and not calls
                ck.ob(R, "%s|%s|from-own-parameter" % (w, attr), ok,
                      "%s passes %s from %s instead of its own parameter" % (w, attr, sorted(sr)), fl, ln)
                continue
            ok = len(calls) == 1
            why = "no getter"
            if ok:
                gb = F.body([p for p in F.find(calls[0].split("::", 1)[-1]) or F.by_qname.get(calls[0], [])][0]) if (F.by_qname.get(calls[0])) else None
                gb = F.body(F.by_qname[calls[0]][0]) if F.by_qname.get(calls[0]) else None
                if gb is None:
                    ok = False
                else:
                    ok, other = stored_getter_ok(F, gb, attr)
                    why = "getter %s also reads Col.%s" % (calls[0].rsplit("::", 1)[-1], other)
            ck.ob(R, "%s|%s|from-stored-attribute" % (w, attr), ok,
                  "%s must leave the column's %s unchanged but passes a derived view of it (%s): e.g. a hidden column comes back with the wrong %s" % (w, attr, why, attr),
                  fl, ln, sample={"wrapper": w, "attribute": attr, "getter": calls})


def row_flow(ck, F):
    R = "ATTR-FLOW"
    for fn, changed, param in (("set_row_style", "style", "style_index"), ("set_row_hidden", "hidden", "hidden"), ("set_row_height", "height", "height")):
        b = ck.need(F.one, "Worksheet::" + fn)
        writes = _descriptor_writes(b, ROW)
        ck.ob(R, "%s|descriptor-writes" % fn, len(writes) >= 7, "%s: expected an in-place branch and a new Row, found %d stores" % (fn, len(writes)), b.file, b.line)
        for bi, si, (kind, l), f, o in writes:
            attr = _attr_of_field(ROW_ATTR, f)
            fl, ln = b.loc(bi, si)
            sr = sources(b, o)
            if kind == "inplace":
                ck.ob(R, "%s|in-place %s|only-own-attribute" % (fn, f), attr == changed,
                      "%s overwrites Row.%s of an existing row, which belongs to the row's %s, not its %s" % (fn, f, attr, changed), fl, ln,
                      sample={"fn": fn, "field": f, "attribute": attr})
                if attr == changed:
                    ok = ("param", param) in sr or sr <= {("const",)}
                    ck.ob(R, "%s|in-place %s|from-parameter" % (fn, f), ok or f in ("custom_height", "custom_format"),
                          "%s writes Row.%s from %s" % (fn, f, sorted(sr)), fl, ln)
            elif kind == "new":
                if attr is None:
                    continue
                if attr == changed:
                    ok = ("param", param) in sr or sr <= {("const",)}
                    ck.ob(R, "%s|new Row.%s|from-parameter" % (fn, f), ok, "%s builds Row.%s from %s" % (fn, f, sorted(sr)), fl, ln)
                else:
                    # attributes not being changed: defaults (constants) or the row's current value
                    # arithmetic whose leaves are all constants is still a constant (DEFAULT_ROW_HEIGHT / ROW_HEIGHT_FACTOR)
                    ok = all(x[0] in ("const", "arith") or (x[0] == "call" and x[1].endswith(("is_row_hidden", "row_height", "get_row_style"))) for x in sr)
                    ck.ob(R, "%s|new Row.%s|default-or-current" % (fn, f), ok,
                          "%s builds Row.%s (not the attribute being set) from %s" % (fn, f, sorted(sr)), fl, ln,
                          sample={"fn": fn, "field": f, "sources": sorted(map(str, sr))})


# ------------------------------------------------------------------------------------------------ C30
STYLE = "ironcalc_base::types::Style"
CELLXFS = "ironcalc_base::types::CellXfs"
STYLES = "ironcalc_base::types::Styles"
STYLE_TO_XF = {"alignment": {"alignment"}, "quote_prefix": {"quote_prefix"}, "num_fmt": {"num_fmt_id"}, "fill": {"fill_id"},
               "font": {"font_id"}, "border": {"border_id"}}
STYLE_TO_POOL = {"num_fmt": "num_fmts", "fill": "fills", "font": "fonts", "border": "borders"}


def cover_style(ck, F):
    """COVER-style: interning reads every field of Style; read-back fills every field of Style from the same-named part
    of the CellXfs record / the component pool it indexes."""
    R = "COVER-style"
    sadt = ck.need(F.adt, "types::Style")
    fields = [f["name"] for f in sadt["variants"][0]["fields"]]
    ck.ob(R, "Style|fields-known", sorted(fields) == sorted(STYLE_TO_XF), "Style has fields %s; the rule knows %s" % (fields, sorted(STYLE_TO_XF)),
          sadt.get("file", ""), sadt.get("line", 0))
    # (a) interning side reads every field
    read = set()
    for qn in ("types::Styles::create_new_style", "types::Styles::get_or_create_component_ids"):
        b = ck.need(F.one, qn)
        for bi, si, p, role in all_places(b):
            for e in place_proj(p):
                if e[0] == "f" and e[3] == STYLE:
                    read.add(e[2])
    for f in fields:
        ck.ob(R, "create_new_style|reads Style.%s" % f, f in read,
              "interning a style never reads Style.%s: two styles differing only in %s would share one record" % (f, f), sample={"field": f, "read": f in read})
    # the CellXfs record built by create_new_style takes each part from the style / the ids computed from it
    cn = F.one("types::Styles::create_new_style")
    for bi, si, s in cn.stmts():
        rv = s["rv"]
        if rv["k"] == "agg" and rv.get("adt") == CELLXFS:
            ops = dict(zip(rv["fields"], rv["ops"]))
            for sf, xfs in STYLE_TO_XF.items():
                for xf in xfs:
                    sr = sources(cn, ops[xf])
                    ok = ("field", STYLE, sf) in sr or any(x[0] == "call" and x[1].endswith("get_or_create_component_ids") for x in sr)
                    ck.ob(R, "create_new_style|CellXfs.%s<-Style.%s" % (xf, sf), ok,
                          "create_new_style stores CellXfs.%s from %s, not from Style.%s" % (xf, sorted(map(str, sr)), sf), *cn.loc(bi, si))
    # (b) read-back side
    for qn in ("types::Styles::get_style", "types::Styles::get_style_index"):
        b = ck.need(F.one, qn)
        aggs = [(bi, si, s) for bi, si, s in b.stmts() if s["rv"]["k"] == "agg" and s["rv"].get("adt") == STYLE]
        ck.ob(R, "%s|builds-Style" % b.name, len(aggs) == 1, "%s builds %d Style values" % (b.name, len(aggs)), b.file, b.line)
        for bi, si, s in aggs:
            ops = dict(zip(s["rv"]["fields"], s["rv"]["ops"]))
            for sf in fields:
                sr = sources(b, ops[sf])
                # a lookup helper (get_num_fmt(id, &pool)): the arguments are what is read
                if any(x[0] == "call" and x[1].endswith("::get_num_fmt") for x in sr):
                    for cb, t in b.calls_to("number_format::get_num_fmt"):
                        for a in t["args"]:
                            sr = sr | sources(b, a)
                xf_ok = any(x[0] == "field" and x[1] == CELLXFS and x[2] in STYLE_TO_XF[sf] for x in sr)
                other_xf = [x for x in sr if x[0] == "field" and x[1] == CELLXFS and x[2] not in STYLE_TO_XF[sf]]
                pool = STYLE_TO_POOL.get(sf)
                pool_ok = pool is None or any(x[0] == "field" and x[1] == STYLES and x[2] == pool for x in sr)
                other_pool = [x for x in sr if x[0] == "field" and x[1] == STYLES and x[2] != pool and x[2] != "cell_xfs"]
                f, l = b.loc(bi, si)
                ck.ob(R, "%s|Style.%s" % (b.name, sf), xf_ok and pool_ok and not other_xf and not other_pool,
                      "%s fills Style.%s from %s; expected CellXfs.%s%s" % (b.name, sf, sorted(map(str, sr)), sorted(STYLE_TO_XF[sf]), " through Styles.%s" % pool if pool else ""),
                      f, l, sample={"fn": b.name, "field": sf, "sources": sorted(map(str, sr))})
    # (c) both num-fmt lookups consult the same constant table
    a = ck.need(F.one, "number_format::get_default_num_fmt_id")
    g = ck.need(F.one, "number_format::get_num_fmt")

    def consts(b):
        out = set()
        from mir import rvalue_operands, term_operands
        for blk in b.blocks:
            ops = []
            for s_ in blk["s"]:
                ops.extend(rvalue_operands(s_["rv"]))
            ops.extend(term_operands(blk["t"]))
            for o in ops:
                k = o.get("k")
                if k and k.get("cdef"):
                    out.add(k["cdef"])
        return out
    ca, cg = consts(a), consts(g)
    ck.ob(R, "num_fmt|same-table", bool(ca & cg) and any(c.endswith("DEFAULT_NUM_FMTS") for c in ca & cg),
          "get_default_num_fmt_id uses %s, get_num_fmt uses %s: the id<->code lookups must share one table" % (sorted(ca), sorted(cg)), a.file, a.line,
          sample={"id_lookup": sorted(ca), "code_lookup": sorted(cg)})
    # first-match shape: get_default_num_fmt_id returns inside the loop on equality
    # (the loop may be spelled `iter().position(|f| f == code)`: the equality test then sits in the closure, and position /
    #  find return the first match by definition)
    from rules_struct import unit_bodies as _ub
    eqs = [bi for bb in _ub(F, a) for bi, t in bb.calls() if (bb.callee_q(t) or "").rsplit("::", 1)[-1] == "eq"]
    ck.ob(R, "get_default_num_fmt_id|first-match", len(eqs) == 1, "expected one equality test in a first-match loop", a.file, a.line)


# ------------------------------------------------------------------------------------------------ C18
def _config_reads(F, P, path, cache={}):
    """{(ADT short name, field)} of language::* / locale::* fields read by a body and its local callees."""
    if path in cache:
        return cache[path]
    out = set()
    for p in P.reachable(path):
        raw = F._raw.get(p, "")
        if "ironcalc_base::language::" not in raw and "ironcalc_base::locale::" not in raw:
            continue
        b = F.body(p)
        for _bi, _si, pl, _role in all_places(b):
            for e in place_proj(pl):
                if e[0] == "f" and e[3] and (str(e[3]).startswith("ironcalc_base::language::") or str(e[3]).startswith("ironcalc_base::locale::")):
                    out.add((e[3].rsplit("::", 1)[-1], e[2]))
    cache[path] = out
    return out


def table_io(ck, F):
    """TABLE-io (C18): for booleans, errors and numbers the part of Language/Locale consulted when a cell's content is
    displayed is also consulted by the branch of set_user_input that recognises that kind of value."""
    from effects import Program
    from mir import enum_switches, arm_region, calls_in
    R = "TABLE-io"
    P = Program(F)
    disp = ck.need(F.one, "types::Cell::get_localized_text")
    CV = "ironcalc_base::cell::CellValue"
    sw = enum_switches(disp, CV)
    if len(sw) != 1:
        ck.anchor("get_localized_text: match over CellValue")
        return
    bi, tg, wild, info = sw[0]
    display = {}
    for kind, variant in (("boolean", "Boolean"), ("number", "Number")):
        region = arm_region(disp, bi, tg[variant])
        reads = set()
        for x in region:
            blk = disp.blocks[x]
            from mir import rvalue_places
            for s in blk["s"]:
                for pl in [s["p"]] + rvalue_places(s["rv"]):
                    for e in place_proj(pl):
                        if e[0] == "f" and e[3] and (str(e[3]).startswith("ironcalc_base::language::") or str(e[3]).startswith("ironcalc_base::locale::")):
                            reads.add((e[3].rsplit("::", 1)[-1], e[2]))
        for cb, t in calls_in(disp, region):
            c = t["fn"].get("r")
            if c in F.heads:
                reads |= _config_reads(F, P, c)
        display[kind] = reads
    # errors are displayed through Cell::value -> to_localized_error_string
    ev = ck.need(F.one, "token::Error::to_localized_error_string")
    display["error"] = _config_reads(F, P, ev.path)
    su = ck.need(F.one, "model::Model::set_user_input")
    sinks = {"boolean": "Worksheet::set_cell_with_boolean", "error": "Worksheet::set_cell_with_error", "number": "Worksheet::set_cell_with_number"}
    for kind, sink in sinks.items():
        cs = su.calls_to(sink)
        ck.ob(R, "set_user_input|%s-sink" % kind, len(cs) >= 1, "set_user_input never stores a %s" % kind, su.file, su.line)
        if not cs:
            continue
        sb = cs[0][0]
        # everything consulted to decide to take this branch: operands of the dominating switches, and the value stored
        reads = set()
        ops = []
        # switches that decide whether this sink is reached: those dominated by the first switch that follows the
        # previous kind's test chain is hard to delimit; take every switch from which the sink is reachable and which
        # cannot reach it on *all* of its edges (i.e. it really decides)
        for d in range(len(su.blocks)):
            t = su.term(d)
            if t["k"] == "switch" and not su.is_cleanup(d):
                reach = [sb in su.reachable_from(x) for x in su.succs(d)]
                if any(reach):
                    ops.append(t["o"])
        ops.extend(cs[0][1]["args"][1:])
        seen_calls = set()
        for o in ops:
            for x in sources(su, o):
                if x[0] == "field" and (x[1].startswith("ironcalc_base::language::") or x[1].startswith("ironcalc_base::locale::")):
                    reads.add((x[1].rsplit("::", 1)[-1], x[2]))
                if x[0] == "call":
                    for p in F.by_qname.get(x[1], []):
                        reads |= _config_reads(F, P, p)
        need = {k for k in display[kind] if k[0] in ("Booleans", "Errors", "NumbersSymbols")}
        got = {k for k in reads if k[0] in ("Booleans", "Errors", "NumbersSymbols")}
        missing = sorted(need - got)
        f, l = su.loc(sb)
        ck.ob(R, "set_user_input|%s|reads-what-display-reads" % kind, not missing,
              "a %s is displayed using %s but the branch of set_user_input that recognises a %s never consults %s: in a language/locale where those differ "
              "from English the displayed content does not re-enter as the same %s" % (kind, sorted(need), kind, missing, kind), f, l,
              sample={"kind": kind, "display_reads": sorted(map(str, need)), "input_reads": sorted(map(str, got))})
    # quote prefix: display prepends ' iff style.quote_prefix; input strips ' and sets the quote-prefix style
    gl = ck.need(F.one, "model::Model::get_localized_cell_content")
    reads_qp = any(e[0] == "f" and e[2] == "quote_prefix" for _b, _s, pl, _r in all_places(gl) for e in place_proj(pl))
    strips = bool(su.calls_to("str::strip_prefix")) and bool(su.calls_to("Styles::get_style_with_quote_prefix"))
    ck.ob(R, "quote-prefix|display-and-input-agree", reads_qp and strips,
          "quote prefix: display side reads style.quote_prefix=%s, input side strips the apostrophe and sets the quote-prefix style=%s" % (reads_qp, strips),
          su.file, su.line, sample={"display_reads_quote_prefix": reads_qp, "input_sets_quote_prefix": strips})


def content_not_display(ck, F, rule="CONTENT-TEXT"):
    """The text offered for editing is never a display rendering that may be an error string: in
    Model::get_localized_cell_content (a) the `.text` of a format_number result is only read where its `.error` was
    tested to be None, and (b) no display function (get_formatted_cell_value, formatted_value) feeds the result."""
    from effects import Program
    P = Program(F)
    b = ck.need(F.one, "model::Model::get_localized_cell_content")
    display = set(F.find("model::Model::get_formatted_cell_value")) | set(F.find("Cell::formatted_value"))
    bad_calls = [(bi, b.callee_q(t)) for bi, t in b.calls() if b.callee(t) in F.heads and (b.callee(t) in display or P.reaches(b.callee(t), display))]
    ck.ob(rule, "get_localized_cell_content|no-display-function", not bad_calls,
          "get_localized_cell_content calls %s: the editor would be offered display text (e.g. #VALUE! for an unrenderable date), which does not parse back to the stored value"
          % (bad_calls[0][1] if bad_calls else ""), b.file, b.loc(bad_calls[0][0])[1] if bad_calls else b.line)
    fmts = b.calls_to("formatter::format::format_number")
    ck.ob(rule, "get_localized_cell_content|format_number-sites", len(fmts) >= 1, "no format_number call found (anchor lost?)", b.file, b.line)
    for bi, t in fmts:
        if place_proj(t["dest"]):
            continue
        d = t["dest"]["l"]
        # None-edges of tests of d.error
        none_edges = []
        for sb, blk in enumerate(b.blocks):
            tt = blk["t"]
            if tt["k"] != "switch":
                continue
            for s in blk["s"]:
                if s["rv"]["k"] == "discr":
                    rp = b.resolve_place(s["rv"]["p"])
                    pj = place_proj(rp)
                    if rp["l"] == d and pj and pj[0][0] == "f" and pj[0][2] == "error":
                        for v, tg in tt["targets"]:
                            if v == "0" and len(b.preds(tg)) == 1:
                                none_edges.append(tg)
            # `formatted.error.is_none()` call form
        for cb, ct in b.calls():
            if (b.callee_q(ct) or "").endswith("Option::is_none") and ct["args"]:
                rt = b.ref_target(ct["args"][0])
                if rt is not None and rt["l"] == d and place_proj(rt) and place_proj(rt)[0][2] == "error":
                    nb = ct.get("to")
                    if nb is not None and b.blocks[nb]["t"]["k"] == "switch":
                        st = b.blocks[nb]["t"]
                        if len(b.preds(st["otherwise"])) == 1:
                            none_edges.append(st["otherwise"])
        k = 0
        for rb, si, s in b.stmts():
            from mir import rvalue_places
            for pl in rvalue_places(s["rv"]):
                pj = place_proj(pl)
                if pl["l"] == d and pj and pj[0][0] == "f" and pj[0][2] == "text":
                    k += 1
                    f, l = b.loc(rb, si)
                    ck.ob(rule, "get_localized_cell_content|text-read-after-error-check#%d" % k, any(b.dominates(e, rb) for e in none_edges),
                          "the formatter's text is used as cell content without checking that formatting succeeded", f, l)
        ck.ob(rule, "get_localized_cell_content|text-read", k >= 1, "format_number result is never read (anchor lost?)", b.file, b.line)


def width_actual(ck, F, rule="WIDTH-ACTUAL"):
    """A stored column width never comes from the *displayed* width: no argument passed as `width` to
    Worksheet::set_column_width / set_column_width_and_style derives from get_column_width (0 for a hidden column);
    relocation code reads get_actual_column_width."""
    n = 0
    for path in sorted(F.body_paths()):
        cs = F.calls.get(path, [])
        if not any(c.endswith("::set_column_width") or c.endswith("::set_column_width_and_style") for c in cs):
            continue
        b = F.body(path)
        for bi, t in b.calls():
            c = b.callee(t)
            q = b.callee_q(t) or ""
            if not (q.endswith("Worksheet::set_column_width") or q.endswith("Worksheet::set_column_width_and_style")) or c not in F.heads:
                continue
            cb = F.body(c)
            idx = [i for i in range(1, cb.nargs + 1) if cb.locals[i] == "f64"]      # the width is the f64 parameter
            if not idx or idx[0] - 1 >= len(t["args"]):
                continue
            sr = sources(b, t["args"][idx[0] - 1])
            bad = [x for x in sr if x[0] == "call" and x[1].endswith("::get_column_width")]
            n += 1
            f, l = b.loc(bi)
            qn = b.qname.split("::", 1)[-1]
            ck.ob(rule, "%s|%s" % (qn, q.rsplit("::", 1)[-1]), not bad,
                  "%s stores a column width read with get_column_width (the displayed width, 0.0 while the column is hidden): "
                  "a hidden column that is moved or rebuilt loses its width" % qn, f, l, sample={"fn": qn})
    ck.note("width_stores", n)


def delete_style_flow(ck, F):
    """ATTR-FLOW for Worksheet::delete_column_style: removing a column's style leaves its other attributes alone --
    every rebuilt descriptor takes width / custom_width / hidden from the same field of the descriptor it replaces,
    and the descriptor of the target column is kept whenever it still carries a width or a hidden flag."""
    R = "ATTR-FLOW"
    b = ck.need(F.one, "Worksheet::delete_column_style")
    writes = _descriptor_writes(b, COL)
    ck.ob(R, "delete_column_style|descriptor-writes", len(writes) >= 12, "expected pre / col / post descriptors, found %d field stores" % len(writes), b.file, b.line)
    for bi, si, (kind, l), f, o in writes:
        if f in ("min", "max", "style"):
            continue
        sr = sources(b, o)
        name = b.local_name(l) or "_%d" % l
        fl, ln = b.loc(bi, si)
        ok = bool(sr) and all(x[0] == "via" or (x[0] == "field" and x[1] == COL and x[2] == f) for x in sr)
        ck.ob(R, "delete_column_style|%s.%s|copied-from-same-field" % (name, f), ok,
              "delete_column_style rebuilds descriptor `%s` with %s from %s instead of the same field of the descriptor it replaces: "
              "deleting a column's style changes its %s" % (name, f, sorted(map(str, sr)), f), fl, ln, sample={"descriptor": name, "field": f})
    # the target column's descriptor is re-inserted under a guard that knows about every remaining attribute
    ins = [(bi, t) for bi, t in b.calls() if (b.callee_q(t) or "").endswith("Vec::insert")]
    guarded = False
    for bi, t in ins:
        tr = b.trace(t["args"][2]) if len(t["args"]) == 3 else {"kind": "?"}
        pl = op_place(t["args"][2]) if len(t["args"]) == 3 else None
        if pl is None or b.local_name(pl["l"]) != "col":
            # moved temp of `col`
            rv = b.def_rvalue(pl["l"]) if pl is not None else None
            q = op_place(rv["o"]) if rv is not None and rv["k"] == "use" else None
            if q is None or b.local_name(q["l"]) != "col":
                continue
        gs = set()
        doms = set(b.dominators_of(bi))
        for d in range(len(b.blocks)):
            tt = b.term(d)
            if tt["k"] != "switch" or tt["ty"] != "bool" or b.is_cleanup(d):
                continue
            succ = b.succs(d)
            reach = [bi == x or bi in b.reachable_from(x) for x in succ]
            # a dominating test, or one arm of a short-circuit `||` / `&&` (one successor cannot reach the insert)
            if d in doms or (any(reach) and not all(reach)):
                gs |= sources(b, tt["o"])
        flds = {x[2] for x in gs if x[0] == "field" and x[1] == COL}
        guarded = True
        fl, ln = b.loc(bi)
        ck.ob(R, "delete_column_style|col kept while it has a width or is hidden", {"custom_width", "hidden"} <= flds,
              "delete_column_style keeps the target column's descriptor only when %s is set: a hidden column without a custom width loses its "
              "descriptor, i.e. it is unhidden by deleting its style" % sorted(flds), fl, ln)
    ck.ob(R, "delete_column_style|col-insert", guarded, "re-insertion of the target column's descriptor not found (anchor lost?)", b.file, b.line)


def intern_exact(ck, F, rule="COVER-style"):
    """Style interning compares by exact equality: the lookups that decide "this font / fill / border / number format /
    style is already in the table" (Styles::get_font_index, get_fill_index, get_border_index, get_num_fmt_index,
    get_style_index) only use PartialEq::eq / ne on the stored value.  Any looser comparison (case-insensitive,
    prefix, normalised) makes two different styles share one table entry: one of them reads back as the other."""
    STYLES = "ironcalc_base::types::Styles"
    n = 0
    for name in ("get_font_index", "get_fill_index", "get_border_index", "get_num_fmt_index", "get_style_index"):
        b = ck.need(F.one, "Styles::" + name)
        cmps = []
        # the function and the closures written in it (`iter().position(|f| f == font)` compares inside one)
        bodies = [b] + [F.body(p) for p in sorted(F.body_paths()) if p != b.path and F.heads[p].get("root") == b.path]
        for bb in bodies:
            for bi, t in bb.calls():
                q = bb.callee_q(t) or ""
                last = q.rsplit("::", 1)[-1]
                if place_proj(t["dest"]) or bb.locals[t["dest"]["l"]] != "bool":
                    continue
                cmps.append((bi if bb is b else 0, q, last))
        # bin Eq on scalars is exact by construction
        loose = [(bi, q) for bi, q, last in cmps if last not in ("eq", "ne", "is_none", "is_some", "is_empty") or
                 not (q.startswith("std::cmp::") or "PartialEq" in q or "cmp::impls" in q or "option::Option" in q or "str::traits" in q or "string::String" in q or "ironcalc_base::types" in q)]
        n += 1
        f, l = b.loc(loose[0][0]) if loose else (b.file, b.line)
        ck.ob(rule, "%s|exact-equality-only" % name, not loose and (bool(cmps) or name == "get_style_index"),
              "Styles::%s decides that a value is already interned with %s: values that differ (e.g. only in letter case) are merged "
              "into one table entry and one of them reads back as the other" % (name, loose[0][1] if loose else "no comparison at all"), f, l,
              sample={"lookup": name, "comparisons": sorted({q for _, q, _ in cmps})})


def localized_number_guard(ck, F, rule="TABLE-io"):
    """Cell::get_localized_text swaps the decimal point for the locale's decimal symbol: the guard that decides
    whether to substitute reads that same symbol (`symbols.decimal`), not another table entry (fr groups with a
    no-break space but still writes `,` for decimals)."""
    b0 = ck.need(F.one, "Cell::get_localized_text")
    SYM = "ironcalc_base::locale::NumbersSymbols"
    from rules_struct import unit_bodies
    reps = []
    for bb in unit_bodies(F, b0, helpers=True):
        reps += [(bb, bi, t) for bi, t in bb.calls() if (bb.callee_q(t) or "").rsplit("::", 1)[-1] in ("replace", "replacen")]
    ck.ob(rule, "get_localized_text|substitution", len(reps) >= 1, "no decimal-point substitution found in get_localized_text or its private helpers (anchor lost?)", b0.file, b0.line)
    for b, bi, t in reps:
        used = {x[2] for a in t["args"] for x in sources(b, a) if x[0] == "field" and x[1] == SYM}
        guards = set()
        for d in b.dominators_of(bi):
            tt = b.term(d)
            if tt["k"] == "switch" and tt["ty"] == "bool":
                guards |= {x[2] for x in sources(b, tt["o"]) if x[0] == "field" and x[1] == SYM}
        f, l = b.loc(bi)
        ck.ob(rule, "get_localized_text|guard reads the substituted symbol", bool(used) and used <= guards and guards <= used,
              "get_localized_text substitutes %s but decides whether to do so from %s: in a locale where the two disagree (fr) a "
              "number is shown with `.` and typing it back makes it text" % (sorted(used), sorted(guards)), f, l,
              sample={"substituted": sorted(used), "guard": sorted(guards)})


def intern_returns(ck, F, rule="COVER-style"):
    """An interned index is always found or made: every value that Styles::get_style_index_or_create and
    get_or_create_component_ids return comes from a lookup (get_*_index), from the table it was just pushed to
    (len, create_new_style, get_new_num_fmt_index) -- never from a constant.  A shortcut such as "the default style is index
    0" is only true for workbooks whose first xf is the default style."""
    n = 0
    for name in ("get_style_index_or_create", "get_or_create_component_ids"):
        b = ck.need(F.one, "Styles::" + name)
        k = 0
        for bi, si, s in b.stmts():
            if s["p"]["l"] != 0:
                continue
            rv = s["rv"]
            ops = []
            if rv["k"] == "use":
                ops = [rv["o"]]
            elif rv["k"] == "agg":
                ops = list(rv["ops"])
            for o in ops:
                sr = sources(b, o)
                const_only = bool(sr) and sr <= {("const",)}
                k += 1
                n += 1
                f, l = b.loc(bi, si)
                ck.ob(rule, "%s|returned index #%d comes from a lookup or a push" % (name, k), not const_only,
                      "Styles::%s can return a constant index without looking the value up: two different styles share that table entry "
                      "whenever the entry is not what the shortcut assumes" % name, f, l, sample={"fn": name})
        ck.ob(rule, "%s|return sites" % name, k >= 1 or any(t["dest"]["l"] == 0 for _, t in b.calls() if not place_proj(t["dest"])),
              "Styles::%s: no assignment to the return value found (anchor lost?)" % name, b.file, b.line)
    ck.note("intern_return_values", n)


def quote_prefix_style(ck, F, rule="QUOTE-STYLE"):
    """Typing over a cell decides its quote prefix: in Model::set_user_input every call that writes the cell
    (Worksheet::set_cell_with_* / Model::set_cell_with_*) receives a style index that went through one of the two
    quote-prefix normalisers (get_style_with_quote_prefix for `'text`, get_style_without_quote_prefix for everything else).
    A value written with the cell's previous style keeps a stale quote prefix: the editor then shows `'TRUE` for a boolean and
    typing that back stores text."""
    b = ck.need(F.one, "model::Model::set_user_input")
    n = 0
    seen = {}
    for bi, t in b.calls():
        last = (b.callee_q(t) or "").rsplit("::", 1)[-1]
        if not last.startswith("set_cell_with_"):
            continue
        # the style argument: the last i32 argument of the call
        styles = [a for a in t["args"] if op_place(a) is not None and b.locals[op_place(a)["l"]] == "i32"]
        if not styles:
            continue
        sr = sources(b, styles[-1])
        calls = {x[1].rsplit("::", 1)[-1] for x in sr if x[0] == "call"}
        ok = bool(calls & {"get_style_with_quote_prefix", "get_style_without_quote_prefix"})
        k = seen[last] = seen.get(last, 0) + 1
        n += 1
        f, l = b.loc(bi)
        ck.ob(rule, "set_user_input|%s#%d style went through a quote-prefix normaliser" % (last, k), ok,
              "set_user_input writes the cell through %s with a style taken from %s: the quote prefix of the previous content is neither set nor "
              "removed, so the displayed content of the new value starts with a `'` it does not have" % (last, sorted(calls) or "the cell's current style"),
              f, l, sample={"call": last, "style_from": sorted(calls)})
    ck.ob(rule, "set_user_input|cell writes", n >= 5, "expected at least 5 cell-writing calls in set_user_input, found %d" % n, b.file, b.line)
