"""Single source of truth for MANIFEST.json (tools/gen_manifest.py)."""

TRUST = ("Trusted base: rustc nightly front end and MIR construction; the icfacts driver's dump; the icq query "
         "library. No IronCalc code is executed.")

CLAIMED = {
    "C01": {
        "level": "Static decision (exact on finite tables, path-complete on the CFG) of the structure of recording and "
                 "inversion: exhaustive undo arms reading every old_* field, every persistent-state-writing operation "
                 "records a diff on all normal paths, numeric record fields agree with the applied arguments, and replay arms pass the "
                 "recorded field for every like-named parameter. Necessary conditions of undo correctness, not value equality.",
        "note": "Decides shape, not restored values (effect footprint of delete_rows vs what DeleteRows captures is a "
                "runtime-extent question). Effects are type-based over-approximations. " + TRUST,
        "technique": "MIR arm/field-use tables over Diff + type-based effect summaries + CFG must-pass-through",
    },
    "C02": {
        "level": "Static decision of redo structure: exhaustive redo arms over all 46 Diff variants reading every "
                 "non-old field, exact stack-effect signature of History::{push,undo,redo}, who-may-write the stacks, "
                 "sibling agreement of undo/redo arms, replay arguments are the recorded fields, and recorded text that replay "
                 "re-parses is language-independent (8 known findings: SetCellValue/SetArrayValue carry display-language text).",
        "note": "Does not decide that state-dependent replay (set_user_input, duplicate_sheet..) reproduces values. " + TRUST,
        "technique": "MIR arm/field-use tables, effect-signature table of History, who-may-write over direct effects, interprocedural text provenance into the formula parser",
    },
    "C03": {
        "level": "Static decision of the replication plumbing: queue tags/order, replay dispatch, no echo from the "
                 "replica path, writers of send_queue, every persistent mutation recorded (hence replicated), replay arguments are the "
                 "recorded fields, recorded text is language-independent (8 known findings, the display language being per-user state), "
                 "and every table an operation writes is writable by the replay arms of the variants it records (2 known findings).",
        "note": "Equality of replica state for all histories is not decided; flush schedule independence follows from the "
                "queue being an append-only Vec (argument in DESIGN.md). " + TRUST,
        "technique": "CFG dominance + effect summaries + who-may-write",
    },
    "C04": {
        "level": "Static decision of the ordering clause of atomicity: no error exit is CFG-reachable after "
                 "push_diff_list in any fallible UserModel operation, and no explicit error is constructed after the first persistent "
                 "write in the structural operations and in every editing entry point of Model/Worksheet/Styles.",
        "note": "Partial edits when a `?` fails inside a loop of mutations are not decided (value ranges). " + TRUST,
        "technique": "CFG reachability from push sites to `?`/Err exits, callee fallibility via call graph",
    },
    "C05": {
        "level": "Static decision of the evaluation-mark typestate: Evaluating is always followed by Evaluated before return, "
                 "the state lookup dominates the mark, the Evaluating arm is the only non-codec producer of Error::CIRC, "
                 "restart clears sit inside the restart loop before phase-1 evaluation, writers of Model.cells/support; the function "
                 "implementations that clip whole-row/column ranges use the extent of the range's own sheet.",
        "note": "Does not decide that stored values equal the formulas' values.  support_match: a written position matches a recorded dependency on sheet, row and column. " + TRUST,
        "technique": "CFG must-pass-through and dominance + who-may-construct / who-may-write",
    },
    "C06": {
        "level": "Exhaustive static decision of the finite dispatch and comparison tables: operator node kinds -> the float operation "
                 "in the closure they pass to handle_arithmetic; the comparison predicate interpreted for 6 operators x 3 signs; the "
                 "25-cell kind x kind table of compare_values (antisymmetry, order, empty as neutral).",
        "note": "Coercions, function results and array broadcasting are numerical/runtime and not decided; left-to-right error precedence is decided for the binary operator handlers only (ERR-ORDER). " + TRUST,
        "technique": "match-arm extraction + closure body inspection + finite-domain path interpretation",
    },
    "C07": {
        "level": "Static decision of the two shape-visible sources of nondeterminism: who may read clock/random sources, and that every "
                 "hash-map/set iteration reachable from evaluation, input, structural edits and (de)serialisation is order-insensitive "
                 "by idiom or by a confirmed reason keyed by function and collection; the stored form of a formula parses back to the "
                 "same tree (PAREN cells of the internal printer; 2 known findings on right-nested additions).",
        "note": "Convergence of the restart-based spill ordering is not decided. A new unclassified hash "
                "iteration in reachable code is reported for triage (design 6).  support_match as in C05. " + TRUST,
        "technique": "who-may-call over the call graph + iterator-chain consumer classification",
    },
    "C08": {
        "level": "Static decision of the property's own sink clause: every construction of a stored number (FormulaValue::Number, "
                 "SpillValue::Number, Cell::NumberCell) in both crates is a literal, a copy of a stored number, or dominated by a "
                 "NaN/Inf test on the same value; forwarding constructors push the obligation to all call sites.",
        "note": "Derive-generated Clone/Decode are not sinks (decoded workbooks assumed produced by to_bytes). Which function "
                "overflows is irrelevant to the rule. " + TRUST,
        "technique": "who-may-construct inventory + reaching-definition provenance + CFG dominance of finite guards",
    },
    "C09": {
        "level": "Exhaustive static decision of operator nesting: for every (parent, sub-kind, position, child, child sub-kind, "
                 "export flag) cell (1161) the grammar's admissible set (derived from Parser::parse_* MIR by reaching "
                 "definitions) is compared with the printer's wrap decision (derived by path interpretation of stringify, "
                 "reconstructing nested format templates); plus operator/error literal tables of printer and lexer/parsers.",
        "note": "Number and string literal round trip (to_excel_precision_str vs consume_number) is numeric and not decided; "
                "separators (function arguments, joined LAMBDA lists, array rows/elements) are decided per locale by emitted value (SEP); "
                "sheet-name quoting by the rule of C22. " + TRUST,
        "technique": "reaching-definitions over the recursive-descent parser + finite-domain path interpretation of the printer",
    },
    "C10": {
        "level": "Static decision of the storage discipline behind language/locale independence: typestate dataflow of the "
                 "parser configuration at every parse of stored text, English-only printers into stored fields, and the write "
                 "footprint of set_language/set_locale from whole-program effect summaries; separators printed per locale are the tokens "
                 "the parser expects in that locale.",
        "note": "Does not decide that values of locale-independent functions are unchanged (needs evaluation). The stored-text "
                "table {shared_formulas: R1C1/default, DefinedName.formula: A1/default} is the repo's own documented convention. " + TRUST,
        "technique": "typestate dataflow over the CFG (set_* transitions) + provenance of parse arguments + effect summaries",
    },
    "C11": {
        "level": "Static site-by-site decision of panic-freedom of the text entry points: every potentially panicking MIR "
                 "terminator reachable from the lexer/parser/formatter/cell-input entry points is discharged by a zone "
                 "(difference-bound) abstract interpretation with type-keyed havoc, variant partitioning and callee "
                 "summaries, by obligations on the decoded language/locale tables, or listed as assumed with its reason.",
        "note": "16 of 174 sites are ASSUMED (listed in the evidence with reasons: lexer invariant position<=len, token marks, digit-index "
                "relation of the number formatter, parsed_formulas/worksheets length agreement, embedded table decode). Not "
                "decided: termination, recursion depth, signed overflow (wraps in release), spreadsheet functions and "
                "evaluation (stop at Model::evaluate). " + TRUST,
        "technique": "abstract interpretation (zones over MIR locals, field terms and lengths; widening; trace partitioning; "
                     "per-variant callee summaries; call-site checked preconditions) + call-graph reachability + data tables",
    },
    "C25": {
        "level": "Static site-by-site decision of panic-freedom of the import paths: every potentially panicking MIR terminator "
                 "reachable from load_from_xlsx(_bytes), load_from_icalc, Model::from_workbook and Model::from_bytes in "
                 "both crates is discharged by the zone abstract interpretation, by an enumerated guard idiom, or listed as "
                 "assumed with its reason.",
        "note": "8 of 157 sites are ASSUMED with reasons in the evidence; one known finding (unbounded array-ref expansion, LOOP-BOUND). 15 genuine import panics found by this inventory were "
                "repaired in /repo (missing style sections / sheetData, localSheetId, rgb slicing, empty comment text, "
                "relationship paths, missing relationship ids, empty workbook, table ref, style ids, numFmtId, fixed "
                "signatures). Not decided: third-party decoders (zip, roxmltree, bitcode), termination and memory bounds, "
                "recursion depth. " + TRUST,
        "technique": "abstract interpretation (zones; widening; trace partitioning; callee summaries) over MIR + call-graph "
                     "reachability + dominance-checked guard idioms",
    },
    "C12": {
        "level": "Static decision of the structure of insertion: spill reset dominates every relocation, array-formula pre-check dominates "
                 "the first persistent write with no explicit error after it, formulas/links/conditional formats displaced together, "
                 "descriptor shift provenance (or move order reversed iff delta>0), values moved as cells not re-typed text.",
        "note": "The index maps (references, CF ranges, links, column descriptors) being equal/inverse is arithmetic over symbolic positions and is not decided; values after the edit are not decided. " + TRUST,
        "technique": "CFG dominance + effect summaries + call-set agreement + operand provenance",
    },
    "C13": {
        "level": "Static decision of the structure of deletion: spill reset dominates every relocation, array-formula pre-check dominates "
                 "the first persistent write with no explicit error after it, formulas/links/conditional formats displaced together, "
                 "descriptor shift provenance (or move order reversed iff delta>0), values moved as cells not re-typed text.",
        "note": "The index maps (references, CF ranges, links, column descriptors) being equal/inverse is arithmetic over symbolic positions and is not decided; values after the edit are not decided.  CUT: all comparisons of one insert/delete against the same boundary cut at the same point. " + TRUST,
        "technique": "CFG dominance + effect summaries + call-set agreement + operand provenance",
    },
    "C14": {
        "level": "Static decision of the structure of insert-then-delete pairing: spill reset dominates every relocation, array-formula pre-check dominates "
                 "the first persistent write with no explicit error after it, formulas/links/conditional formats displaced together, "
                 "descriptor shift provenance (or move order reversed iff delta>0), values moved as cells not re-typed text.",
        "note": "The index maps (references, CF ranges, links, column descriptors) being equal/inverse is arithmetic over symbolic positions and is not decided; values after the edit are not decided.  CUT: all comparisons of one insert/delete against the same boundary cut at the same point. " + TRUST,
        "technique": "CFG dominance + effect summaries + call-set agreement + operand provenance",
    },
    "C15": {
        "level": "Static decision of the structure of block moves: spill reset dominates every relocation, array-formula pre-check dominates "
                 "the first persistent write with no explicit error after it, formulas/links/conditional formats displaced together, "
                 "descriptor shift provenance (or move order reversed iff delta>0), values moved as cells not re-typed text.",
        "note": "The index maps (references, CF ranges, links, column descriptors) being equal/inverse is arithmetic over symbolic positions and is not decided; values after the edit are not decided.  BAND: every description of the band shifted by a single row/column move (cells loop, links closure, descriptors) is the same interval. " + TRUST,
        "technique": "CFG dominance + effect summaries + call-set agreement + operand provenance",
    },
    "C16": {
        "level": "Exhaustive static decision for the cut/paste printer to_string_moved: the same 581 PAREN cells as C09 against the "
                 "parser grammar, and the separator/array-nesting tables of both printers against the tokens the parser expects "
                 "per decimal separator.",
        "note": "Retargeting arithmetic of moved references is not decided.  FLAG-MATCH: each coordinate of a reference is resolved with its own absolute flag. " + TRUST,
        "technique": "reaching-definitions grammar vs path-interpreted printer; interpreted separator choices vs parser token tables",
    },
    "C17": {
        "level": "Static decision of the rename rewrite's shape: stores of the new name are control-dependent on an index "
                 "comparison; the walker recurses into every child-bearing Node variant.",
        "note": "Values after rename/move/duplicate are not decided; parser configuration during the rewrite is C10's rule.  NAME-CASE: stored defined names are compared case-insensitively everywhere. " + TRUST,
        "technique": "MIR match-arm coverage + control dependence (dominating branch on Eq with the sheet_index parameter)",
    },
    "C27": {
        "level": "Static decision of the guards at the writers of workbook structure (names validated+unique, fresh/captured sheet ids, "
                 "cells enter the grid only through the validated update_cell, spill cells constructed only by the evaluator/importer).",
        "note": "Sortedness/disjointness of cols, uniqueness of rows, index validity of styles/strings/formulas are value invariants of "
                "loops and are not decided. Two generated-name exceptions with reasons.  BAND for single-row moves; descriptor rules follow the rebuild into a private helper. " + TRUST,
        "technique": "who-may-write inventory + dominance of validators on the written value's provenance",
    },
    "C28": {
        "level": "Static decision of the selection guards: after every sheet deletion the selection is written or clamped on all "
                 "paths; stores into the selected-sheet index are validated or clamps; stores into the selected cell/range are "
                 "constants, copies of stored view fields, or validated by is_valid_row/is_valid_column_number on the same value.",
        "note": "That the selected cell lies inside the selected range (a relation between runtime values) is not decided. Three "
                "single-site exceptions with reasons (on_paste_styles x2, on_page_up).  Validation must concern the value stored (reaching definitions); RANGE-ANCHOR: every range store has a corner with the provenance of the selected cell. " + TRUST,
        "technique": "CFG must-pass-through after delete sites + provenance/dominance of validators for every view-field store",
    },
    "C29": {
        "level": "Static decision by provenance of every field stored into a Col/Row descriptor by the five setters and three "
                 "wrappers: same-named parameter, same field of the replaced descriptor, or a getter reading only that attribute.",
        "note": "Ordering/disjointness of the cols vector is not decided (C27). " + TRUST,
        "technique": "reaching-definition provenance of aggregate fields and in-place field stores",
    },
    "C18": {
        "level": "Static decision of reader/writer configuration agreement: per value kind (boolean, error, number) the Language/Locale "
                 "tables consulted when displaying are consulted when recognising typed input; quote-prefix read/set agreement.",
        "note": "That the recognisers invert the printers on every string/number is not decided (see C19).  QUOTE-STYLE: every cell write of set_user_input uses a style normalised for the quote prefix. " + TRUST,
        "technique": "transitive field-read sets over the call graph compared between sibling code paths",
    },
    "C21": {
        "level": "Static decision of the correspondence: both conversions are translations; literals read from MIR satisfy "
                 "EXCEL_DATE_BASE = ordinal(base date) - k; identical bounds mapping to 1899-12-31 and 9999-12-31; every "
                 "num_days_from_ce site subtracts the same constant (exhaustive over both crates).",
        "note": "chrono's calendar arithmetic trusted; WEEKDAY's return-type table not decided.  PANIC (scoped): the calendar helpers have no unsigned underflow / division by zero, by the zone engine with chrono's accessor ranges. " + TRUST,
        "technique": "constant extraction from MIR + algebraic identity on proleptic-Gregorian ordinals + who-may-convert",
    },
    "C22": {
        "level": "Static decision of the sheet-name quoting clause for every Unicode scalar value, by interpreting the MIR of "
                 "name_needs_quoting, consume_identifier and next_token's first-character dispatch over a partition of the code "
                 "points by everything those bodies can observe; plus inverse escape/unescape constants.",
        "note": "Python's str predicates stand in for Rust's char predicates (recorded assumption); column-letter arithmetic and "
                "reference look-alike checks (parse_reference_a1/r1c1) are not decided. " + TRUST,
        "technique": "finite-domain path interpretation of MIR with concrete character predicates, exhaustive by equivalence class",
    },
    "C23": {
        "level": "Exhaustive static decision over finite tables: Function<->field codecs extracted from MIR are mutually "
                 "inverse bijections (495 x 3 tables), xlsx names parse back, and per language (5 x 495 names, 12 errors) the "
                 "decoded language.bin satisfies distinctness / uppercase fixed point / single-identifier / prefix-freedom.",
        "note": "Python str.upper/isalnum stand in for Rust's to_uppercase/is_alphanumeric on the table strings; the table "
                "decoder is generated from the ADT facts and only decodes the embedded constant.  The identifier-start class is read from Lexer::next_token and every localized name must start in it. " + TRUST,
        "technique": "if-chain and match-table extraction from MIR + exhaustive checks on decoded constant tables",
    },
    "C24": {
        "level": "Static decision of writer/reader coverage over 14 workbook types (every field read by code reachable from the xlsx "
                 "writer and set from the package by code reachable from the reader), Cell variant arms/constructors, formula printer/"
                 "parser pairing, the export-form PAREN cells, error literal tables and the XML escape table.",
        "note": "That values and attributes survive numerically and textually is not decided. Allow-list of 5 fields with reasons; three "
                "known findings (comments, diagonal border flags).  Optional attributes are written under their own flag (flag/attribute pairing in the exporter). " + TRUST,
        "technique": "field read/write coverage over call-graph reachability + tables shared with C09",
    },
    "C26": {
        "level": "Structural decision: Encode+Decode derived on the entire field closure of Workbook without bitcode "
                 "attributes; to_bytes/from_bytes/from_workbook have the required shape (whole workbook encoded, reparse "
                 "must-pass-through before Ok).",
        "note": "bitcode's codec is trusted; printer/parser agreement on the re-parsed R1C1 text is C09's subject.  Name comparisons use the fold family the printer uses (Unicode to_lowercase, not ASCII-only). " + TRUST,
        "technique": "impl/ADT closure query + CFG dominance (must-pass-through) + provenance of encode/decode operands",
    },
    "C30": {
        "level": "Static decision of coverage and same-named provenance in the style pools (interning reads every Style field and builds "
                 "CellXfs from the style's own parts; read-back and dedup comparison fill every Style field from its own slot), plus the "
                 "shared constant table of the two number-format lookups.",
        "note": "Aliasing through imported num_fmts that redefine a built-in id is not decided.  Interned indices returned come from a lookup or a push, never from a constant. " + TRUST,
        "technique": "field coverage + reaching-definition provenance of aggregate fields",
    },
    "C31": {
        "level": "Static decision of spill bookkeeping guards: reset before relocation, no #SPILL! decision after a spill write, scan and "
                 "write loops over identical ranges, constructors of Cell::SpillCell, ownership test in spill clean-up loops.",
        "note": "Exactness of block contents and staleness across passes are not decided. Two single-site exceptions with reasons.  Restart clears of Model::evaluate sit inside the restart loop (shared with C05). " + TRUST,
        "technique": "CFG reachability/dominance + who-may-construct + loop-body field-read analysis",
    },
    "C32": {
        "level": "Static decision of the defined-name plumbing: C10's typestate/English-storage rules for DefinedName.formula, rename "
                 "walker coverage (children and name-carrying variants), all-worksheets rewrite, reparse after every change, English "
                 "re-parse on xlsx import.",
        "note": "Values of names and scope resolution are not decided. One known finding (LAMBDA call sites not renamed).  NAME-CASE; a name scoped to a deleted sheet is skipped by parse_defined_names. " + TRUST,
        "technique": "typestate dataflow + match-arm coverage + effect-based must-reach",
    },
    "C33": {
        "level": "Static decision that metadata is handled wherever cells are: displacement call-set agreement (TRIPLE), capture of "
                 "every link-changing Model call made by a UserModel operation (LINK-DIFF, by effect summaries + dominance), and the "
                 "three cut-update helpers with their diffs (TRIPLE-cut).",
        "note": "Agreement of the three displacement maps on edge positions is arithmetic and not decided.  BAND for single-row moves (links closure vs cells vs descriptors). " + TRUST,
        "technique": "effect summaries + CFG dominance + call-set agreement",
    },
    "C34": {
        "level": "Exhaustive finite-domain path interpretation of next_state (4 inputs): bijection with a single 4-cycle; "
                 "provenance of every append to cycle_endpoint's result ('$', upper-cased column slice, row slice).",
        "note": "Span arithmetic in cycle_reference is not decided.  PANIC (scoped): every index and slice of the F4 rewriting stays inside the token text (zone engine). " + TRUST,
        "technique": "finite-domain path interpreter over MIR + provenance of Vec appends",
    },
}

_TODO = "check not built yet in this round (see DESIGN.md §7 order of construction); will be claimed when its rule exists"

NOT_APPLICABLE = {
    "C19": "whether a string denotes a number and with which value is a property of character sequences and f64 "
           "parsing; no clause is visible in the shape of the code (its finite-number corner is decided under C08)",
    "C20": "correct rounding of formatted numbers is a numerical statement about decimal conversions of doubles; "
           "static analysis in reach cannot bound it",
}
for _i in range(5, 35):
    _p = "C%02d" % _i
    if _p not in CLAIMED and _p not in NOT_APPLICABLE:
        NOT_APPLICABLE[_p] = _TODO

NOTES = ("Technique family: static analysis only. Every check re-extracts facts from /repo's current working tree "
         "(keyed by content hash) with a rustc_private driver and decides rules over MIR/ADT facts; evidence lists rules, "
         "instances and samples. Known genuine defects are listed in known_findings.json by construct key.")
