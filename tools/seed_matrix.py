#!/usr/bin/env python3
"""Applies every seeded change under /verif/seeded to /repo in turn (the tree must be clean), runs the check of the
seeded property (and, with --all, every check), records which rules report, reverts, and writes seeded/<id>/meta.json
plus a markdown table (seeded/MATRIX.md)."""
import json, os, re, subprocess, sys
V = "/verif"
DESC = {
 "C01": ("UserModel::move_rows_action records Diff::MoveRows.delta = requested delta instead of the applied new_delta", "a hidden row in the landing zone, then undo"),
 "C02": ("redo arm of RangeClearContents *assigns* needs_evaluation from old_value instead of raising it", "cut/paste whose last source cell is empty, undo, redo"),
 "C03": ("undo() pops the last send_queue entry instead of appending an Undo batch", "two undos with no flush in between after flushed changes"),
 "C04": ("reset_dynamic_array_spills moved before the 'would push data off the grid' error in insert_rows/columns", "a spilled array plus data in the last row/column, failed insert"),
 "C05": ("cells marked Evaluated before the Range->value conversion that still evaluates", "a cycle through a reference-returning formula (OFFSET/INDIRECT) reached first"),
 "C06": ("handle_arithmetic evaluates both operands and matches (_, Err) before (Err, _)", "both operands of + - * / ^ fail with different errors"),
 "C07": ("get_spill_area destructures ArrayFormula.r as (height, width)", "two dynamic arrays, the earlier reads non-anchor cells of a non-square later spill"),
 "C08": ("NaN/Inf guard moved from set_cells_with_result into evaluate_cell before the Range conversion", "single-cell range result pointing at an overflowed CSE anchor evaluated later"),
 "C09": ("stringify stops parenthesising a unary operand of unary minus (-(-x) printed --x)", "nested unary minus, reload or re-entry of the displayed text"),
 "C10": ("rename_sheet_by_index restores the user's locale/language before rewriting defined names", "comma-decimal locale or non-English language, LAMBDA defined name, sheet rename"),
 "C12": ("move_cell copies the source style before re-entering the formula", "formula reading a formatted cell, own format overridden, insert rows/columns"),
 "C13": ("stringify_reference Row arm drops the !full_row guard", "whole-column reference and delete_rows touching row 1 or the last row"),
 "C14": ("insert_columns clamps Col.max to LAST_COLUMN", "descriptor reaching column 16384, insert inside it, delete or undo"),
 "C15": ("move_column_unchecked reads get_column_width (display width) instead of get_actual_column_width", "move a hidden column, unhide it"),
 "C16": ("get_external_formula_updates_for_cut calls ref_is_in_area(area.sheet, ..) for cells of every sheet", "observer formula on another sheet at the coordinates of the cut rectangle"),
 "C17": ("same change as C10's seed, found independently", "locale de, multi-parameter LAMBDA name referencing the renamed sheet"),
 "C18": ("get_localized_cell_content returns get_formatted_cell_value for date-formatted numbers (drops the error check)", "date-formatted number that is not a valid date (pre-1900 date, -5)"),
 "C21": ("date_to_serial_number rejects year < 1900", "the single date 1899-12-31 (serial 1)"),
 "C22": ("name_needs_quoting only rejects a leading ASCII digit or dot", "sheet name starting with a non-ASCII numeric character (²nd)"),
 "C23": ("consume_error advances by errors.spill.len() (bytes) instead of chars().count()", "language de (#ÜBERLAUF!) followed by more tokens"),
 "C24": ("starts_xlsx_escape_pattern accepts only 0-9A-F while the reader accepts lower-case hex", "text containing _x00e9_ style look-alikes with lower-case hex"),
 "C26": ("set_cell_with_formula computes the stored text before the ')' auto-completion retry", "formula typed without its closing parenthesis, then to_bytes/from_bytes"),
 "C28": ("clamp_selected_sheet compares with > instead of >=", "last sheet selected, a non-last sheet deleted"),
 "C29": ("split descriptors pre/post take the new hidden flag instead of the descriptor's", "multi-column descriptor, set_column_hidden on one member"),
 "C31": ("scalar tail of set_cells_with_result keeps the old extent for ArrayKind::Dynamic", "spilled formula that stops returning an array, user content in the freed cells, then an edit"),
 "C33": ("displace_cf_ranges no longer switches the parser to the default locale", "locale de, CF rule formula with an argument separator or decimal, structural edit"),
}

DESC.update({
 "C11": ("formatter lexer consume_color uses split_at(5) after a byte-length test instead of starts_with(\"Color\")", "bracket section of >= 5 bytes with a multi-byte character straddling byte 5, e.g. [Красный]0.00"),
 "C25": ("decode_xlsx_escapes tests the closing `_` after slicing s[i+2..i+6]", "shared string with `_x` followed by a multi-byte character straddling byte offset +6"),
 "C27": ("delete_columns Case A guard `column_end < min` becomes `<=`", "delete >= 2 columns ending exactly at the first column of a descriptor, another descriptor just left of the block"),
 "C30": ("Styles::get_num_fmt_index compares format codes with eq_ignore_ascii_case", "two custom number formats that differ only in letter case"),
 "C32": ("same reordering as C10's first seed (rename_sheet_by_index restores locale/language early)", "locale de, LAMBDA defined name referencing the renamed sheet"),
 "C34": ("cycle_endpoint row-only branch uses !absolute_row instead of !(absolute_column || absolute_row)", "row-only range with a `$` (second F4 press on 5:5)"),
 "C01b": ("same change as C01 (Diff::MoveRows.delta = requested delta)", "hidden row in the landing zone, undo"),
 "C02b": ("redo arm of MoveRows calls UserModel::move_rows_action (recording) instead of Model::move_rows_action", "redo of a row move with later operations still redoable / a replica"),
 "C03b": ("apply_external_diffs concatenates consecutive batches of the same kind and applies them in one call", "two non-commuting undos flushed in one batch"),
 "C04b": ("same change as C04 (spill reset before the grid-full error)", "spilled array, data in the last row/column, failed insert"),
 "C05b": ("Model::evaluate clears cells/support/... once before the restart loop instead of at every restart", "two dynamic arrays where the earlier reads non-anchor cells of the later spill"),
 "C06b": ("cast_to_bool compares |f| < EPSILON instead of f == 0.0", "tiny non-zero number as IF/NOT condition"),
 "C08b": ("array_node_to_spill_value guard rewritten as !is_nan() || !is_infinite()", "array result whose non-anchor element overflows"),
 "C09b": ("full_row in stringify's RangeKind arm no longer requires absolute_row1", "range A2:A$1048576 typed in row 1 (relative first row with offset 1)"),
 "C10b": ("parse_internal_formula returns early when the *language* is English, without switching the locale", "language en with a decimal-comma locale and a LAMBDA/CF formula stored outside cells"),
 "C12b": ("second corner of a range gets sheet_index: 0 in stringify", "range on a sheet with index >= 1, insert/delete rows or columns"),
 "C16b": ("same change as C16 (ref_is_in_area(area.sheet, ..))", "observer on another sheet at the cut rectangle's coordinates"),
 "C23b": ("consume_error only looks at the next 8 characters", "languages whose error names are longer (#ÜBERLAUF!, #¿NOMBRE?)"),
 "C29b": ("split descriptor `post` takes the new hidden flag", "multi-column descriptor, set_column_hidden on a member that is not the last"),
})

DESC.update({
 "C26b": ("set_cell_with_formula stores the text computed before the ')' auto-completion retry (as C26)", "formula typed without its closing parenthesis, then to_bytes/from_bytes"),
 "C13c": ("move_cell stamps the source style before re-entering the formula", "formula cell behind the deleted band whose entry implies a number format"),
 "C14c": ("stringify_reference, DisplaceData::Column arm tests full_row instead of full_column", "whole-column reference right of an inserted/deleted column"),
 "C15c": ("RowMove / ColumnMove arms of stringify_reference additionally guarded with !full_column / !full_row (crossed flags)", "whole-row or whole-column range over a moved block"),
 "C18c": ("get_localized_text swaps the decimal point only when the text contains no exponent", "number shown in scientific notation in a comma-decimal locale"),
 "C22c": ("stringify_reference bounds test `row >= LAST_ROW` (off by one)", "reference to the last row of the grid"),
 "C24c": ("sheet rels part named after sheet_id instead of the sheet's position", "workbook whose sheet ids are not 1..n (a sheet was deleted), external hyperlink"),
 "C28c": ("redo arm of DeleteSheet drops the trailing clamp_selected_sheet()", "redo of the deletion of the last, selected sheet"),
 "C31c": ("cut of a dynamic anchor skips paste-target coordinates even when pasting on another sheet", "cut a spilling anchor and paste it on another sheet at overlapping coordinates"),
 "C01d": ("undo arm of DeleteConditionalFormatting recomputes the slot from priorities instead of the recorded index", "rules whose priorities are not in list order"),
 "C02d": ("update_defined_name records the typed new_formula instead of the canonical text read back", "non-English language, undo then redo of a defined-name update"),
 "C03d": ("redo arm of UpdateDefinedName passes new_scope.or(scope)", "sheet-scoped name promoted to workbook scope, applied on a replica"),
 "C04d": ("update_named_style tests 'new name taken' after it rewrote the style records", "rename to an existing style name together with a style change"),
 "C05d": ("fn_sum clips a whole-column range with the extent of the formula's sheet", "SUM(Sheet2!A:A) where Sheet2 is longer than the formula's sheet"),
 "C06d": ("compare_values (String, EmptyCell) arm returns 1", "empty string on the left of a comparison with a blank cell"),
 "C07d": ("stringify no longer parenthesises a product under %", "=(a/b)% saved and reloaded"),
 "C08d": ("xlsx parse_cell_number tests the text instead of the parsed value for finiteness", "cell value 1e999 in an xlsx file"),
 "C09d": ("name_needs_quoting first-character rule only rejects ASCII digit or dot (as C22)", "sheet name starting with a non-ASCII numeric character"),
 "C10d": ("LambdaCallKind arm of stringify joins arguments with a hard-coded comma", "immediately invoked LAMBDA with numeric arguments in a comma-decimal locale"),
})

DESC.update({
 "C07e": ("position_in_support compares the dependency's sheet with the dependent cell's sheet instead of the written positions' sheet", "two dynamic arrays on different sheets, the earlier reads non-anchor cells of the later spill, one evaluation"),
 "C11e": ("consume_column_reference skips an escaped character without checking that the input continues", "structured reference whose column name ends the input right after a `'`"),
 "C12e": ("stringify_reference hoists `full_row || full_column` and uses it to guard both the Row and the Column arm", "whole-column range and insert_columns (or whole-row range and insert_rows)"),
 "C17e": ("duplicate_sheet de-duplicates copied defined names by exact spelling instead of ignoring case", "global RATE and sheet-local Rate on the duplicated sheet"),
 "C21e": ("WEEKDAY return type 3 computed from num_days_from_sunday() - 1", "a Sunday serial with return type 3 (underflow)"),
 "C25e": ("load_hyperlinks caps height and width separately instead of the area", "hyperlink ref spanning 10^4 x 10^4 cells"),
 "C27e": ("move_row_unchecked: descriptor shift guard `r.r >= target_row` becomes `>`", "upward row move where both the moved row and the landing row carry a descriptor"),
 "C28e": ("on_arrow_down validates the new row before the hidden-row skip loop instead of after it", "all rows below the selection hidden up to the last row"),
 "C30e": ("get_style_index_or_create returns 0 for Style::default() without a lookup", "imported workbook whose first xf is not the default style"),
 "C32e": ("parse_defined_names no longer skips names whose sheet id is unknown (and_then instead of continue)", "global and sheet-local name of the same spelling, the local one's sheet deleted"),
 "C33e": ("move_row_unchecked: links closure guard `r >= target_row` becomes `>`", "upward row move onto a row that carries a hyperlink"),
 "C34e": ("cycle_token_text searches `!` from the start of the token instead of after the leading whitespace", "sheet-qualified reference preceded by whitespace"),
})

DESC.update({
 "C14f": ("delete_rows: the links closure drops `r <= row + row_count` (inclusive end)", "hyperlink on the first row below the deleted block"),
 "C16f": ("to_string_moved resolves column2 of a range with absolute_column1", "cut/paste with a range whose corners differ in column anchoring ($A1:B2)"),
 "C18f": ("set_user_input writes a typed boolean with the cell's previous style instead of the quote-prefix-free one", "boolean typed over a quote-prefixed text cell"),
 "C23f": ("next_token starts an identifier only on an ASCII letter", "Spanish UNIQUE = UNICO with an accented first letter (the one localized name starting with a non-ASCII letter)"),
 "C24f": ("cellStyleXfs writer emits applyFill according to apply_font", "named style whose includes have font != fill, xlsx round trip"),
 "C26f": ("LET/LAMBDA same_name folds case with eq_ignore_ascii_case", "LET-bound lambda whose name has a non-ASCII capital, to_bytes/from_bytes, evaluate"),
 "C29f": ("delete_column_style keeps the descriptor only for custom_width (not for hidden)", "hidden default-width column whose style is deleted (undo of set style)"),
 "C31f": ("Model::evaluate clears cells/support once before the restart loop (as C05b)", "two dynamic arrays, the earlier reads non-anchor cells of the later spill"),
})

def sh(cmd, cwd=None):
    return subprocess.run(cmd, shell=True, cwd=cwd, capture_output=True, text=True)
def run_check(pid):
    r = sh("./check %s --tier quick" % pid, V)
    rules = sorted(set(re.findall(r"^REPORT \S+ ([A-Za-z\-]+)\|", r.stdout, re.M)))
    return r.returncode, rules
def main():
    allc = "--all" in sys.argv
    if sh("git status --porcelain", "/repo").stdout.strip():
        print("repo not clean"); return 2
    pids = sorted(json.load(open(V + "/MANIFEST.json"))["checks"], key=lambda c: c["property_id"]) if allc else None
    rows = []
    for sid in sorted(os.listdir(V + "/seeded")):
        d = os.path.join(V, "seeded", sid)
        if not os.path.isfile(os.path.join(d, "patch.diff")):
            continue
        prop = sid[:3]
        a = sh("git apply %s/patch.diff" % d, "/repo")
        if a.returncode:
            rows.append((sid, prop, "patch does not apply to the current tree", [], [])); continue
        try:
            code, rules = run_check(prop)
            others = []
            if allc:
                for c in pids:
                    if c["property_id"] != prop:
                        cc, rr = run_check(c["property_id"])
                        if cc == 1:
                            others.append("%s(%s)" % (c["property_id"], ",".join(rr)))
        finally:
            sh("git checkout -- .", "/repo")
        vlog = "/tmp/verify_%s.log" % sid
        ver = open(vlog).read() if os.path.exists(vlog) else None
        mp = os.path.join(d, "meta.json")
        meta = json.load(open(mp)) if os.path.exists(mp) else {}
        meta.update({"property": prop, "change": DESC.get(sid, ("see README.md", ""))[0], "needs_to_manifest": DESC.get(sid, ("", "see README.md"))[1],
                "produced_by": "independent sub-agent given only the property text and a scratch worktree",
                "what_i_ran": ["in the scratch worktree: cargo test -p <crate> --test seed_%s on the original (pass), cargo test --workspace with the change and the demo moved aside (all pass), demo with the change (fail)" % prop,
                               "git -C /repo apply seeded/%s/patch.diff; ./check %s --tier quick; git -C /repo checkout -- ." % (sid, prop)],
                "own_check_exit": code, "own_check_rules_reporting": rules, "other_checks_reporting": others})
        if ver is not None:
            meta["verification_log"] = [l for l in ver.splitlines() if l.startswith("##") or "test result" in l][:40]
        json.dump(meta, open(mp, "w"), indent=1)
        rows.append((sid, prop, "VIOLATION" if code == 1 else ("UNDECIDED" if code == 2 else "missed"), rules, others))
    with open(V + "/seeded/MATRIX.md", "w") as fh:
        fh.write("| seed | change | needs | own check | rules reporting | other checks |\n|---|---|---|---|---|---|\n")
        for sid, prop, res, rules, others in rows:
            fh.write("| %s | %s | %s | %s | %s | %s |\n" % (sid, DESC.get(sid, ("see seeded/%s/README.md" % sid, ""))[0], DESC.get(sid, ("", ""))[1], res, ", ".join(rules), " ".join(others)))
    print(open(V + "/seeded/MATRIX.md").read())
main()
