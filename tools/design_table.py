#!/usr/bin/env python3
"""Regenerates the table of DESIGN.md §0.2 from evidence/*.json (rule instance counts on the last run) and the
per-property text below. Usage: tools/design_table.py > /tmp/table.md"""
import json, glob
TXT = {
 "C01": ("every Diff variant has an undo arm reading all old_* and no new_* payload, reversed replay; every UserModel op whose write effects reach persistent state records a diff on every normal path; numeric Diff fields have the provenance of the arguments given to the Model mutator; replay arms pass the recorded field (or an inverse built from recorded fields only) for every like-named parameter", "equality of restored values"),
 "C02": ("redo arm per variant reads new_* only; undo/redo arms agree on sheet, cell and evaluation request; stack transitions; who may write the stacks; replay records nothing; replay arguments are the recorded fields; recorded text that replay re-parses is language-independent (8 known findings)", "values after redo"),
 "C03": ("tags and dispatch of the replication queue, its writers, append-only outside flush; replay arguments and recorded text as for C02 (the display language is per-user state: same 8 known findings); every table an operation writes can be written by the replay arms of the variants it records (2 known findings: CF dxfs)", "replica value equality"),
 "C04": ("no error exit after the history push; in the six structural operations and in every editing entry point of Model/Worksheet/Styles that a UserModel operation calls, no explicit Err is constructed after the first persistent write (writes placed at the store or mutator call, not at a `let x = &mut ..`)", "partial edits inside loops of fallible mutators"),
 "C05": ("Evaluating/Evaluated marks (one mark dominated by the state test, every return passes an Evaluated mark, no demand evaluation after it, #CIRC! producers); whole-row/column ranges are clipped by the extent of the range's own sheet in all 41 function implementations that clip; a written position matches a recorded dependency on sheet, row and column", "values"),
 "C06": ("operator -> float operation dispatch, the 25-cell cross-kind comparison table, left error wins in every binary handler, truthiness is exact comparison with 0", "coercions, function results"),
 "C07": ("clock/random sources only in volatile functions; every HashMap iteration on the evaluation / edit / save paths is order-insensitive by idiom (fold, re-collected into a map, sorted Vec, pure predicate or read-only helper of pure predicates) or by a reason keyed by (function, collection); spill extents never meet the wrong axis; the stored form of a formula parses back to the same tree (2 known findings); support matching on sheet, row and column", "convergence of the spill re-ordering"),
 "C08": ("every store of an f64 into a cell is dominated by a finite test of that value (or comes from a parse that cannot yield one)", "- (claimed)"),
 "C09": ("printer-vs-grammar table for every (parent kind, position, child kind); literal tables; per locale: function-argument, joined-list (LAMBDA) and array row/element separators are the tokens the parser expects (by emitted value and loop depth); error codecs; whole-row/column flags; identifier case; sheet-name quoting over all code points", "numeric literal text round trip"),
 "C10": ("parser configuration at every parse of stored text incl. helpers the parser is lent to; stored text comes from English printers; write footprint of set_language / set_locale; separators per locale (SEP of C09)", "values of locale-independent functions"),
 "C11": ("§0.3", "termination, recursion depth, spreadsheet functions, evaluation"),
 "C12": ("order and pairing facts of insert/delete/move: spills reset first; formulas+links+CF displaced together with one DisplaceData; descriptors shifted by exactly ±count under the right guard (also when the loop is an iterator closure); values move as cells; style copied after re-entry; whole-row/column references guarded on their own axis; each reference uses its own sheet index; stored widths are actual widths; block moves iterate in the safe direction; (C13/C14) all comparisons of one insert/delete against the same boundary cut at the same point; (C15) every description of the band shifted by a single move is the same interval", "values after the edit"),
 "C16": ("the second printer (to_string_moved) agrees with the grammar and with the separators per locale; in-area helpers are not called with the area's own sheet; each coordinate is resolved with its own absolute flag", "which cells are updated"),
 "C17": ("rename guarded by sheet-index equality; walker covers every child-bearing Node; parse configuration; stored defined names are compared case-insensitively", "values after rename"),
 "C18": ("display and input use the same table per value kind; the decimal-point substitution is guarded by the symbol it substitutes; editor content never comes from an unchecked display rendering; every cell write of set_user_input uses a style normalised for the quote prefix", "typed-number recognition"),
 "C21": ("the two conversions use the same base and are inverse translations; date_to_serial_number rejects nothing with year in 1899..=9999 (zone engine); the calendar helpers behind WEEKDAY / DAYS360 / YEARFRAC have no unsigned underflow or division by zero (zone engine with chrono's accessor ranges)", "chrono's arithmetic (trusted)"),
 "C22": ("quoting predicate vs the lexer's unquoted-name character classes, interpreted from MIR over all code-point classes; the reference printer rejects nothing inside the grid", "R1C1 references"),
 "C23": ("name codecs are mutually inverse bijections in code and in every shipped language; lexer positions advance by character counts; consume_error looks at the whole error name; every localized name starts with a character under which next_token starts an identifier (class read from the MIR)", "- (exhaustive)"),
 "C24": ("every persistent Workbook field is read by the exporter and written by the importer; escape tables; writer and reader agree on the escape class; part names are positional on both sides; optional attributes are written under their own flag; xlsx printer", "value equality after the round trip"),
 "C25": ("§0.3", "third-party decoders, termination, memory"),
 "C26": ("Encode/Decode derived on the whole field closure, shape of to_bytes/from_bytes/from_workbook, stored formula text is the text of the kept parse tree, identifier case compared with the fold the printer uses", "bitcode itself (trusted)"),
 "C27": ("guards at the writers of sheet names, ids, grid coordinates; descriptors stay ordered under delete_columns and shifted descriptors land on the right side of the edit (zone engine, count = 1..3, also through a private helper); BAND for single-row moves", "global well-formedness"),
 "C28": ("selection repaired after every sheet removal (and the repair's own postcondition, by the zone engine), stores to the selection validated *on the value stored* (reaching definitions), every range store has a corner with the provenance of the selected cell", "-"),
 "C29": ("provenance of every descriptor field at the row/column setters and at delete_column_style; stored widths are actual widths", "-"),
 "C30": ("Style fields <-> Styles tables both ways; interning lookups compare by exact equality only (also inside closures); returned indices come from a lookup or a push, never a constant", "value equality"),
 "C31": ("spill write/clear guards, constructors, Dynamic kind never paired with the old extent, scalar results shrink the extent, a cut anchor's block is skipped only for same-sheet paste targets; restart clears inside the restart loop", "exactness of block contents"),
 "C32": ("rename walker, parse configuration, English storage; names compared case-insensitively; a name scoped to a deleted sheet is skipped", "values"),
 "C33": ("links and CF displaced with cells; link diffs recorded; CF formulas rewritten in their storage configuration; BAND for single-row moves", "values"),
 "C34": ("the absolute/relative state cycle is a 4-cycle in the right order; one-axis endpoints toggle their single marker (roles found by dataflow); every index and slice of the rewriting stays inside the text (zone engine, k + p < len for skip/position)", "-"),
}
rows = {}
for f in sorted(glob.glob('/verif/evidence/C*.json')):
    e = json.load(open(f))
    rules = e["coverage"].get("rules", {})
    rows[e["property_id"]] = ", ".join("%s %s" % (k, (v.get("instances") if isinstance(v, dict) else v)) for k, v in sorted(rules.items()))
print("| id | rules (instances) | decides | not decided |\n|---|---|---|---|")
for pid in sorted(rows):
    t = TXT.get(pid)
    if pid in ("C13", "C14", "C15"):
        print("| %s | %s | as C12%s | values after the edit |" % (pid, rows[pid], " plus the direction of block moves" if pid == "C15" else ""))
        continue
    print("| %s | %s | %s | %s |" % (pid, rows[pid], t[0] if t else "", t[1] if t else ""))
