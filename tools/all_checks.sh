#!/bin/bash
# runs every claimed check once (quick tier) and prints one line per property; exit 1 if any does not hold
cd ${VERIF_DIR:-/verif}
rc=0
for id in $(python3 -c "import json;print(' '.join(c['property_id'] for c in json.load(open('MANIFEST.json'))['checks']))"); do
  out=$(./check $id --tier quick 2>&1 | grep -E "^RESULT|^VIOLATION|^ANCHOR|^REPORT" )
  line=$(echo "$out" | grep "^RESULT")
  echo "$line"
  if ! echo "$line" | grep -q "holds"; then rc=1; echo "$out" | grep -E "^REPORT|^ANCHOR" | cut -c1-300; fi
done
exit $rc
