#!/bin/bash
# runs every claimed check once (quick tier) and prints one line per property; exit 1 if any does not hold.
# PAR=<n> runs n checks at a time (the facts of the tree are extracted once, by the first check).
cd ${VERIF_DIR:-/verif}
ids=$(python3 -c "import json;print(' '.join(c['property_id'] for c in json.load(open('MANIFEST.json'))['checks']))")
one() {
  out=$(./check $1 --tier quick 2>&1 | grep -E "^RESULT|^VIOLATION|^ANCHOR|^REPORT")
  line=$(echo "$out" | grep "^RESULT")
  echo "$line"
  if ! echo "$line" | grep -q "holds"; then echo "$out" | grep -E "^REPORT|^ANCHOR" | cut -c1-300; fi
}
export -f one
first=$(echo $ids | cut -d' ' -f1)
tmp=$(mktemp)
one $first > $tmp
echo $ids | tr ' ' '\n' | tail -n +2 | xargs -P ${PAR:-1} -I{} bash -c 'one {}' >> $tmp
cat $tmp
rc=0
grep "^RESULT" $tmp | grep -qv "holds" && rc=1
rm -f $tmp
exit $rc
