#!/bin/bash
# Applies every behaviour-preserving patch under /verif/seeded/benign to a clean /repo in turn, runs every check, reverts,
# and writes seeded/benign/MATRIX.md. Any line other than "all hold" is a false alarm of the machinery.
REPO=${IRONCALC_REPO:-/repo}; V=${VERIF_DIR:-/verif}
cd $REPO && [ -z "$(git status --porcelain | grep -v _seed)" ] || { echo "repo not clean"; exit 2; }
out=$V/seeded/benign/MATRIX.md
echo "| patch | file(s) | edits | checks not holding |" > $out
echo "|---|---|---|---|" >> $out
for d in $(ls -d $V/seeded/benign/R* | sort -V); do
  r=$(basename $d)
  files=$(grep "^+++ b/" $d/patch.diff | sed 's#+++ b/##' | tr '\n' ' ')
  n=$(grep -c "^@@" $d/patch.diff)
  cd $REPO && git apply $d/patch.diff || { echo "| $r | $files | $n hunks | PATCH DOES NOT APPLY |" >> $out; continue; }
  res=$(cd $V && tools/all_checks.sh 2>&1 | grep "^RESULT" | grep -v "holds" | sed 's/RESULT //' | tr '\n' ';')
  cd $REPO && git checkout -- .
  echo "| $r | $files | $n hunks | ${res:-all 32 hold} |" >> $out
  echo "$r: ${res:-all hold}"
done
