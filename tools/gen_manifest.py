#!/usr/bin/env python3
"""Regenerate /verif/MANIFEST.json from lib/manifest_table.py (single source of truth)."""
import json, os, sys
HERE = os.path.dirname(os.path.abspath(__file__))
VERIF = os.path.dirname(HERE)
sys.path.insert(0, os.path.join(VERIF, "lib"))
import manifest_table as T

checks = []
for pid in sorted(T.CLAIMED):
    c = T.CLAIMED[pid]
    checks.append({
        "property_id": pid,
        "quick_cmd": "./check %s --tier quick" % pid,
        "thorough_cmd": "./check %s --tier thorough" % pid,
        "evidence_file": "/verif/evidence/%s.json" % pid,
        "replay_cmd_template": "cat {path}",
        "engine": "icq",
        "level_claimed": {"category": "other", "text": c["level"], "design_ref": c.get("design", "DESIGN.md §4 " + pid)},
        "level_note": c["note"],
        "technique": c["technique"],
    })
na = [{"property_id": pid, "reason": r} for pid, r in sorted(T.NOT_APPLICABLE.items())]
all_ids = {json.loads(l)["id"] for l in open(os.path.join(VERIF, "properties.jsonl"))}
covered = set(T.CLAIMED) | set(T.NOT_APPLICABLE)
assert covered == all_ids, (sorted(all_ids - covered), sorted(covered - all_ids))
assert not (set(T.CLAIMED) & set(T.NOT_APPLICABLE))
m = {
    "version": 1,
    "setup_cmd": "./setup.sh",
    "hooks": {
        "guard": "none",
        "enable": "no hooks: static analysis reads /repo's MIR through a rustc_private driver (RUSTC_WORKSPACE_WRAPPER under cargo +nightly check); /repo is not instrumented",
        "baseline_off_cmd": "cd /repo && cargo nextest run --workspace --no-fail-fast --test-threads 8 --offline",
        "source_commits": [],
        "add_only": True,
    },
    "engines": [
        {"name": "icfacts", "path": "icfacts/", "serves_properties": sorted(T.CLAIMED),
         "kind_free_text": "rustc_private fact extractor (ADTs, impls, MIR with resolved callees, constants) over ironcalc_base and ironcalc(xlsx)"},
        {"name": "icq", "path": "lib/", "serves_properties": sorted(T.CLAIMED),
         "kind_free_text": "Python query library and rule runner: CFG, dominators, provenance, call graph, type-based effect summaries, finite-domain path interpreter"},
    ],
    "checks": checks,
    "not_applicable": na,
    "notes": T.NOTES,
}
with open(os.path.join(VERIF, "MANIFEST.json"), "w") as fh:
    json.dump(m, fh, indent=1)
    fh.write("\n")
print("MANIFEST.json: %d checks, %d not applicable" % (len(checks), len(na)))
