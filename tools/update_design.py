#!/usr/bin/env python3
"""Refreshes the generated parts of DESIGN.md: the §0.2 table (from evidence/*.json via design_table.py) and the seeded
change matrix of §0.7 (from seeded/MATRIX.md)."""
import re, subprocess
p = '/verif/DESIGN.md'
s = open(p).read()
tab = subprocess.run(['python3', '/verif/tools/design_table.py'], capture_output=True, text=True).stdout.strip()
s = re.sub(r"<!-- TABLE02:BEGIN -->.*?<!-- TABLE02:END -->", lambda m: "<!-- TABLE02:BEGIN -->\n" + tab + "\n<!-- TABLE02:END -->", s, flags=re.S)
try:
    mat = open('/verif/seeded/MATRIX.md').read().strip()
    s = re.sub(r"<!-- MATRIX:BEGIN -->.*?<!-- MATRIX:END -->", lambda m: "<!-- MATRIX:BEGIN -->\n" + mat + "\n<!-- MATRIX:END -->", s, flags=re.S)
except FileNotFoundError:
    pass
open(p, 'w').write(s)
