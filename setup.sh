#!/bin/sh
# Build the fact extractor offline (rustc_private, nightly, zero crates). Facts themselves are
# extracted lazily by the first check, keyed on /repo's working tree.
set -e
cd "$(dirname "$0")/icfacts"
CARGO_NET_OFFLINE=true cargo build --offline 2>&1 | grep -v "^WARNING conda" || true
test -x target/debug/icfacts
echo "setup ok"
